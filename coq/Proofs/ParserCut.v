(* C02, last sentence: "when the stream is cut at any point exactly the messages wholly contained in the received prefix
   have been delivered while the rest is retained, not lost or delivered early".

   For a stream  wire1 ++ (p ++ q) ++ wire2  where wire1 parses to the messages ms1, p ++ q is ONE message m cut at a
   proper point (q <> []) and wire2 parses to ms2:  every fragmentation of the received prefix  wire1 ++ p  delivers
   exactly ms1 without error (m is not delivered early, nothing is refused), and from the state reached every
   fragmentation of the remainder  q ++ wire2  delivers exactly m :: ms2 and ends idle (nothing was lost).
   Proved for the reference machine and for the machine as implemented ([real]). *)
From Coq Require Import ZArith Lia List.
From Httoop Require Import Model.Parser Proofs.SplitP Proofs.HeadersP Proofs.ParserEsc Proofs.ParserFuel Proofs.ParserFraming
  Proofs.ParserFrag Proofs.ParserSim Proofs.ParserBridge Proofs.ParserWf Proofs.Http1ReaderP Proofs.ParserQuiet Proofs.ParserChunked.
Import ListNotations.
Local Open Scope N_scope.

Lemma concat_bytes_app (a b : list bytes) : concat_bytes (a ++ b) = concat_bytes a ++ concat_bytes b.
Proof. induction a as [|x a IH]; cbn [concat_bytes app]; [reflexivity|]. rewrite IH, app_assoc. reflexivity. Qed.

Section Cut.
Variable C : callees.
Variable k : kind.
Notation L := reference.
Notation E := eager_reference.

(* a turn that blocks on a non-empty buffer does not end in the idle state with an empty buffer *)
Lemma blocked_not_init_any s s1 : buf s <> [] -> turn_of L C k s = TBlocked s1 -> s1 <> init.
Proof.
  intros Hb T. destruct (cur s) as [i|] eqn:Cu; [|exact (blocked_not_init C k s s1 Cu Hb T)].
  rewrite (turn_of_eq L C k s), Cu, (after_startline_eq L C k) in T.
  destruct (i_phase i).
  - destruct (parse_headers L (i_le i) (i_hdrs i) (buf s)) as [h b'|h b'|e]; try discriminate.
    + injection T as <-. intros X. discriminate.
    + destruct (on_headers_complete C k _) as [i2|e2]; [|discriminate].
      rewrite (after_headers_eq L C k) in T.
      destruct (parse_body C i2 b') as [i' b''|i' b''|e]; try discriminate.
      * injection T as <-. intros X. discriminate.
      * destruct (on_body_complete L C k i' b''); discriminate.
  - rewrite (after_headers_eq L C k) in T.
    destruct (parse_body C i (buf s)) as [i' b''|i' b''|e]; try discriminate.
    + injection T as <-. intros X. discriminate.
    + destruct (on_body_complete L C k i' b''); discriminate.
Qed.

(* a call that delivers nothing, raises nothing and ends idle was given nothing (from whatever state) *)
Lemma silent_call_empty s d : parse L C k s d = (init, [], None) -> buf s ++ d = [].
Proof.
  intros P. rewrite (parse_eq L C k s d), (loop_S C) in P.
  destruct (buf (app_buf s d)) as [|c X] eqn:B0; [exact B0|]. exfalso.
  destruct (turn_of L C k (app_buf s d)) as [s1|s1 m|e] eqn:T.
  - injection P as ->. eapply (blocked_not_init_any (app_buf s d) init); [rewrite B0; discriminate | exact T | reflexivity].
  - rewrite (loop_acc L C k) in P. destruct (loop L C k _ s1 []) as [[s2 ms2] e2]. cbn [rev app] in P. discriminate.
  - discriminate.
Qed.

(* a proper prefix of ONE message delivers nothing and is not refused *)
Theorem proper_prefix_waits p q m : parse L C k init (p ++ q) = (init, [m], None) -> q <> [] ->
  exists s1, parse L C k init p = (s1, [], None).
Proof.
  intros P Hq. rewrite (parse_app L C k eq_refl eq_refl eq_refl init p q I I) in P.
  destruct (parse L C k init p) as [[s1 m1] [e|]] eqn:Pp; [discriminate|].
  destruct (parse L C k s1 q) as [[s2 m2] e2] eqn:Pq. injection P as -> Hm ->.
  destruct m1 as [|a m1]; [exists s1; reflexivity|]. exfalso.
  cbn [app] in Hm. injection Hm as -> Hm. apply app_eq_nil in Hm as [-> ->].
  pose proof (silent_call_empty s1 q Pq) as X. apply app_eq_nil in X as [_ X]. exact (Hq X).
Qed.

Lemma run_keep_app cfg f1 : forall s f2,
  run_keep cfg C k s (f1 ++ f2) =
  match run_keep cfg C k s f1 with
  | (s1, m1, None) => let '(s2, m2, e) := run_keep cfg C k s1 f2 in (s2, m1 ++ m2, e)
  | (_, m1, Some e) => (init, m1, Some e)
  end.
Proof.
  induction f1 as [|f fr IH]; intros s f2; cbn [run_keep app].
  - destruct (run_keep cfg C k s f2) as [[s2 m2] e]. reflexivity.
  - destruct (parse cfg C k s f) as [[s1 m1] [e|]]; [reflexivity|]. rewrite IH.
    destruct (run_keep cfg C k s1 fr) as [[sa ma] [ea|]]; [reflexivity|].
    destruct (run_keep cfg C k sa f2) as [[s2 m2] e]. rewrite app_assoc. reflexivity.
Qed.

Lemma quiet_run_app_l f1 : forall s f2, quiet_run C k s (f1 ++ f2) = true -> quiet_run C k s f1 = true.
Proof.
  induction f1 as [|f fr IH]; intros s f2; cbn [quiet_run app]; [reflexivity|].
  intros H. apply andb_true_iff in H as [H1 H2]. rewrite H1. cbn [andb].
  destruct (parse real C k s f) as [[s1 m1] [e|]]; [reflexivity|]. exact (IH s1 f2 H2).
Qed.

Section Stream.
Variables (wire1 p q wire2 : bytes) (ms1 ms2 : list msg) (m : msg).
Hypothesis P1 : parse L C k init wire1 = (init, ms1, None).
Hypothesis Pm : parse L C k init (p ++ q) = (init, [m], None).
Hypothesis P2 : parse L C k init wire2 = (init, ms2, None).
Hypothesis Hq : q <> [].

Lemma whole_stream : parse L C k init ((wire1 ++ p) ++ (q ++ wire2)) = (init, ms1 ++ m :: ms2, None).
Proof.
  replace ((wire1 ++ p) ++ (q ++ wire2)) with (wire1 ++ ((p ++ q) ++ wire2)) by (rewrite <- !app_assoc; reflexivity).
  rewrite (pipelining C k wire1 _ ms1 P1), (pipelining C k (p ++ q) wire2 [m] Pm), P2. reflexivity.
Qed.

(* the reference machine *)
Theorem cut_anywhere_reference frags : concat_bytes frags = wire1 ++ p ->
  exists s1, run_keep L C k init frags = (s1, ms1, None) /\
    forall frags2, concat_bytes frags2 = q ++ wire2 -> run_keep L C k s1 frags2 = (init, m :: ms2, None).
Proof.
  intros Ec.
  rewrite (run_keep_is_one_call reference C k eq_refl eq_refl eq_refl frags init); [| apply init_quiescent | exact I | exact I].
  rewrite Ec.
  destruct (proper_prefix_waits p q m Pm Hq) as (s1 & Pp).
  assert (Pa : parse L C k init (wire1 ++ p) = (s1, ms1, None)).
  { rewrite (pipelining C k wire1 p ms1 P1), Pp, app_nil_r. reflexivity. }
  exists s1. split; [exact Pa|]. intros frags2 E2.
  destruct (parse_result L C k eq_refl eq_refl eq_refl init (wire1 ++ p) s1 ms1 I I Pa) as (Q1 & W1 & C1).
  rewrite (run_keep_is_one_call reference C k eq_refl eq_refl eq_refl frags2 s1 Q1 W1 C1), E2.
  pose proof whole_stream as W. rewrite (parse_app L C k eq_refl eq_refl eq_refl init (wire1 ++ p) (q ++ wire2) I I), Pa in W.
  destruct (parse L C k s1 (q ++ wire2)) as [[s2 m2] e2]. injection W as -> Hm ->.
  apply app_inv_head in Hm. rewrite Hm. reflexivity.
Qed.

(* the machine as implemented, given that it is quiet on every fragmentation of a stream of LF-free-line messages
   (Proofs/ParserQuiet.v: the client always; the server when its header hook only accepts framed sections) *)
Hypothesis Quiet : forall wire ms frags, parse L C k init wire = (init, ms, None) ->
  Forall (fun x => no_lf (m_line x) = true) ms -> concat_bytes frags = wire -> quiet_run C k init frags = true.
Hypothesis Hlf : Forall (fun x => no_lf (m_line x) = true) (ms1 ++ m :: ms2).

Theorem cut_anywhere_real frags : concat_bytes frags = wire1 ++ p ->
  exists s1, run_keep real C k init frags = (s1, ms1, None) /\
    forall frags2, concat_bytes frags2 = q ++ wire2 -> run_keep real C k s1 frags2 = (init, m :: ms2, None).
Proof.
  intros Ec.
  assert (Whole : forall frags2, concat_bytes frags2 = q ++ wire2 ->
            quiet_run C k init (frags ++ frags2) = true /\ run_keep real C k init (frags ++ frags2) = (init, ms1 ++ m :: ms2, None)).
  { intros frags2 E2.
    assert (Ew : concat_bytes (frags ++ frags2) = (wire1 ++ p) ++ (q ++ wire2)) by (rewrite concat_bytes_app, Ec, E2; reflexivity).
    pose proof (Quiet _ _ (frags ++ frags2) whole_stream Hlf Ew) as Qr. split; [exact Qr|].
    destruct (whole_call_any_fragmentation C k _ _ (frags ++ frags2) whole_stream Ew) as [_ R]. exact (R Qr). }
  (* the prefix: no error, and the messages of the reference run *)
  destruct (Whole [q ++ wire2]) as [Q0 R0]; [cbn [concat_bytes]; rewrite app_nil_r; reflexivity|].
  pose proof (quiet_run_app_l frags init _ Q0) as Qf.
  rewrite (run_keep_app real frags init) in R0.
  destruct (cut_anywhere_reference frags Ec) as (sl & RL & _).
  assert (R00 : Rst init init) by reflexivity.
  pose proof (run_sim C k frags init init R00 I I) as S. rewrite RL in S.
  rewrite <- (run_real C k frags init Qf) in S.
  destruct (run_keep real C k init frags) as [[s1 m1] [e|]] eqn:RR; [discriminate|].
  assert (Em : m1 = ms1).
  { destruct S as [(se' & Ee & _) | (Ee & _)]; [injection Ee as _ -> ; reflexivity | discriminate]. }
  subst m1. exists s1. split; [reflexivity|]. intros frags2 E2.
  destruct (Whole frags2 E2) as [_ R2]. rewrite (run_keep_app real frags init), RR in R2.
  destruct (run_keep real C k s1 frags2) as [[s2 m2] e2]. injection R2 as -> Hm ->.
  apply app_inv_head in Hm. rewrite Hm. reflexivity.
Qed.

End Stream.
End Cut.

(* ---------- the same for pipelines of valid messages ([w_ok], Proofs/ParserChunked.v), both machines as implemented ---------- *)
Lemma no_lf_delivered (ms : list wmsg) : Forall (fun x => no_lf (w_line x) = true) ms ->
  Forall (fun x => no_lf (m_line x) = true) (map w_delivered ms).
Proof.
  induction ms as [|x ms IH]; intros H; cbn [map]; [constructor|].
  inversion H as [|x' ms' Hx Hms]; subst. constructor; [exact Hx | exact (IH Hms)].
Qed.

Section CutPipeline.
Variable PC : callees.
Variable k : kind.
Variables (ms1 ms2 : list wmsg) (m : wmsg) (p q : bytes).
Hypothesis Hok : Forall (w_ok PC k) (ms1 ++ m :: ms2).
Hypothesis Hwire : w_wire m = p ++ q.
Hypothesis Hq : q <> [].

Lemma ok_parts : Forall (w_ok PC k) ms1 /\ w_ok PC k m /\ Forall (w_ok PC k) ms2.
Proof.
  destruct (proj1 (Forall_app _ _ _) Hok) as [H1 H2]. inversion H2 as [|x xs Hm Hms]. split; [exact H1 | split; [exact Hm | exact Hms]].
Qed.

Lemma one_message : parse reference PC k init (p ++ q) = (init, [w_delivered m], None).
Proof.
  destruct ok_parts as (_ & Hm & _). rewrite <- Hwire.
  pose proof (pipeline_delivered PC k [m] (Forall_cons _ Hm (Forall_nil _))) as P.
  cbn [map concat_bytes] in P. rewrite app_nil_r in P. exact P.
Qed.

Theorem cut_pipeline_reference frags : concat_bytes frags = concat_bytes (map w_wire ms1) ++ p ->
  exists s1, run_keep reference PC k init frags = (s1, map w_delivered ms1, None) /\
    forall frags2, concat_bytes frags2 = q ++ concat_bytes (map w_wire ms2) ->
      run_keep reference PC k s1 frags2 = (init, map w_delivered (m :: ms2), None).
Proof.
  destruct ok_parts as (H1 & _ & H2).
  exact (cut_anywhere_reference PC k _ p q _ _ _ _ (pipeline_delivered PC k ms1 H1) one_message (pipeline_delivered PC k ms2 H2) Hq frags).
Qed.

Hypothesis Hlf : Forall (fun x => no_lf (w_line x) = true) (ms1 ++ m :: ms2).
Hypothesis Quiet : forall wire ms frags, parse reference PC k init wire = (init, ms, None) ->
  Forall (fun x => no_lf (m_line x) = true) ms -> concat_bytes frags = wire -> quiet_run PC k init frags = true.

Theorem cut_pipeline_real frags : concat_bytes frags = concat_bytes (map w_wire ms1) ++ p ->
  exists s1, run_keep real PC k init frags = (s1, map w_delivered ms1, None) /\
    forall frags2, concat_bytes frags2 = q ++ concat_bytes (map w_wire ms2) ->
      run_keep real PC k s1 frags2 = (init, map w_delivered (m :: ms2), None).
Proof.
  destruct ok_parts as (H1 & _ & H2).
  apply (cut_anywhere_real PC k _ p q _ _ _ _ (pipeline_delivered PC k ms1 H1) one_message (pipeline_delivered PC k ms2 H2) Hq Quiet).
  pose proof (no_lf_delivered _ Hlf) as N. rewrite map_app in N. exact N.
Qed.

End CutPipeline.

(* the client machine as implemented *)
Theorem client_cut_anywhere (PC : callees) ms1 m ms2 p q frags :
  Forall (w_ok PC Client) (ms1 ++ m :: ms2) -> Forall (fun x => no_lf (w_line x) = true) (ms1 ++ m :: ms2) ->
  w_wire m = p ++ q -> q <> [] -> concat_bytes frags = concat_bytes (map w_wire ms1) ++ p ->
  exists s1, run_keep real PC Client init frags = (s1, map w_delivered ms1, None) /\
    forall frags2, concat_bytes frags2 = q ++ concat_bytes (map w_wire ms2) ->
      run_keep real PC Client s1 frags2 = (init, map w_delivered (m :: ms2), None).
Proof.
  intros Hok Hlf Hw Hq. exact (cut_pipeline_real PC Client ms1 ms2 m p q Hok Hw Hq Hlf (client_quiet PC) frags).
Qed.

(* the server machine as implemented: through [star PC], whose header hook refuses unframed sections; runs without error
   under [star PC] are runs under PC *)
Theorem server_cut_anywhere (PC : callees) ms1 m ms2 p q frags :
  Forall (w_ok PC Server) (ms1 ++ m :: ms2) -> Forall (fun x => no_lf (w_line x) = true) (ms1 ++ m :: ms2) ->
  w_wire m = p ++ q -> q <> [] -> concat_bytes frags = concat_bytes (map w_wire ms1) ++ p ->
  exists s1, run_keep real PC Server init frags = (s1, map w_delivered ms1, None) /\
    forall frags2, concat_bytes frags2 = q ++ concat_bytes (map w_wire ms2) ->
      run_keep real PC Server s1 frags2 = (init, map w_delivered (m :: ms2), None).
Proof.
  intros Hok Hlf Hw Hq Ec.
  assert (Hok' : Forall (w_ok (star PC) Server) (ms1 ++ m :: ms2)).
  { clear Hlf Ec. induction (ms1 ++ m :: ms2) as [|x xs IH]; [constructor|]. inversion Hok as [|x' xs' Hx Hxs]; subst.
    constructor; [apply w_ok_star, Hx | exact (IH Hxs)]. }
  destruct (cut_pipeline_real (star PC) Server ms1 ms2 m p q Hok' Hw Hq Hlf
              (fun wire ms fr P N E => server_quiet (star PC) wire ms fr (star_framed PC) P N E) frags Ec) as (s1 & R1 & R2).
  exists s1. split.
  - pose proof (run_star real PC Server frags init) as S. rewrite R1 in S. exact S.
  - intros frags2 E2. pose proof (run_star real PC Server frags2 s1) as S. rewrite (R2 frags2 E2) in S. exact S.
Qed.

(* C14: multipart and message/http round trips (the framing httoop owns). *)
From Coq Require Import Permutation.
From Httoop Require Import Lib.Bytes Lib.Split Lib.Variant Proofs.SplitP Proofs.CodecsSplit
  Model.Headers Proofs.HeadersP Model.Codecs Proofs.CodecsHdr.
Local Open Scope N_scope.

(* headers.setdefault('Content-Type', default_content_type) *)
Definition with_ct (dct : bytes) (h : hdrs) : hdrs := if hmem K_CT h then h else hset K_CT dct h.

(* ------------------------------------------------------------------ small facts *)
Lemma delim_nonnil bd : delim bd <> [].
Proof. discriminate. Qed.

Lemma unsnoc_app {A} (l : list A) (x : A) : unsnoc (l ++ [x]) = Some (l, x).
Proof.
  induction l as [|y l IH]; [reflexivity|]. cbn [app]. change (unsnoc (y :: l ++ [x])) with
    (match l ++ [x] with [] => Some ([], y) | _ :: _ => match unsnoc (l ++ [x]) with Some (i, z) => Some (y :: i, z) | None => None end end).
  rewrite IH. destruct l; reflexivity.
Qed.

Lemma drop_last2_app content : drop_last2 (content ++ CRLF) = content.
Proof.
  unfold drop_last2. rewrite app_length. cbn [length CRLF].
  replace (length content + 2 - 2)%nat with (length content) by lia. apply firstn_app_exact.
Qed.

Lemma skipn2_CRLF r : skipn 2 (CRLF ++ r) = r.
Proof. reflexivity. Qed.

Lemma prefixb_CRLF_block blk r : prefixb CRLF blk = false -> blk <> [] -> prefixb CRLF (blk ++ CRLF ++ r) = false.
Proof.
  intros P Hne. destruct blk as [|c [|d blk]]; [congruence| |].
  - unfold CRLF. cbn [app prefixb]. replace (beq LF CR) with false by reflexivity.
    cbn [andb]. apply andb_false_r.
  - change ((c :: d :: blk) ++ CRLF ++ r) with ((c :: d :: blk) ++ (CRLF ++ r)).
    rewrite prefixb_app_long; [exact P | cbn; lia].
Qed.

(* ------------------------------------------------------------------ one part *)
(* a part with header fields: block CRLF CRLF content CRLF *)
Lemma mp_part_decode_hdr v dct blk h content :
  hparse [] blk = Some h -> no_early CRLF2 blk = true ->
  mp_part_decode v dct (CRLF ++ (blk ++ CRLF2) ++ content ++ CRLF) = MpOk (with_ct dct h, content).
Proof.
  intros Hp Hn. destruct (hparse_not_crlf_prefix _ _ Hp) as [Pb Hne].
  unfold mp_part_decode. rewrite prefixb_app. cbn [negb]. rewrite skipn2_CRLF.
  rewrite <- app_assoc.
  assert (C : cut CRLF2 (blk ++ CRLF2 ++ content ++ CRLF) = Some (blk, content ++ CRLF)).
  { apply cut_first; [discriminate | exact Hn]. }
  assert (P : prefixb CRLF (blk ++ CRLF2 ++ content ++ CRLF) = false).
  { unfold CRLF2. rewrite <- app_assoc. apply prefixb_CRLF_block; assumption. }
  assert (N : nonempty_b blk = true) by (destruct blk; [congruence | reflexivity]).
  destruct v; rewrite ?P, C, suffixb_app; cbn [negb]; rewrite ?N, Hp, drop_last2_app; reflexivity.
Qed.

(* a part without header fields (repaired decoder): CRLF content CRLF *)
Lemma mp_part_decode_nohdr dct content :
  mp_part_decode Repaired dct (CRLF ++ CRLF ++ content ++ CRLF) = MpOk (with_ct dct [], content).
Proof.
  unfold mp_part_decode. rewrite prefixb_app. cbn [negb]. rewrite skipn2_CRLF, prefixb_app, skipn2_CRLF.
  rewrite suffixb_app. cbn [negb nonempty_b]. rewrite drop_last2_app. reflexivity.
Qed.

(* ------------------------------------------------------------------ composed header block as a callee *)
Definition hdrs_eqb : hdrs -> hdrs -> bool :=
  list_eqb (fun p q => bytes_eqb (fst p) (fst q) && bytes_eqb (snd p) (snd q)).
Lemma hdrs_eqb_eq a b : hdrs_eqb a b = true <-> a = b.
Proof.
  apply list_eqb_eq. intros [k v] [k' v']. cbn [fst snd]. rewrite andb_true_iff, !bytes_eqb_eq.
  split; [intros [-> ->]; reflexivity | intros E; injection E; auto].
Qed.

Definition is_repaired (v : variant) : bool := match v with Repaired => true | AsFound => false end.
Definition is_nil {A} (l : list A) : bool := match l with [] => true | _ => false end.

(* hb = bytes(headers) is acceptable for the header set h:  either the empty collection (one CRLF; needs the
   repaired decoder), or a block that Headers.parse reads back as h, followed by the empty line *)
Definition hb_ok (v : variant) (hb : bytes) (h : hdrs) : bool :=
  (is_repaired v && bytes_eqb hb CRLF && is_nil h)
  || (let blk := firstn (length hb - 4) hb in
      bytes_eqb hb (blk ++ CRLF2) && opt_eqb hdrs_eqb (hparse [] blk) (Some h) && no_early CRLF2 blk).

Lemma hb_ok_inv v hb h : hb_ok v hb h = true ->
  (v = Repaired /\ hb = CRLF /\ h = []) \/
  (exists blk, hb = blk ++ CRLF2 /\ hparse [] blk = Some h /\ no_early CRLF2 blk = true).
Proof.
  unfold hb_ok. intros H. apply orb_true_iff in H as [H|H].
  - left. apply andb_true_iff in H as [H H3]. apply andb_true_iff in H as [H1 H2].
    apply bytes_eqb_eq in H2. destruct v; [discriminate|]. destruct h; [auto | discriminate].
  - right. apply andb_true_iff in H as [H H3]. apply andb_true_iff in H as [H1 H2].
    apply bytes_eqb_eq in H1. exists (firstn (length hb - 4) hb). split; [exact H1|]. split; [|exact H3].
    destruct (hparse [] (firstn (length hb - 4) hb)) as [h'|]; cbn [opt_eqb] in H2; [|discriminate].
    apply hdrs_eqb_eq in H2. congruence.
Qed.

Lemma mp_part_decode_ok v dct hb h content : hb_ok v hb h = true ->
  mp_part_decode v dct (CRLF ++ hb ++ content ++ CRLF) = MpOk (with_ct dct h, content).
Proof.
  intros H. apply hb_ok_inv in H as [(-> & -> & ->)|(blk & -> & Hp & Hn)].
  - apply mp_part_decode_nohdr.
  - apply mp_part_decode_hdr; assumption.
Qed.

(* ------------------------------------------------------------------ the whole body *)
(* what lies between two delimiters *)
Definition between (p : bytes * bytes) : bytes := CRLF ++ fst p ++ snd p ++ CRLF.
Definition mp_tail : bytes := DASH2 ++ CRLF.

Lemma mp_encode_sep_end bd ps : mp_encode bd ps = delim bd ++ sep_end (delim bd) (map between ps) mp_tail.
Proof.
  unfold mp_encode, mp_close. induction ps as [|p ps IH]; cbn [map concat_bytes sep_end app].
  - reflexivity.
  - unfold mp_part at 1. unfold between at 1. rewrite <- !app_assoc. f_equal.
    f_equal. f_equal. f_equal. f_equal. rewrite <- IH. reflexivity.
Qed.

(* the delimiter must first occur where the encoder put it: precise (necessary and sufficient) condition *)
Definition part_sep_ok (bd : bytes) (p : bytes * bytes) : bool := no_early (delim bd) (between p).
Definition close_ok (bd : bytes) : bool := negb (contains (delim bd) mp_tail).

Lemma mp_split bd ps : forallb (part_sep_ok bd) ps = true -> close_ok bd = true ->
  split_all (delim bd) (mp_encode bd ps) = [] :: map between ps ++ [mp_tail].
Proof.
  intros Hs Hc. rewrite mp_encode_sep_end.
  rewrite (split_all_cut (delim bd) _ [] (sep_end (delim bd) (map between ps) mp_tail)); [|apply delim_nonnil|].
  - f_equal. apply split_all_sep_end; [apply delim_nonnil | | apply negb_true_iff, Hc].
    apply Forall_forall. intros x Hx. apply in_map_iff in Hx as (p & <- & Hin).
    rewrite forallb_forall in Hs. apply (Hs p Hin).
  - change (delim bd ++ sep_end (delim bd) (map between ps) mp_tail) with
      ([] ++ delim bd ++ sep_end (delim bd) (map between ps) mp_tail).
    apply cut_first; [apply delim_nonnil|]. unfold no_early. apply negb_true_iff, contains_short.
    cbn [app]. destruct bd as [|b bd]; [cbn; lia|].
    unfold delim, DASH2. cbn [app]. change (DASH :: DASH :: b :: bd) with ([DASH; DASH] ++ b :: bd).
    rewrite removelast_app by discriminate. rewrite !app_length. cbn [length].
    assert (length (removelast (b :: bd)) < length (b :: bd))%nat.
    { rewrite (app_removelast_last b (l := b :: bd)) at 2 by discriminate. rewrite app_length. cbn. lia. }
    cbn [length] in *. lia.
Qed.

Section General.
Variable v : variant.
Variable dct bd : bytes.

(* parts given as (bytes(headers), header set it stands for, content) *)
Definition gpart := (bytes * hdrs * bytes)%type.
Definition g_enc (p : gpart) : bytes * bytes := (fst (fst p), snd p).
Definition g_dec (p : gpart) : hdrs * bytes := (with_ct dct (snd (fst p)), snd p).
Definition g_ok (p : gpart) : bool := hb_ok v (fst (fst p)) (snd (fst p)) && part_sep_ok bd (g_enc p).

Lemma mp_parts_ok ps : forallb g_ok ps = true ->
  mp_parts v dct (map between (map g_enc ps)) = MpOk (map g_dec ps).
Proof.
  induction ps as [|[[hb h] content] ps IH]; intros H; [reflexivity|].
  cbn [forallb] in H. apply andb_true_iff in H as [Hp H]. unfold g_ok in Hp. apply andb_true_iff in Hp as [Hb _].
  cbn [fst snd] in Hb. cbn [map mp_parts]. unfold between at 1. unfold g_enc at 1 2. cbn [fst snd].
  rewrite (mp_part_decode_ok v dct hb h content Hb), (IH H). reflexivity.
Qed.

Theorem multipart_general ps : close_ok bd = true -> forallb g_ok ps = true ->
  mp_decode v dct bd (mp_encode bd (map g_enc ps)) = MpOk (map g_dec ps).
Proof.
  intros Hc H. unfold mp_decode. rewrite mp_split; [| |exact Hc].
  - cbn [nonempty_b]. rewrite unsnoc_app.
    replace (bytes_eqb mp_tail DASH2 || bytes_eqb mp_tail (DASH2 ++ CRLF)) with true by reflexivity.
    apply mp_parts_ok, H.
  - rewrite forallb_forall in *. intros p Hp. apply in_map_iff in Hp as (g & <- & Hg).
    specialize (H g Hg). unfold g_ok in H. apply andb_true_iff in H as [_ H]. exact H.
Qed.
End General.

(* ------------------------------------------------------------------ boundaries without CR / LF: no straddling *)
Definition bd_clean (bd : bytes) : bool :=
  nonempty_b bd && forallb (fun c => negb (beq c CR) && negb (beq c LF)) bd.

Lemma bd_clean_inv bd : bd_clean bd = true -> bd <> [] /\ ~ In CR (delim bd) /\ ~ In LF (delim bd).
Proof.
  unfold bd_clean. intros H. apply andb_true_iff in H as [H1 H2]. split; [destruct bd; [discriminate | discriminate]|].
  rewrite forallb_forall in H2.
  assert (G : forall c, (c = CR \/ c = LF) -> ~ In c (delim bd)).
  { intros c Hc Hin. unfold delim, DASH2 in Hin. cbn [app] in Hin. destruct Hin as [E|[E|Hin]].
    - destruct Hc as [-> | ->]; discriminate E.
    - destruct Hc as [-> | ->]; discriminate E.
    - specialize (H2 c Hin). apply andb_true_iff in H2 as [A B]. apply negb_true_iff in A. apply negb_true_iff in B.
      rewrite beq_neq in A, B. destruct Hc; contradiction. }
  split; apply G; auto.
Qed.

Lemma close_ok_clean bd : bd_clean bd = true -> close_ok bd = true.
Proof.
  intros H. destruct (bd_clean_inv bd H) as (Hne & Hcr & _).
  unfold close_ok. apply negb_true_iff. unfold mp_tail, DASH2, CRLF.
  change ([DASH; DASH] ++ [CR; LF]) with ([DASH; DASH] ++ CR :: [LF]).
  destruct bd as [|b bd]; [congruence|].
  apply contains_app_sep; [apply delim_nonnil | exact Hcr | |]; apply contains_short; cbn; lia.
Qed.

Lemma contains_nil_false pat : pat <> [] -> contains pat [] = false.
Proof. intros H. apply contains_short. destruct pat; [congruence | cbn; lia]. Qed.

Lemma removelast_shorter (pat : bytes) : pat <> [] -> (length (removelast pat) < length pat)%nat.
Proof.
  intros H. rewrite (app_removelast_last x00 H) at 2. rewrite app_length. cbn. lia.
Qed.

(* the composed header block ends with CRLF; neither it nor the content contains the delimiter *)
Lemma part_sep_ok_clean bd H0 content : bd_clean bd = true ->
  contains (delim bd) H0 = false -> contains (delim bd) content = false ->
  part_sep_ok bd (H0 ++ CRLF, content) = true.
Proof.
  intros Hb HH Hc. destruct (bd_clean_inv bd Hb) as (Hne & Hcr & Hlf).
  unfold part_sep_ok, no_early, between. cbn [fst snd]. apply negb_true_iff.
  pose proof (delim_nonnil bd) as Hd.
  replace ((CRLF ++ (H0 ++ CRLF) ++ content ++ CRLF) ++ removelast (delim bd))
    with ([] ++ CR :: ([] ++ LF :: (H0 ++ CR :: ([] ++ LF :: (content ++ CR :: ([] ++ LF :: removelast (delim bd)))))))
    by (unfold CRLF; rewrite <- !app_assoc; reflexivity).
  apply contains_app_sep; auto using contains_nil_false.
  apply contains_app_sep; auto using contains_nil_false.
  apply contains_app_sep; auto.
  apply contains_app_sep; auto using contains_nil_false.
  apply contains_app_sep; auto.
  apply contains_app_sep; auto using contains_nil_false.
  apply contains_short, removelast_shorter, Hd.
Qed.

(* ------------------------------------------------------------------ concrete header composition *)
Definition part_ok (bd : bytes) (p : hdrs * bytes) : bool :=
  hdrs_wf (fst p)
  && negb (contains (delim bd) (hcompose_sorted (hsort (fst p))))
  && negb (contains (delim bd) (snd p)).
Definition enc_part (p : hdrs * bytes) : bytes * bytes := (hcompose_sorted (hsort (fst p)), snd p).
Definition dec_part (dct : bytes) (p : hdrs * bytes) : hdrs * bytes := (with_ct dct (hsort (fst p)), snd p).
Definition has_fields (p : hdrs * bytes) : bool := negb (is_nil (fst p)).

Lemma hcompose_some h hb : hcompose h = Some hb -> hb = hcompose_sorted (hsort h).
Proof. unfold hcompose. destruct (existsb _ h); congruence. Qed.

Lemma hb_ok_concrete v h : hdrs_wf h = true -> (is_repaired v || negb (is_nil h)) = true ->
  hb_ok v (hcompose_sorted (hsort h)) (hsort h) = true.
Proof.
  intros Hw Hv. pose proof (hdrs_wf_hsort h Hw) as Hs. unfold hb_ok.
  destruct (hsort h) as [|kv l] eqn:E.
  - apply (proj1 (hsort_nil_iff h)) in E. subst h. cbn [is_nil negb] in Hv. rewrite orb_false_r in Hv. rewrite Hv. reflexivity.
  - apply orb_true_iff. right. rewrite hcompose_sorted_block by discriminate.
    rewrite app_length. change (length CRLF2) with 4%nat.
    replace (length (hblock_of (kv :: l)) + 4 - 4)%nat with (length (hblock_of (kv :: l))) by lia.
    rewrite firstn_app_exact, bytes_eqb_refl, hparse_hblock by (discriminate || exact Hs).
    cbn [opt_eqb]. replace (hdrs_eqb (kv :: l) (kv :: l)) with true by (symmetry; apply hdrs_eqb_eq; reflexivity).
    rewrite hblock_no_early by exact Hs. reflexivity.
Qed.

Lemma hcompose_sorted_ends l : exists H0, hcompose_sorted l = H0 ++ CRLF.
Proof. unfold hcompose_sorted. eauto. Qed.

Lemma g_ok_concrete v bd p : bd_clean bd = true -> part_ok bd p = true -> (is_repaired v || has_fields p) = true ->
  g_ok v bd (hcompose_sorted (hsort (fst p)), hsort (fst p), snd p) = true.
Proof.
  intros Hb Hp Hv. unfold part_ok in Hp. apply andb_true_iff in Hp as [Hp H3]. apply andb_true_iff in Hp as [H1 H2].
  apply negb_true_iff in H2. apply negb_true_iff in H3.
  unfold g_ok, g_enc. cbn [fst snd]. rewrite hb_ok_concrete by assumption. cbn [andb].
  destruct (hcompose_sorted_ends (hsort (fst p))) as [H0 E]. rewrite E in *.
  apply part_sep_ok_clean; [exact Hb | apply (contains_app_l_false _ _ _ H2) | exact H3].
Qed.

Theorem multipart_roundtrip_v v dct bd ps :
  bd_clean bd = true -> forallb (part_ok bd) ps = true -> (is_repaired v || forallb has_fields ps) = true ->
  mp_decode v dct bd (mp_encode bd (map enc_part ps)) = MpOk (map (dec_part dct) ps).
Proof.
  intros Hb Hp Hv.
  pose (gs := map (fun p : hdrs * bytes => (hcompose_sorted (hsort (fst p)), hsort (fst p), snd p)) ps).
  replace (map enc_part ps) with (map g_enc gs) by (unfold gs; rewrite map_map; reflexivity).
  replace (map (dec_part dct) ps) with (map (g_dec dct) gs) by (unfold gs; rewrite map_map; reflexivity).
  apply multipart_general; [apply close_ok_clean, Hb|].
  unfold gs. rewrite forallb_forall. intros g Hg. apply in_map_iff in Hg as (p & <- & Hin).
  rewrite forallb_forall in Hp. apply g_ok_concrete; [exact Hb | apply Hp, Hin|].
  destruct v; cbn [is_repaired orb] in *; [|reflexivity]. rewrite forallb_forall in Hv. apply Hv, Hin.
Qed.

Theorem multipart_roundtrip dct bd ps : bd_clean bd = true -> forallb (part_ok bd) ps = true ->
  mp_decode Repaired dct bd (mp_encode bd (map enc_part ps)) = MpOk (map (dec_part dct) ps).
Proof. intros Hb Hp. apply multipart_roundtrip_v; auto. Qed.

Theorem multipart_roundtrip_asfound dct bd ps : bd_clean bd = true -> forallb (part_ok bd) ps = true ->
  forallb has_fields ps = true ->
  mp_decode AsFound dct bd (mp_encode bd (map enc_part ps)) = MpOk (map (dec_part dct) ps).
Proof. intros Hb Hp Hf. apply multipart_roundtrip_v; auto. Qed.

(* D51: a part without header fields is not read back by the pinned decoder *)
Theorem multipart_asfound_refuted : exists dct bd ps, bd_clean bd = true /\ forallb (part_ok bd) ps = true /\
  mp_decode AsFound dct bd (mp_encode bd (map enc_part ps)) <> MpOk (map (dec_part dct) ps).
Proof.
  exists MP_DEFAULT_CT, [x62], [([], [x78])]. split; [reflexivity|]. split; [vm_compute; reflexivity|].
  vm_compute. discriminate.
Qed.

(* the side condition is needed: content containing the delimiter is not read back (by either decoder) *)
Theorem multipart_delimiter_in_content_refuted : exists v dct bd ps, bd_clean bd = true /\
  forallb (fun p => hdrs_wf (fst p)) ps = true /\
  mp_decode v dct bd (mp_encode bd (map enc_part ps)) <> MpOk (map (dec_part dct) ps).
Proof.
  exists Repaired, MP_DEFAULT_CT, [x62], [([], [x2d; x2d; x62])]. split; [reflexivity|]. split; [reflexivity|].
  vm_compute. discriminate.
Qed.

(* the own header fields are kept: the decoded collection is the sorted one plus, when absent, the default type *)
Lemma with_ct_keeps dct h k : k <> K_CT -> hget k (with_ct dct h) = hget k h.
Proof.
  intros Hk. unfold with_ct. destruct (hmem K_CT h); [reflexivity|]. apply hget_hset_other. exact Hk.
Qed.
Lemma with_ct_present dct h : hmem K_CT h = true -> with_ct dct h = h.
Proof. unfold with_ct. intros ->. reflexivity. Qed.

(* valid boundaries (the strict reading of VALID_BOUNDARY) are clean *)
Lemma boundary_classes_clean : forall c, inmask BOUNDARY_INNER c || inmask BOUNDARY_LAST c = true ->
  negb (beq c CR) && negb (beq c LF) = true.
Proof.
  assert (H : forall c, implb (inmask BOUNDARY_INNER c || inmask BOUNDARY_LAST c) (negb (beq c CR) && negb (beq c LF)) = true).
  { apply forall_byte. vm_compute. reflexivity. }
  intros c Hc. specialize (H c). rewrite Hc in H. exact H.
Qed.

Lemma unsnoc_some {A} (l : list A) i z : unsnoc l = Some (i, z) -> l = i ++ [z].
Proof.
  revert i z. induction l as [|x l IH]; intros i z H; [discriminate|].
  destruct l as [|y l].
  - cbn in H. injection H as <- <-. reflexivity.
  - change (unsnoc (x :: y :: l)) with (match unsnoc (y :: l) with Some (i, z) => Some (x :: i, z) | None => None end) in H.
    destruct (unsnoc (y :: l)) as [[i' z']|]; [|discriminate]. injection H as <- <-.
    rewrite (IH i' z' eq_refl). reflexivity.
Qed.

Theorem boundary_strict_clean bd : boundary_strict bd = true -> bd_clean bd = true.
Proof.
  unfold boundary_strict. destruct (unsnoc bd) as [[i z]|] eqn:U; [|discriminate].
  intros H. apply andb_true_iff in H as [H _]. apply andb_true_iff in H as [Hi Hz].
  apply unsnoc_some in U. subst bd. unfold bd_clean. apply andb_true_iff. split; [destruct i; reflexivity|].
  rewrite forallb_app. apply andb_true_iff. split.
  - rewrite forallb_forall in *. intros c Hc. apply boundary_classes_clean. rewrite (Hi c Hc). reflexivity.
  - cbn [forallb]. rewrite andb_true_r. apply boundary_classes_clean. rewrite Hz. apply orb_true_r.
Qed.

(* ------------------------------------------------------------------ message/http *)
Section HttpProofs.
Context {SL : Type}.
Variable slp : bytes -> option SL.

Theorem http_roundtrip_general v line m blk h body :
  cut CRLF line = None -> slp line = Some m -> hparse [] blk = Some h -> no_early CRLF2 blk = true ->
  http_decode slp v (http_encode (line ++ CRLF) (blk ++ CRLF2) body) = HtOk m h body.
Proof.
  intros Hl Hs Hp Hn. destruct (hparse_not_crlf_prefix _ _ Hp) as [Pb Hne].
  unfold http_decode, http_encode. rewrite <- !app_assoc.
  rewrite (cut_CRLF_none_app line _ Hl), Hs.
  rewrite (cut_first CRLF2 blk body) by (discriminate || exact Hn). rewrite Hp.
  destruct v; [reflexivity|].
  unfold CRLF2. rewrite <- app_assoc. rewrite prefixb_CRLF_block by assumption. reflexivity.
Qed.

Theorem http_roundtrip_nohdr line m body : cut CRLF line = None -> slp line = Some m ->
  http_decode slp Repaired (http_encode (line ++ CRLF) CRLF body) = HtOk m [] body.
Proof.
  intros Hl Hs. unfold http_decode, http_encode. rewrite <- !app_assoc.
  rewrite (cut_CRLF_none_app line _ Hl), Hs, prefixb_app. reflexivity.
Qed.

Theorem http_roundtrip_v v line m h body : cut CRLF line = None -> slp line = Some m -> hdrs_wf h = true ->
  (is_repaired v || negb (is_nil h)) = true ->
  http_decode slp v (http_encode (line ++ CRLF) (hcompose_sorted (hsort h)) body) = HtOk m (hsort h) body.
Proof.
  intros Hl Hs Hw Hv. pose proof (hdrs_wf_hsort h Hw) as Hws.
  destruct (hsort h) as [|kv l] eqn:E.
  - apply (proj1 (hsort_nil_iff h)) in E. subst h. cbn [is_nil negb] in Hv. rewrite orb_false_r in Hv.
    destruct v; [discriminate|]. apply http_roundtrip_nohdr; assumption.
  - rewrite hcompose_sorted_block by discriminate. apply http_roundtrip_general; auto.
    + apply hparse_hblock; [discriminate | exact Hws].
    + apply hblock_no_early, Hws.
Qed.
End HttpProofs.

Theorem http_asfound_refuted : exists (line body : bytes), cut CRLF line = None /\
  http_decode (fun _ => Some tt) AsFound (http_encode (line ++ CRLF) (hcompose_sorted (hsort [])) body) <> HtOk tt [] body.
Proof. exists [x47], [x78]. split; [reflexivity|]. vm_compute. discriminate. Qed.

(* shard of the 400-year cycle sweep: days of the era [0, 36525) *)
From Coq Require Import ZArith Bool.
From Httoop Require Import Model.DateCal Proofs.DateSweep.
Local Open Scope Z_scope.

Lemma cycle_shard_A : forall doe, 0 <= doe < 36525 -> cyc_ok doe = true.
Proof. apply zsweep_range. vm_compute. reflexivity. Qed.

(* C03 on the parser model: no outcome of any parse() call is an escaping exception, provided the
   callees raise none; and the explicit fuel of the loops is never exhausted (bounded work). *)
From Coq Require Import ZArith.
From Httoop Require Import Model.Parser Proofs.SplitP.
Local Open Scope N_scope.

Definition callees_no_escape (C : callees) : Prop :=
  (forall l, c_start C l <> SlEscape) /\ (forall p h, c_hdrs C p h <> HEscape) /\
  (forall ce b, c_decode C ce b <> DcEscape) /\ (forall v, c_2047 C v <> REscape) /\
  (forall v, c_trailer C v <> TrEscape).

Ltac dmatch :=
  match goal with
  | H : context [match ?x with _ => _ end] |- _ => destruct x eqn:?
  end.

Section Esc.
Variable cfg : config.
Variable C : callees.
Variable k : kind.
Hypothesis HC : callees_no_escape C.

Let H1 := proj1 HC.
Let H2 := proj1 (proj2 HC).
Let H3 := proj1 (proj2 (proj2 HC)).
Let H4 := proj1 (proj2 (proj2 (proj2 HC))).
Let H5 := proj2 (proj2 (proj2 (proj2 HC))).

Lemma hgetitem_noesc v : hgetitem C v <> GEscape.
Proof. unfold hgetitem. pose proof (H4 v). destruct (triggers_2047 v); [destruct (c_2047 C v); congruence | congruence]. Qed.

Lemma determine_noesc i e : determine C i = inr e -> e <> EEscape.
Proof.
  unfold determine. intros H. pose proof hgetitem_noesc as G.
  repeat dmatch; try congruence; try (injection H as <-; congruence);
  match goal with E : hgetitem C ?v = GEscape |- _ => exfalso; exact (G v E) end.
Qed.

Lemma happend_noesc h n v e : happend C h n v = inr e -> e <> EEscape.
Proof.
  unfold happend. intros H. pose proof hgetitem_noesc as G.
  repeat dmatch; try congruence; try (injection H as <-; congruence);
  match goal with E : hgetitem C ?v = GEscape |- _ => exfalso; exact (G v E) end.
Qed.

Lemma merge_noesc ns : forall h tr e, merge_trailers C ns h tr = inr e -> e <> EEscape.
Proof.
  induction ns as [|n ns IH]; intros h tr e; cbn [merge_trailers]; [discriminate|].
  destruct (hget n tr) as [v|]; [|apply IH]. destruct (happend C h n v) eqn:E; [apply IH|].
  intros H. injection H as <-. eapply happend_noesc; eauto.
Qed.

Lemma parse_trailers_noesc i b e : parse_trailers C i b = Fail e -> e <> EEscape.
Proof.
  unfold parse_trailers. intros H.
  repeat dmatch; try congruence; try (injection H as <-; congruence);
  try (injection H as <-; eapply merge_noesc; eauto);
  match goal with E : c_trailer C ?v = TrEscape |- _ => exfalso; exact (H5 v E) end.
Qed.

Lemma chunks_noesc fuel : forall i b e, chunks C fuel i b = Fail e -> e <> EEscape.
Proof.
  induction fuel as [|f IH]; intros i b e; cbn [chunks].
  - destruct (i_trailer i); [apply parse_trailers_noesc | intros H; injection H as <-; congruence].
  - destruct (i_trailer i); [apply parse_trailers_noesc|]. intros H.
    repeat dmatch; try congruence; try (injection H as <-; congruence);
    try (eapply parse_trailers_noesc; eauto; fail); try (eapply IH; eauto; fail).
Qed.

Lemma parse_body_noesc i b e : parse_body C i b = Fail e -> e <> EEscape.
Proof.
  unfold parse_body, body_with_length. intros H.
  repeat dmatch; try congruence; try (injection H as <-; congruence);
  try (eapply chunks_noesc; eauto; fail);
  try (injection H as <-; eapply determine_noesc; eauto; fail).
Qed.

Lemma on_headers_complete_noesc i e : on_headers_complete C k i = inr e -> e <> EEscape.
Proof.
  unfold on_headers_complete. intros H.
  repeat dmatch; try congruence; try (injection H as <-; congruence);
  match goal with E : c_hdrs C ?p ?h = HEscape |- _ => exfalso; exact (H2 p h E) end.
Qed.

Lemma on_body_complete_noesc i b e : on_body_complete cfg C k i b = inr e -> e <> EEscape.
Proof.
  unfold on_body_complete. intros H.
  repeat dmatch; try congruence; try (injection H as <-; congruence);
  try match goal with E : c_decode C ?p ?h = DcEscape |- _ => exfalso; exact (H3 p h E) end;
  repeat match goal with E : inr _ = inr _ |- _ => injection E as <- end; try congruence.
Qed.

Lemma after_headers_noesc i b e : after_headers cfg C k i b = TErr e -> e <> EEscape.
Proof.
  unfold after_headers. intros H.
  repeat dmatch; try congruence; injection H as <-;
  [eapply on_body_complete_noesc; eauto | eapply parse_body_noesc; eauto].
Qed.

Lemma parse_headers_noesc le h b e : parse_headers cfg le h b = Fail e -> e <> EEscape.
Proof. unfold parse_headers. intros H. repeat dmatch; try congruence; injection H as <-; congruence. Qed.

Lemma after_startline_noesc i b e : after_startline cfg C k i b = TErr e -> e <> EEscape.
Proof.
  unfold after_startline. intros H.
  repeat dmatch; try congruence; try (eapply after_headers_noesc; eauto; fail);
  injection H as <-; [eapply on_headers_complete_noesc; eauto | eapply parse_headers_noesc; eauto].
Qed.

Lemma turn_noesc s e : turn_of cfg C k s = TErr e -> e <> EEscape.
Proof.
  unfold turn_of, parse_startline. intros H.
  repeat dmatch; try congruence; try (eapply after_startline_noesc; eauto; fail);
  try (injection H as <-; congruence);
  repeat match goal with E : Fail _ = Fail _ |- _ => injection E as <- end; try congruence;
  match goal with E : c_start C ?l = SlEscape |- _ => exfalso; exact (H1 l E) end.
Qed.

Lemma loop_noesc fuel : forall s acc s' ms e, loop cfg C k fuel s acc = (s', ms, Some e) -> e <> EEscape.
Proof.
  induction fuel as [|f IH]; intros s acc s' ms e; cbn [loop].
  - destruct (buf s); intros H; inversion H; subst; congruence.
  - destruct (buf s) eqn:B; [intros H; inversion H|].
    destruct (turn_of cfg C k s) eqn:T.
    + intros H; inversion H.
    + apply IH.
    + intros H. inversion H; subst. eapply turn_noesc; eauto.
Qed.

Theorem parse_no_escape s data s' ms e : parse cfg C k s data = (s', ms, Some e) -> e <> EEscape.
Proof. unfold parse. apply loop_noesc. Qed.

End Esc.

(* C19: a field made of well-formed elements is returned in full.  Rendering of elements with token parameters (media-range
   parameters before the quality value, accept-ext parameters after it) and the proof that _AcceptElement.parse (model:
   accept_parse) reads every one of them back with its parameters.  Accept-ext parameters are only well formed for the
   variant of the model in which they are supported ([vx] = Repaired). *)
From Coq Require Import ZArith Sorting.Permutation.
From Httoop Require Import Model.ElemLex Model.Accept Proofs.ElemLex Proofs.SortLemmas Proofs.Accept.
Local Open Scope N_scope.
Arguments is_ws : simpl never.
Arguments inmask : simpl never.
Arguments beq : simpl never.

(* ---------- character classes of well-formed elements ---------- *)

(* parameter names, parameter values and q texts: lower-case ASCII tokens without '*' *)
Definition pch (c : byte) : bool :=
  negb (is_ws c) && negb (inmask RE_WS c) && negb (inmask TSPECIALS c) && negb (beq c STAR) && (bN c <? 128) && beq (lower1 c) c.
(* values (media ranges, charsets, codings, language tags): no white space, no ; , double quote ? *)
Definition vch (c : byte) : bool :=
  negb (is_ws c) && negb (inmask RE_WS c) && negb (beq c SEMI) && negb (beq c COMMA) && negb (beq c DQ) && negb (beq c QMARK).
Definition tokenp (l : bytes) : bool := negb (isnil l) && forallb pch l.
Definition tokenv (l : bytes) : bool := negb (isnil l) && forallb vch l.

Lemma pch_imp (t : byte -> bool) :
  forallb (fun c => implb (pch c) (t c)) all_bytes = true -> forall c, pch c = true -> t c = true.
Proof. intros H c Hc. pose proof (forall_byte _ H c) as G. cbv beta in G. rewrite Hc in G. exact G. Qed.

Lemma pch_facts c : pch c = true ->
  vch c = true /\ beq c EQC = false /\ beq c SEMI = false /\ beq c DQ = false /\ beq c QMARK = false /\ beq c COMMA = false /\
  beq c STAR = false /\ inmask TSPECIALS c = false /\ is_ws c = false /\ inmask RE_WS c = false /\ lower1 c = c /\ (bN c <? 128) = true.
Proof.
  intros H. repeat split.
  - revert c H. apply pch_imp. vm_compute. reflexivity.
  - apply negb_true_iff. revert c H. apply (pch_imp (fun c => negb (beq c EQC))). vm_compute. reflexivity.
  - apply negb_true_iff. revert c H. apply (pch_imp (fun c => negb (beq c SEMI))). vm_compute. reflexivity.
  - apply negb_true_iff. revert c H. apply (pch_imp (fun c => negb (beq c DQ))). vm_compute. reflexivity.
  - apply negb_true_iff. revert c H. apply (pch_imp (fun c => negb (beq c QMARK))). vm_compute. reflexivity.
  - apply negb_true_iff. revert c H. apply (pch_imp (fun c => negb (beq c COMMA))). vm_compute. reflexivity.
  - apply negb_true_iff. revert c H. apply (pch_imp (fun c => negb (beq c STAR))). vm_compute. reflexivity.
  - apply negb_true_iff. revert c H. apply (pch_imp (fun c => negb (inmask TSPECIALS c))). vm_compute. reflexivity.
  - apply negb_true_iff. revert c H. apply (pch_imp (fun c => negb (is_ws c))). vm_compute. reflexivity.
  - apply negb_true_iff. revert c H. apply (pch_imp (fun c => negb (inmask RE_WS c))). vm_compute. reflexivity.
  - apply beq_eq. revert c H. apply (pch_imp (fun c => beq (lower1 c) c)). vm_compute. reflexivity.
  - revert c H. apply (pch_imp (fun c => bN c <? 128)). vm_compute. reflexivity.
Qed.

Lemma pch_rws c : pch c = true -> inmask RE_WS c = false.
Proof. intros H. apply pch_facts in H. destruct H as (_ & _ & _ & _ & _ & _ & _ & _ & _ & R & _). exact R. Qed.
Lemma pch_vch c : pch c = true -> vch c = true.
Proof. intros H. apply pch_facts in H. destruct H as (R & _). exact R. Qed.
Lemma pch_lower c : pch c = true -> lower1 c = c.
Proof. intros H. apply pch_facts in H. destruct H as (_ & _ & _ & _ & _ & _ & _ & _ & _ & _ & R & _). exact R. Qed.
Lemma pch_ascii c : pch c = true -> (bN c <? 128) = true.
Proof. intros H. apply pch_facts in H. destruct H as (_ & _ & _ & _ & _ & _ & _ & _ & _ & _ & _ & R). exact R. Qed.

Lemma vch_facts c : vch c = true ->
  beq c SEMI = false /\ beq c DQ = false /\ beq c QMARK = false /\ beq c COMMA = false /\ is_ws c = false /\ inmask RE_WS c = false.
Proof.
  unfold vch. intros G. repeat (apply andb_true_iff in G as [G ?]).
  repeat split; now apply negb_true_iff.
Qed.

Lemma const_facts : vch EQC = true /\ vch LQ = true /\ pch LQ = true /\ vch STAR = true /\ vch SLASH = true /\ vch x31 = true /\ pch x31 = true.
Proof. vm_compute. repeat split; reflexivity. Qed.

(* ---------- rendering ---------- *)

Definition chunk (kv : bytes * bytes) : bytes := fst kv ++ EQC :: snd kv.
Definition render_params (ps : list (bytes * bytes)) : bytes := flat_map (fun kv => SEMI :: chunk kv) ps.
(* a listed element: value, media-range parameters, and - if it has a quality value - the q text and the accept-ext parameters *)
Definition xel : Type := bytes * list (bytes * bytes) * option (bytes * list (bytes * bytes)).
Definition render_q (qt : option (bytes * list (bytes * bytes))) : bytes :=
  match qt with Some (t, ext) => SEMI :: LQ :: EQC :: t ++ render_params ext | None => [] end.
Definition render_elem (el : xel) : bytes :=
  let '(v, ps, qt) := el in v ++ render_params ps ++ render_q qt.

Definition wf_param (kv : bytes * bytes) : bool := tokenp (fst kv) && tokenp (snd kv).
Definition no_ext (vx : variant) (ext : list (bytes * bytes)) : bool :=
  match vx, ext with AsFound, _ :: _ => false | _, _ => true end.
(* q text and accept-ext parameters (distinct names, none of them q or the name of a media-range parameter; none at all
   for the code as found) *)
Definition wf_q (vx : variant) (ps : list (bytes * bytes)) (qt : option (bytes * list (bytes * bytes))) : bool :=
  match qt with
  | Some (t, ext) => tokenp t && forallb wf_param ext && negb (has_dup_key [] ext) && negb (existsb (has_key (ps ++ [(QKEY, t)])) ext) && no_ext vx ext
  | None => true
  end.
(* value, parameters (distinct names, none of them q), quality value *)
Definition wf_elem (vx : variant) (el : xel) : bool :=
  let '(v, ps, qt) := el in
  tokenv v && forallb wf_param ps && negb (has_dup_key [] ps) && negb (is_some (get_param QKEY ps)) && wf_q vx ps qt.

Lemma wf_elem_inv vx v ps qt : wf_elem vx (v, ps, qt) = true ->
  tokenv v = true /\ forallb wf_param ps = true /\ has_dup_key [] ps = false /\ get_param QKEY ps = None /\
  match qt with
  | Some (t, ext) => tokenp t = true /\ forallb wf_param ext = true /\ has_dup_key [] ext = false /\
                     existsb (has_key (ps ++ [(QKEY, t)])) ext = false /\ no_ext vx ext = true
  | None => True
  end.
Proof.
  unfold wf_elem. destruct (tokenv v), (forallb wf_param ps), (has_dup_key [] ps), (get_param QKEY ps); cbn [andb negb is_some]; try discriminate.
  intros H. repeat split. destruct qt as [[t ext]|]; [|exact I]. unfold wf_q in H.
  destruct (tokenp t), (forallb wf_param ext), (has_dup_key [] ext), (existsb (has_key (ps ++ [(QKEY, t)])) ext), (no_ext vx ext);
    cbn in H; try discriminate. repeat split.
Qed.

(* an element that is well formed for the code as found (no accept-ext parameters) is well formed after the repair *)
Lemma wf_elem_mono vx el : wf_elem AsFound el = true -> wf_elem vx el = true.
Proof.
  destruct vx; [trivial|]. destruct el as [[v ps] [[t ext]|]]; [|trivial]. unfold wf_elem, wf_q, no_ext.
  destruct ext; [trivial|]. rewrite !andb_false_r. discriminate.
Qed.

Lemma tokenv_inv v : tokenv v = true -> isnil v = false /\ forallb vch v = true.
Proof. unfold tokenv. intros H. apply andb_true_iff in H as [H1 H2]. apply negb_true_iff in H1. split; assumption. Qed.
Lemma tokenp_inv v : tokenp v = true -> isnil v = false /\ forallb pch v = true.
Proof. unfold tokenp. intros H. apply andb_true_iff in H as [H1 H2]. apply negb_true_iff in H1. split; assumption. Qed.

(* every octet of a rendered element is a value octet *)
Lemma tokenp_vch l : forallb pch l = true -> forallb vch l = true.
Proof. apply forallb_impl. exact pch_vch. Qed.

Lemma chunk_vch kv : wf_param kv = true -> forallb vch (chunk kv) = true.
Proof.
  unfold wf_param, tokenp, chunk. intros H. apply andb_true_iff in H as [H1 H2].
  apply andb_true_iff in H1 as [_ H1]. apply andb_true_iff in H2 as [_ H2].
  rewrite forallb_app. cbn [forallb]. rewrite (tokenp_vch _ H1), (tokenp_vch _ H2). reflexivity.
Qed.

Lemma render_params_vch_semi ps : forallb wf_param ps = true ->
  forallb (fun c => vch c || beq c SEMI) (render_params ps) = true.
Proof.
  induction ps as [|kv ps IH]; cbn [render_params flat_map forallb]; [reflexivity|]. intros H.
  apply andb_true_iff in H as [H1 H2]. rewrite forallb_app. fold (render_params ps). rewrite (IH H2).
  rewrite andb_true_r. cbn [forallb]. rewrite beq_refl, orb_true_r. cbn [andb].
  eapply forallb_impl; [|apply chunk_vch, H1]. intros c Hc. rewrite Hc. reflexivity.
Qed.

(* the q text followed by the accept-ext parameters *)
Lemma q_tail_chars t ext : tokenp t = true -> forallb wf_param ext = true ->
  forallb (fun c => vch c || beq c SEMI) (t ++ render_params ext) = true.
Proof.
  intros Tq We. apply tokenp_inv in Tq as [_ Pt]. rewrite forallb_app. apply andb_true_iff. split.
  - eapply forallb_impl; [|apply tokenp_vch, Pt]. intros c Hc. rewrite Hc. reflexivity.
  - apply render_params_vch_semi, We.
Qed.

Lemma render_elem_chars vx el : wf_elem vx el = true ->
  forallb (fun c => vch c || beq c SEMI) (render_elem el) = true.
Proof.
  destruct el as [[v ps] qt]. intros H. apply wf_elem_inv in H as (Tv & W & _ & _ & Tq). unfold render_elem.
  rewrite !forallb_app. apply andb_true_iff. split; [|apply andb_true_iff; split].
  - apply tokenv_inv in Tv as [_ Pv]. eapply forallb_impl; [|exact Pv]. intros c Hc. rewrite Hc. reflexivity.
  - apply render_params_vch_semi. assumption.
  - destruct qt as [[t ext]|]; [|reflexivity]. destruct Tq as (Tq & We & _). cbn [render_q forallb]. rewrite beq_refl, orb_true_r.
    destruct const_facts as (E & L & _). rewrite E, L. cbn [orb andb]. apply q_tail_chars; assumption.
Qed.

Lemma vchsemi_plain l : forallb (fun c => vch c || beq c SEMI) l = true ->
  forallb (fun c => negb (beq c DQ) && negb (beq c COMMA)) l = true /\
  forallb (fun c => negb (beq c QMARK)) l = true /\
  forallb (fun c => negb (is_ws c)) l = true.
Proof.
  intros C.
  repeat split; (eapply forallb_impl; [|exact C]); intros c Hc; apply orb_true_iff in Hc as [Hc|Hc];
    try (apply vch_facts in Hc; destruct Hc as (A & B & C' & D & E & F); rewrite ?A, ?B, ?C', ?D, ?E, ?F; reflexivity);
    apply beq_eq in Hc; subst c; vm_compute; reflexivity.
Qed.

Lemma render_elem_plain vx el : wf_elem vx el = true ->
  forallb (fun c => negb (beq c DQ) && negb (beq c COMMA)) (render_elem el) = true /\
  forallb (fun c => negb (beq c QMARK)) (render_elem el) = true /\
  forallb (fun c => negb (is_ws c)) (render_elem el) = true.
Proof. intros H. apply vchsemi_plain, (render_elem_chars vx el H). Qed.

(* ---------- the rfc2047 guard ---------- *)

Lemma has2_no a b l : forallb (fun c => negb (beq c b)) l = true -> has2 a b l = false.
Proof.
  induction l as [|x l IH]; [reflexivity|]. intros H. cbn [forallb] in H. apply andb_true_iff in H as [H1 H2].
  cbn [has2]. destruct l as [|y l']; [reflexivity|]. rewrite (IH H2).
  cbn [forallb] in H2. apply andb_true_iff in H2 as [H2 _]. apply negb_true_iff in H2. rewrite H2, andb_false_r. reflexivity.
Qed.

Lemma guard_no_qmark l : forallb (fun c => negb (beq c QMARK)) l = true -> rfc2047_guard l = false.
Proof. intros H. unfold rfc2047_guard. rewrite (has2_no EQC QMARK l H). reflexivity. Qed.

(* ---------- the q separator ---------- *)

Lemma skip_rws_id l : match l with c :: _ => inmask RE_WS c = false | [] => True end -> skip_rws l = l.
Proof. destruct l as [|c r]; cbn [skip_rws]; [reflexivity | intros ->; reflexivity]. Qed.

Lemma qsep_split_nosemi a b :
  forallb (fun c => negb (beq c SEMI)) a = true ->
  qsep_split (a ++ b) = (a ++ fst (qsep_split b), snd (qsep_split b)).
Proof.
  induction a as [|c a IH]; intros H.
  - cbn [app]. destruct (qsep_split b); reflexivity.
  - cbn [forallb] in H. apply andb_true_iff in H as [H1 H2]. apply negb_true_iff in H1.
    cbn [app qsep_split]. rewrite H1, (IH H2). reflexivity.
Qed.

Lemma tokenp_head l : tokenp l = true -> exists c r, l = c :: r /\ pch c = true /\ forallb pch r = true.
Proof.
  unfold tokenp. destruct l as [|c r]; [discriminate|]. cbn [isnil negb andb forallb]. intros H.
  apply andb_true_iff in H as [H1 H2]. exists c, r. repeat split; assumption.
Qed.

(* a parameter whose name is not "q" is not taken for the q separator *)
Lemma qsep_match_param k rest :
  tokenp k = true -> bytes_eqb k QKEY = false -> qsep_match (k ++ EQC :: rest) = None.
Proof.
  intros Hk Nq. destruct (tokenp_head k Hk) as (c & r & -> & Pc & Pr).
  unfold qsep_match. cbn [app]. rewrite skip_rws_id by (cbn [app]; apply pch_rws, Pc).
  destruct (beq c LQ) eqn:E; [|reflexivity]. apply beq_eq in E. subst c.
  destruct r as [|d r'].
  - cbn in Nq. vm_compute in Nq. discriminate.
  - cbn [forallb] in Pr. apply andb_true_iff in Pr as [Pd _]. cbn [app].
    rewrite skip_rws_id by (cbn [app]; apply pch_rws, Pd).
    apply pch_facts in Pd. destruct Pd as (_ & -> & _). reflexivity.
Qed.

Lemma get_param_none_key k x ps : get_param QKEY ((k, x) :: ps) = None -> bytes_eqb k QKEY = false /\ get_param QKEY ps = None.
Proof. cbn [get_param]. destruct (bytes_eqb k QKEY); [discriminate | intros H; split; [reflexivity | exact H]]. Qed.

Lemma qsep_split_params ps tail :
  forallb wf_param ps = true -> get_param QKEY ps = None ->
  qsep_split (render_params ps ++ tail) = (render_params ps ++ fst (qsep_split tail), snd (qsep_split tail)).
Proof.
  induction ps as [|[k x] ps IH]; intros W G.
  - cbn [render_params flat_map app]. destruct (qsep_split tail); reflexivity.
  - cbn [forallb] in W. apply andb_true_iff in W as [W1 W2]. apply get_param_none_key in G as [Nq G].
    unfold wf_param in W1. cbn [fst snd] in W1. apply andb_true_iff in W1 as [Tk Tx].
    cbn [render_params flat_map]. fold (render_params ps). unfold chunk. cbn [fst snd].
    rewrite <- !app_assoc. cbn [app qsep_split]. rewrite beq_refl.
    replace ((k ++ EQC :: x) ++ render_params ps ++ tail) with (k ++ EQC :: (x ++ render_params ps ++ tail)) by (rewrite <- app_assoc; reflexivity).
    rewrite (qsep_match_param k _ Tk Nq).
    replace (k ++ EQC :: x ++ render_params ps ++ tail) with ((k ++ EQC :: x) ++ (render_params ps ++ tail)) by (rewrite <- app_assoc; reflexivity).
    rewrite qsep_split_nosemi.
    + rewrite (IH W2 G). cbn [fst snd]. rewrite <- !app_assoc. reflexivity.
    + rewrite forallb_app. cbn [forallb]. unfold tokenp in Tk, Tx.
      apply andb_true_iff in Tk as [_ Tk]. apply andb_true_iff in Tx as [_ Tx].
      assert (forall l, forallb pch l = true -> forallb (fun c => negb (beq c SEMI)) l = true) as Hs.
      { intros l. apply forallb_impl. intros c Hc. apply pch_facts in Hc. destruct Hc as (_ & _ & -> & _). reflexivity. }
      rewrite (Hs _ Tk), (Hs _ Tx). reflexivity.
Qed.

(* the text after the q separator: the q text and the rendered accept-ext parameters *)
Definition q_tail (qt : option (bytes * list (bytes * bytes))) : option bytes :=
  match qt with Some (t, ext) => Some (t ++ render_params ext) | None => None end.

Lemma qsep_split_q t ext : tokenp t = true -> qsep_split (render_q (Some (t, ext))) = ([], Some (t ++ render_params ext)).
Proof.
  intros Ht. destruct (tokenp_head t Ht) as (c & r & -> & Pc & _).
  cbn [render_q qsep_split]. rewrite beq_refl. unfold qsep_match.
  rewrite skip_rws_id by (vm_compute; reflexivity). rewrite beq_refl.
  rewrite skip_rws_id by (vm_compute; reflexivity). rewrite beq_refl.
  rewrite skip_rws_id by (cbn [app]; apply pch_rws, Pc). reflexivity.
Qed.

Lemma qsep_split_render vx v ps qt :
  wf_elem vx (v, ps, qt) = true ->
  qsep_split (render_elem (v, ps, qt)) = (v ++ render_params ps, q_tail qt).
Proof.
  intros H. apply wf_elem_inv in H as (Tv & W & _ & G & Tq). unfold render_elem.
  rewrite qsep_split_nosemi.
  2:{ apply tokenv_inv in Tv as [_ Pv]. eapply forallb_impl; [|exact Pv].
      intros c Hc. apply vch_facts in Hc. destruct Hc as (-> & _). reflexivity. }
  rewrite (qsep_split_params ps _ W G).
  destruct qt as [[t ext]|].
  - destruct Tq as (Tq & _). rewrite (qsep_split_q t ext Tq). cbn [fst snd q_tail]. rewrite app_nil_r. reflexivity.
  - cbn [render_q qsep_split fst snd q_tail]. rewrite app_nil_r. reflexivity.
Qed.

(* ---------- parseparams ---------- *)

Lemma flat_chunks_noquote (cs : list bytes) :
  Forall (fun x => forallb (fun c => negb (beq c DQ) && negb (beq c SEMI)) x = true) cs ->
  forallb (fun c => negb (beq c DQ)) (flat_map (cons SEMI) cs) = true.
Proof.
  induction 1 as [|x xs Hx F IH]; [reflexivity|]. cbn [flat_map app forallb].
  rewrite forallb_app, (forallb_weaken_dq SEMI x Hx), IH. reflexivity.
Qed.

Lemma qsplit_semi_chunks a (cs : list bytes) :
  forallb (fun c => negb (beq c DQ) && negb (beq c SEMI)) a = true ->
  Forall (fun x => forallb (fun c => negb (beq c DQ) && negb (beq c SEMI)) x = true) cs ->
  qsplit SEMI (a ++ flat_map (cons SEMI) cs) = a :: cs.
Proof.
  intros Ha F. revert a Ha. induction F as [|c cs Hc F IH]; intros a Ha.
  - cbn [flat_map]. rewrite app_nil_r. apply qsplit_plain, Ha.
  - cbn [flat_map]. cbn [app]. rewrite qsplit_app_sep; [| reflexivity | exact Ha |].
    + rewrite (IH c Hc). reflexivity.
    + rewrite forallb_app, (forallb_weaken_dq SEMI c Hc), (flat_chunks_noquote cs F). reflexivity.
Qed.

Lemma render_params_flat ps : render_params ps = flat_map (cons SEMI) (map chunk ps).
Proof. unfold render_params. induction ps as [|kv ps IH]; cbn [flat_map map]; [reflexivity|]. rewrite IH. reflexivity. Qed.

Lemma vch_list_plain l : forallb vch l = true ->
  forallb (fun c => negb (beq c DQ) && negb (beq c SEMI)) l = true /\ forallb (fun c => negb (is_ws c)) l = true.
Proof.
  intros H. split; (eapply forallb_impl; [|exact H]); intros c Hc; apply vch_facts in Hc;
    destruct Hc as (A & B & _ & _ & E & _); rewrite ?A, ?B, ?E; reflexivity.
Qed.

Lemma parseparam_chunk k x : tokenp k = true -> tokenp x = true -> parseparam (chunk (k, x)) = Some (k, x).
Proof.
  intros Tk Tx. unfold parseparam, chunk. cbn [fst snd].
  assert (forallb pch k = true) as Pk by (apply tokenp_inv in Tk; destruct Tk as [_ R]; exact R).
  assert (forallb pch x = true) as Px by (apply tokenp_inv in Tx; destruct Tx as [_ R]; exact R).
  rewrite partition3_app.
  2:{ eapply forallb_impl; [|exact Pk]. intros c Hc. apply pch_facts in Hc. destruct Hc as (_ & -> & _). reflexivity. }
  rewrite (strip_id_forall x), (strip_id_forall k).
  2,3: (eapply forallb_impl; [|eassumption]); intros c Hc; apply pch_facts in Hc; destruct Hc as (_ & _ & _ & _ & _ & _ & _ & _ & -> & _); reflexivity.
  unfold unescape_param.
  destruct (tokenp_head x Tx) as (c & r & -> & Pc & Pr). cbn [startswith_dq].
  pose proof (pch_facts c Pc) as (_ & _ & _ & Dq & _). rewrite Dq. cbn [andb].
  replace (existsb (inmask TSPECIALS) (c :: r)) with false.
  2:{ symmetry. apply existsb_false_forall. eapply forallb_impl; [|exact Px]. intros d Hd. apply pch_facts in Hd.
      destruct Hd as (_ & _ & _ & _ & _ & _ & _ & -> & _). reflexivity. }
  f_equal. f_equal. unfold lower. rewrite <- (map_id k) at 2. apply map_ext_in. intros d Hd.
  rewrite forallb_forall in Pk. apply pch_lower, Pk, Hd.
Qed.

Lemma parseparams_render v ps :
  tokenv v = true -> forallb wf_param ps = true -> has_dup_key [] ps = false ->
  parseparams (v ++ render_params ps) = POk v ps.
Proof.
  intros Tv W Nd. unfold parseparams.
  assert (forallb vch v = true) as Pv by (apply tokenv_inv in Tv; destruct Tv as [_ R]; exact R).
  assert (isnil v = false) as Nv by (unfold tokenv in Tv; apply andb_true_iff in Tv as [Tv _]; now apply negb_true_iff).
  rewrite render_params_flat, qsplit_semi_chunks.
  2:{ apply vch_list_plain, Pv. }
  2:{ apply Forall_forall. intros c Hc. apply in_map_iff in Hc as [kv [<- Hkv]].
      rewrite forallb_forall in W. apply vch_list_plain, chunk_vch, W, Hkv. }
  cbn [map]. rewrite (strip_id_forall v) by (apply vch_list_plain, Pv). cbn [filter]. rewrite Nv. cbn [negb].
  assert (filter (fun x => negb (isnil x)) (map strip (map chunk ps)) = map chunk ps) as ->.
  { clear Nd. induction ps as [|kv ps IH]; [reflexivity|]. cbn [forallb] in W. apply andb_true_iff in W as [W1 W2].
    cbn [map filter]. rewrite (strip_id_forall (chunk kv)) by (apply vch_list_plain, chunk_vch, W1).
    assert (isnil (chunk kv) = false) as ->.
    { unfold chunk. destruct (fst kv); reflexivity. }
    cbn [negb]. rewrite (IH W2). reflexivity. }
  assert (existsb (fun a => let '(k, _, _) := partition3 EQC a in existsb (beq STAR) k) (map chunk ps) = false) as ->.
  { apply existsb_false_forall. apply forallb_forall. intros a Ha. apply in_map_iff in Ha as [[k x] [<- Hkv]].
    rewrite forallb_forall in W. specialize (W _ Hkv). unfold wf_param in W. cbn [fst snd] in W.
    apply andb_true_iff in W as [Tk _]. unfold tokenp in Tk. apply andb_true_iff in Tk as [_ Pk].
    unfold chunk. cbn [fst snd]. rewrite partition3_app.
    2:{ eapply forallb_impl; [|exact Pk]. intros c Hc. apply pch_facts in Hc. destruct Hc as (_ & -> & _). reflexivity. }
    apply negb_true_iff. apply existsb_false_forall. eapply forallb_impl; [|exact Pk].
    intros c Hc. cbv beta. rewrite beq_sym. apply pch_facts in Hc. destruct Hc as (_ & _ & _ & _ & _ & _ & -> & _). reflexivity. }
  assert (all_some_p (map parseparam (map chunk ps)) = Some ps) as ->.
  { clear Nd. induction ps as [|[k x] ps IH]; [reflexivity|]. cbn [forallb] in W. apply andb_true_iff in W as [W1 W2].
    unfold wf_param in W1. cbn [fst snd] in W1. apply andb_true_iff in W1 as [Tk Tx].
    cbn [map all_some_p]. rewrite (parseparam_chunk k x Tk Tx), (IH W2). reflexivity. }
  rewrite Nd. reflexivity.
Qed.

Lemma tokenp_tokenv t : tokenp t = true -> tokenv t = true.
Proof. intros Ht. unfold tokenp in Ht. unfold tokenv. apply andb_true_iff in Ht as [-> P]. rewrite (tokenp_vch t P). reflexivity. Qed.

Lemma parseparams_token t : tokenp t = true -> parseparams t = POk t [].
Proof.
  intros Ht. pose proof (parseparams_render t [] (tokenp_tokenv t Ht) eq_refl eq_refl) as H.
  cbn [render_params flat_map] in H. rewrite app_nil_r in H. exact H.
Qed.

(* HeaderElement.parse of the text after the q separator: the q text and the accept-ext parameters *)
Lemma parse_qpart_render vx t ext :
  tokenp t = true -> forallb wf_param ext = true -> has_dup_key [] ext = false -> no_ext vx ext = true ->
  parse_qpart vx (Some (t ++ render_params ext)) = QText t ext.
Proof.
  intros Tq We Nd Nx. unfold parse_qpart.
  destruct (vchsemi_plain _ (q_tail_chars t ext Tq We)) as (_ & NQ & NW).
  rewrite (strip_id_forall _ NW), (guard_no_qmark _ NQ), (parseparams_render t ext (tokenp_tokenv t Tq) We Nd).
  destruct ext as [|x r]; [reflexivity|]. destruct vx; [discriminate | reflexivity].
Qed.

(* ---------- set_param / get_param / compose ---------- *)

Lemma set_param_absent k v ps : get_param k ps = None -> set_param k v ps = ps ++ [(k, v)].
Proof.
  induction ps as [|[k' v'] ps IH]; cbn [get_param set_param app]; [reflexivity|].
  destruct (bytes_eqb k' k); [discriminate|]. intros H. rewrite (IH H). reflexivity.
Qed.

Lemma formatparam_token k b x : tokenp x = true -> formatparam k b x = k ++ [EQC] ++ x.
Proof.
  intros Tx. unfold formatparam. destruct (tokenp_head x Tx) as (c & r & -> & Pc & Pr). cbn [isnil].
  assert (forallb pch (c :: r) = true) as Px by (cbn [forallb]; rewrite Pc, Pr; reflexivity).
  replace (is_ascii (c :: r)) with true.
  2:{ symmetry. unfold is_ascii. eapply forallb_impl; [|exact Px]. exact pch_ascii. }
  rewrite andb_false_r.
  replace (existsb (inmask TSPECIALS) (c :: r)) with false; [reflexivity|].
  symmetry. apply existsb_false_forall. eapply forallb_impl; [|exact Px]. intros d Hd. apply pch_facts in Hd.
  destruct Hd as (_ & _ & _ & _ & _ & _ & _ & -> & _). reflexivity.
Qed.

Lemma compose_no_qmark value qb ps :
  forallb (fun c => negb (beq c QMARK)) value = true -> forallb wf_param ps = true ->
  forallb (fun c => negb (beq c QMARK)) (compose value qb ps) = true.
Proof.
  intros Hv W. unfold compose. rewrite forallb_app, Hv. cbn [andb].
  induction ps as [|[k x] ps IH]; [reflexivity|]. cbn [forallb] in W. apply andb_true_iff in W as [W1 W2].
  unfold wf_param in W1. cbn [fst snd] in W1. apply andb_true_iff in W1 as [Tk Tx].
  cbn [flat_map fst snd]. rewrite !forallb_app, (IH W2), (formatparam_token k _ x Tx).
  assert (forall l, tokenp l = true -> forallb (fun c => negb (beq c QMARK)) l = true) as Hq.
  { intros l Hl. unfold tokenp in Hl. apply andb_true_iff in Hl as [_ Hl]. eapply forallb_impl; [|exact Hl].
    intros c Hc. apply pch_facts in Hc. destruct Hc as (_ & _ & _ & _ & -> & _). reflexivity. }
  rewrite !forallb_app, (Hq k Tk), (Hq x Tx). reflexivity.
Qed.

(* ---------- one element ---------- *)

Section Quality.
Context {Q : Type}.
Variable parse_q : bool -> bytes -> qres Q.
Variable qeqb qltb : Q -> Q -> bool.
Variable vq vx : variant.

Definition star_value (star : bool) (v : bytes) : bytes := if star && bytes_eqb v [STAR] then [STAR; SLASH; STAR] else v.

(* the element a well-formed description denotes, given the value [q] of its q text (or of "1"):
   the media-range parameters, then q, then the accept-ext parameters *)
Definition expected (star : bool) (el : xel) (q : Q) : @elem Q :=
  let '(v, ps, qt) := el in
  let value := star_value star v in
  let '(qb, ps') := match qt with Some (t, ext) => (true, ps ++ (QKEY, t) :: ext) | None => (false, ps) end in
  mkelem value ps' qb (Some q) (compose value qb ps').

Definition q_of (el : xel) : bool * bytes :=
  match snd el with Some (t, _) => (true, t) | None => (false, ONE) end.

Theorem accept_parse_render star el q :
  wf_elem vx el = true -> parse_q (fst (q_of el)) (snd (q_of el)) = QVal q ->
  accept_parse parse_q vq vx star (render_elem el) = EOk (expected star el q).
Proof.
  destruct el as [[v ps] qt]. intros W PQ.
  destruct (wf_elem_inv _ _ _ _ W) as (Tv & Wp & Nd & G & Tq).
  destruct (render_elem_plain _ _ W) as (_ & NQ & _).
  unfold accept_parse. rewrite (guard_no_qmark _ NQ), (qsep_split_render vx v ps qt W).
  assert (strip (v ++ render_params ps) = v ++ render_params ps) as ->.
  { assert (wf_elem vx (v, ps, None) = true) as W0.
    { unfold wf_elem. rewrite Tv, Wp, Nd, G. reflexivity. }
    destruct (render_elem_plain _ _ W0) as (_ & _ & NW). unfold render_elem in NW. cbn [render_q] in NW. rewrite app_nil_r in NW.
    apply strip_id_forall, NW. }
  rewrite (parseparams_render v ps Tv Wp Nd).
  destruct qt as [[t ext]|]; cbn [q_of fst snd] in PQ; cbn [q_tail].
  - destruct Tq as (Tq & We & Nde & Nk & Nx).
    rewrite (parse_qpart_render vx t ext Tq We Nde Nx). cbv zeta beta iota.
    rewrite (set_param_absent QKEY t ps G), Nk.
    assert (get_param QKEY ((ps ++ [(QKEY, t)]) ++ ext) = Some t) as ->.
    { apply get_param_app_some. rewrite <- (set_param_absent QKEY t ps G). apply get_set_param. }
    destruct (tokenp_inv t Tq) as [Nt _]. rewrite Nt, PQ.
    replace (match vq with AsFound => false | Repaired => false end) with false by (destruct vq; reflexivity).
    unfold expected. rewrite <- app_assoc. reflexivity.
  - cbn [parse_qpart]. cbv zeta beta iota. cbn [existsb]. rewrite app_nil_r, G. cbn [isnil ONE]. rewrite PQ.
    replace (match vq with AsFound => false | Repaired => false end) with false by (destruct vq; reflexivity).
    reflexivity.
Qed.

(* ---------- the whole field ---------- *)

Definition render_field (els : list xel) : bytes :=
  join_with CSP (map render_elem els).

Lemma expected_text_no_qmark star el q : wf_elem vx el = true -> rfc2047_guard (e_text (expected star el q)) = false.
Proof.
  destruct el as [[v ps] qt]. intros W. apply wf_elem_inv in W as (Tv & Wp & _ & _ & Tq).
  apply guard_no_qmark. unfold expected.
  assert (forallb (fun c => negb (beq c QMARK)) (star_value star v) = true) as Hv.
  { unfold star_value. destruct (star && bytes_eqb v [STAR]); [vm_compute; reflexivity|].
    apply tokenv_inv in Tv as [_ Pv]. eapply forallb_impl; [|exact Pv].
    intros c Hc. apply vch_facts in Hc. destruct Hc as (_ & _ & -> & _). reflexivity. }
  destruct qt as [[t ext]|]; cbn [e_text]; apply compose_no_qmark; try assumption.
  destruct Tq as (Tq & We & _).
  rewrite forallb_app, Wp. cbn [forallb]. unfold wf_param at 1. cbn [fst snd]. rewrite Tq, We.
  replace (tokenp QKEY) with true by (vm_compute; reflexivity). reflexivity.
Qed.

Theorem elements_render star els es0 :
  els <> [] -> forallb (wf_elem vx) els = true ->
  Forall2 (fun el e => exists q, parse_q (fst (q_of el)) (snd (q_of el)) = QVal q /\ e = expected star el q) els es0 ->
  elements parse_q qeqb qltb vq vx star (render_field els) = FOk (sorted_rev (lt_elem qeqb qltb) es0).
Proof.
  intros Ne W F. unfold elements, render_field.
  destruct els as [|el els]; [contradiction|]. cbn [map].
  assert (Forall (fun x => forallb (fun c => negb (beq c DQ) && negb (beq c COMMA)) x = true) (render_elem el :: map render_elem els)) as Pl.
  { apply Forall_forall. intros x Hx. change (render_elem el :: map render_elem els) with (map render_elem (el :: els)) in Hx.
    apply in_map_iff in Hx as [e [<- He]]. rewrite forallb_forall in W. apply (render_elem_plain vx), W, He. }
  assert (isnil (join_with CSP (render_elem el :: map render_elem els)) = false) as ->.
  { cbn [forallb] in W. apply andb_true_iff in W as [W1 _]. destruct el as [[v ps] qt].
    apply wf_elem_inv in W1 as (Tv & _). apply tokenv_inv in Tv as [Nv _].
    destruct v as [|c v]; [discriminate|]. destruct (map render_elem els); reflexivity. }
  rewrite (qsplit_join _ _ Pl). cbn [map].
  assert (collect (accept_parse parse_q vq vx star (strip (render_elem el)) ::
            map (fun p => accept_parse parse_q vq vx star (strip p)) (map (cons SP) (map render_elem els))) = Some (Some es0)) as ->.
  { clear Ne Pl. change (collect (map (fun p => accept_parse parse_q vq vx star (strip p)) (render_elem el :: map (cons SP) (map render_elem els))) = Some (Some es0)).
    assert (forall x, wf_elem vx x = true -> strip (render_elem x) = render_elem x /\ strip (SP :: render_elem x) = render_elem x) as St.
    { intros x Hx. destruct (render_elem_plain vx x Hx) as (_ & _ & NW). split; [apply strip_id_forall, NW|].
      unfold strip. change (SP :: render_elem x) with ([SP] ++ render_elem x). rewrite lstrip_ws_app by (vm_compute; reflexivity).
      apply strip_id_forall, NW. }
    inversion F as [|? e0 ? es1 [q [PQ ->]] F']; subst. cbn [forallb] in W. apply andb_true_iff in W as [W1 W2].
    cbn [map collect]. rewrite (proj1 (St el W1)), (accept_parse_render star el q W1 PQ).
    assert (collect (map (fun p => accept_parse parse_q vq vx star (strip p)) (map (cons SP) (map render_elem els))) = Some (Some es1)) as ->; [|reflexivity].
    clear -F' W2 St. induction F' as [|x e l es [q [PQ ->]] F IH]; [reflexivity|].
    cbn [forallb] in W2. apply andb_true_iff in W2 as [Wx Wl].
    cbn [map collect]. rewrite (proj2 (St x Wx)), (accept_parse_render star x q Wx PQ), (IH Wl). reflexivity. }
  assert (existsb (fun e => rfc2047_guard (e_text e)) es0 = false) as ->.
  { apply existsb_false_forall. clear -F W. revert W. induction F as [|x e l es [q [_ ->]] F IH]; intros W; [reflexivity|].
    cbn [forallb] in W. apply andb_true_iff in W as [Wx Wl]. cbn [forallb]. rewrite (expected_text_no_qmark star x q Wx), (IH Wl). reflexivity. }
  assert (existsb (fun e => negb (is_some (e_quality e))) es0 = false) as ->.
  { apply existsb_false_forall. clear -F. induction F as [|x e l es [q [_ ->]] F IH]; [reflexivity|].
    cbn [forallb]. rewrite IH. destruct x as [[v ps] [[t ext]|]]; reflexivity. }
  rewrite andb_false_r. reflexivity.
Qed.

End Quality.

(* C07 on the parser model: delivered framing headers match the delivered body; trailers only
   bring announced fields.  Invariants of every state reachable by any sequence of parse() calls,
   for all callees. *)
From Coq Require Import ZArith.
From Httoop Require Import Model.Parser Proofs.SplitP Proofs.HeadersP Proofs.ParserEsc.
Local Open Scope N_scope.

(* T1 obligation: the working tree overwrites Content-Length when chunked framing decided the body *)
Lemma cl_variant_repaired : CL_VARIANT = Repaired.
Proof. reflexivity. Qed.

Lemma K_TE_neq_CL : K_TE <> K_CL. Proof. vm_compute. discriminate. Qed.
Lemma K_CE_neq_CL : K_CE <> K_CL. Proof. vm_compute. discriminate. Qed.
Lemma K_CE_neq_TE : K_CE <> K_TE. Proof. vm_compute. discriminate. Qed.

Section Framing.
Variable cfg : config.
Variable C : callees.
Variable k : kind.

(* the library's own numeric reading of a Content-Length value *)
Definition cl_value (v : bytes) : option N :=
  match hgetitem C v with
  | GText _ _ (Some z) => if (z <? 0)%Z then None else Some (Z.to_N z)
  | _ => None
  end.
Definition clr (h : hdrs) : option N :=
  match hget K_CL h with None => Some 0 | Some v => cl_value v end.
Definition te_absent_or_10 (i : inflight) : Prop := hget K_TE (i_hdrs i) = None \/ p11 (i_info i) = false.

Definition blen (l : bytes) : N := N.of_nat (length l).

(* what a delivered message must satisfy (D5 = the HTTP/1.0 exception for Transfer-Encoding) *)
Definition framing_ok (m : msg) : Prop :=
  hmem K_CE (m_hdrs m) = false ->
  (exists v, hget K_CL (m_hdrs m) = Some v /\ (v = dec_of_N (blen (m_body m)) \/ cl_value v = Some (blen (m_body m)))) /\
  (hmem K_TE (m_hdrs m) = false \/ exists info, c_start C (m_line m) = SlOk info /\ p11 info = false).

Definition J (i : inflight) : Prop :=
  c_start C (i_line i) = SlOk (i_info i) /\
  (forall ce, i_ce i = Some ce -> hmem K_CE (i_hdrs i) = true) /\
  match i_phase i with
  | PHeaders => i_body i = [] /\ i_len i = None /\ i_chunked i = false /\ i_ce i = None
  | PBody => i_chunked i = false -> exists r, i_len i = Some r /\ clr (i_hdrs i) = Some (blen (i_body i) + r) /\ te_absent_or_10 i
  end.
Definition Jst (s : pstate) : Prop := match cur s with Some i => J i | None => True end.

(* ---- determine_message_length ---- *)
Lemma determine_spec i i' : i_chunked i = false -> determine C i = inl i' ->
  i_line i' = i_line i /\ i_info i' = i_info i /\ i_phase i' = i_phase i /\ i_hdrs i' = i_hdrs i /\
  i_ce i' = i_ce i /\ i_body i' = i_body i /\ i_trailer i' = i_trailer i /\ i_le i' = i_le i /\
  (i_chunked i' = true \/
   (i_chunked i' = false /\ te_absent_or_10 i /\ exists n, i_len i' = Some n /\ clr (i_hdrs i) = Some n)).
Proof.
  intros Hc. unfold determine, clr, cl_value, te_absent_or_10. intros H.
  destruct (hget K_TE (i_hdrs i)) as [te|] eqn:TE; [destruct (p11 (i_info i)) eqn:P|].
  - destruct (hgetitem C te) as [t c l| | |]; try discriminate. destruct c; [|discriminate].
    injection H as <-. cbn. repeat split; auto.
  - destruct (hget K_CL (i_hdrs i)) as [v|] eqn:CL.
    + destruct (hgetitem C v) as [t c [z|]| | |]; try discriminate.
      destruct (z <? 0)%Z eqn:Z0; [discriminate|]. injection H as <-. cbn. repeat split; auto.
      right. repeat split; auto. eexists; split; [reflexivity|]. reflexivity.
    + injection H as <-. cbn. repeat split; auto. right. repeat split; auto. eexists; split; reflexivity.
  - destruct (hget K_CL (i_hdrs i)) as [v|] eqn:CL.
    + destruct (hgetitem C v) as [t c [z|]| | |]; try discriminate.
      destruct (z <? 0)%Z eqn:Z0; [discriminate|]. injection H as <-. cbn. repeat split; auto.
      right. repeat split; auto. eexists; split; [reflexivity|]. reflexivity.
    + injection H as <-. cbn. repeat split; auto. right. repeat split; auto. eexists; split; reflexivity.
Qed.

(* ---- Content-Length body ---- *)
Lemma body_with_length_spec i len b : 0 < len ->
  match body_with_length i len b with
  | Need i' _ => i_body i' = i_body i ++ firstn (N.to_nat (N.min len (blen b))) b /\ (exists r, i_len i' = Some r /\ 0 < r /\ blen (i_body i') + r = blen (i_body i) + len)
  | Done i' _ => i_body i' = i_body i ++ firstn (N.to_nat (N.min len (blen b))) b /\ i_len i' = Some 0 /\ blen (i_body i') = blen (i_body i) + len
  | Fail _ => False
  end /\
  (forall i' b', body_with_length i len b = Need i' b' \/ body_with_length i len b = Done i' b' ->
     i_line i' = i_line i /\ i_info i' = i_info i /\ i_phase i' = i_phase i /\ i_hdrs i' = i_hdrs i /\
     i_ce i' = i_ce i /\ i_chunked i' = i_chunked i).
Proof.
  intros Hl. unfold body_with_length, blen.
  set (n := N.to_nat (N.min len (N.of_nat (length b)))).
  assert (Hn : length (firstn n b) = n) by (rewrite firstn_length; lia).
  destruct (N.of_nat (length (firstn n b)) <? len) eqn:E.
  - apply N.ltb_lt in E. split.
    + split; [reflexivity|]. eexists; split; [reflexivity|]. cbn. rewrite app_length. lia.
    + intros i' b' [H|H]; [|discriminate]. injection H as <- _. repeat split; reflexivity.
  - apply N.ltb_ge in E. split.
    + cbn. split; [reflexivity|]. split; [f_equal; lia | rewrite app_length; lia].
    + intros i' b' [H|H]; [discriminate|]. injection H as <- _. repeat split; reflexivity.
Qed.

(* ---- trailers only add fields; only under announced names ---- *)
Lemma happend_keys h n v h' : happend C h n v = inl h' ->
  forall key, hmem key h' = true -> hmem key h = true \/ key = canon n.
Proof.
  unfold happend. intros H key Hk.
  assert (G : forall x, hmem key (hset (canon n) x h) = true -> hmem key h = true \/ key = canon n).
  { intros x Hx. destruct (bytes_eqb key (canon n)) eqn:E; [apply bytes_eqb_eq in E; auto|].
    left. unfold hmem in *. rewrite hget_hset_other in Hx; [exact Hx|].
    intros ->. rewrite bytes_eqb_refl in E. discriminate. }
  repeat dmatch; try discriminate; injection H as <-; eapply G; eauto.
Qed.

Lemma happend_mono h n v h' : happend C h n v = inl h' -> forall key, hmem key h = true -> hmem key h' = true.
Proof.
  unfold happend. intros H key Hk. repeat dmatch; try discriminate; injection H as <-; apply hmem_hset; exact Hk.
Qed.

Lemma merge_keys ns : forall h tr h' tr', merge_trailers C ns h tr = inl (h', tr') ->
  (forall key, hmem key h' = true -> hmem key h = true \/ In key (map canon ns)) /\
  (forall key, hmem key h = true -> hmem key h' = true).
Proof.
  induction ns as [|n ns IH]; intros h tr h' tr'; cbn [merge_trailers map].
  - intros H. injection H as <- <-. split; auto.
  - destruct (hget n tr) as [v|].
    + destruct (happend C h n v) as [h1|] eqn:E; [|discriminate]. intros H. apply IH in H as [A B]. split.
      * intros key Hk. apply A in Hk as [Hk|Hk]; [|right; right; exact Hk].
        destruct (happend_keys _ _ _ _ E key Hk) as [G|G]; [left; exact G | right; left; symmetry; exact G].
      * intros key Hk. apply B. eapply happend_mono; eauto.
    + intros H. apply IH in H as [A B]. split; [|exact B].
      intros key Hk. apply A in Hk as [Hk|Hk]; [left; exact Hk | right; right; exact Hk].
Qed.

Lemma happend_other h n v h' key : happend C h n v = inl h' -> key <> canon n -> hget key h' = hget key h.
Proof.
  unfold happend. intros H Hn. repeat dmatch; try discriminate; injection H as <-; apply hget_hset_other; exact Hn.
Qed.

(* fields whose name is not announced keep exactly the value of the header section *)
Lemma merge_other ns : forall h tr h' tr' key, merge_trailers C ns h tr = inl (h', tr') ->
  ~ In key (map canon ns) -> hget key h' = hget key h.
Proof.
  induction ns as [|n ns IH]; intros h tr h' tr' key; cbn [merge_trailers map].
  - intros H _. injection H as <- _. reflexivity.
  - intros H Hn. destruct (hget n tr) as [v|].
    + destruct (happend C h n v) as [h1|] eqn:E; [|discriminate].
      rewrite (IH _ _ _ _ key H) by (intros X; apply Hn; right; exact X).
      eapply happend_other; eauto. intros X. apply Hn. left. symmetry. exact X.
    + apply (IH _ _ _ _ key H). intros X. apply Hn. right. exact X.
Qed.

(* a completed trailer section: every new field name is one the Trailer callee announced, and nothing
   of the trailer section is left over (otherwise 400) *)
Theorem parse_trailers_done_spec i b i' b' : parse_trailers C i b = Done i' b' ->
  i' = i \/
  (exists ns v, hget K_TRAILER (i_hdrs i) = Some v /\ (c_trailer C v = TrOk ns \/ ns = []) /\
     (forall key, hmem key (i_hdrs i') = true -> hmem key (i_hdrs i) = true \/ In key (map canon ns)) /\
     (forall key, hmem key (i_hdrs i) = true -> hmem key (i_hdrs i') = true) /\
     (forall key, ~ In key (map canon ns) -> hget key (i_hdrs i') = hget key (i_hdrs i)) /\
     i' = set_hdrs i (i_hdrs i')) \/
  (hget K_TRAILER (i_hdrs i) = None /\ i' = set_hdrs i (i_hdrs i') /\ i_hdrs i' = i_hdrs i).
Proof.
  unfold parse_trailers. intros H.
  destruct (prefixb (le_bytes (i_le i)) b); [injection H as <- _; left; reflexivity|].
  destruct (cut _ b) as [[block rest]|]; [|discriminate].
  destruct (hparse [] block) as [tr|]; [|discriminate].
  destruct (hget K_TRAILER (i_hdrs i)) as [v|] eqn:TV.
  - right; left.
    destruct (nonempty_b v) eqn:NE.
    + destruct (c_trailer C v) as [ns| | |] eqn:CT; try discriminate.
      destruct (merge_trailers C ns (i_hdrs i) tr) as [[h' [|x tr']]|e] eqn:M; try discriminate.
      injection H as <- _. pose proof (fun key => merge_other _ _ _ _ _ key M) as O. apply merge_keys in M as [A B].
      exists ns, v. repeat split; auto.
    + destruct (merge_trailers C [] (i_hdrs i) tr) as [[h' [|x tr']]|e] eqn:M; try discriminate.
      injection H as <- _. pose proof (fun key => merge_other _ _ _ _ _ key M) as O. apply merge_keys in M as [A B].
      exists [], v. repeat split; auto.
  - right; right.
    destruct (merge_trailers C [] (i_hdrs i) tr) as [[h' [|x tr']]|e] eqn:M; try discriminate.
    injection H as <- _. cbn [merge_trailers] in M. injection M as <- _. repeat split; reflexivity.
Qed.

Theorem parse_trailers_untold_is_400 i b block rest tr ns h' x tr' :
  prefixb (le_bytes (i_le i)) b = false ->
  cut (le_bytes (i_le i) ++ le_bytes (i_le i)) b = Some (block, rest) -> hparse [] block = Some tr ->
  (match hget K_TRAILER (i_hdrs i) with None => TrOk [] | Some v => if nonempty_b v then c_trailer C v else TrOk [] end) = TrOk ns ->
  merge_trailers C ns (i_hdrs i) tr = inl (h', x :: tr') ->
  parse_trailers C i b = Fail (EHttp 400).
Proof.
  intros P Cu Hp Hn M. unfold parse_trailers. rewrite P, Cu, Hp, Hn, M. reflexivity.
Qed.

(* ---- fields the body phase never touches ---- *)
Definition same_meta (i i' : inflight) : Prop :=
  i_line i' = i_line i /\ i_info i' = i_info i /\ i_phase i' = i_phase i /\ i_ce i' = i_ce i /\
  i_chunked i' = i_chunked i /\ (forall key, hmem key (i_hdrs i) = true -> hmem key (i_hdrs i') = true).

Lemma same_meta_refl i : same_meta i i.
Proof. repeat split; auto. Qed.

Lemma same_meta_trans a b c : same_meta a b -> same_meta b c -> same_meta a c.
Proof.
  intros (A1 & A2 & A3 & A4 & A5 & A6) (B1 & B2 & B3 & B4 & B5 & B6).
  repeat split; try congruence. intros key Hk. apply B6, A6, Hk.
Qed.

Lemma parse_trailers_meta i b i' b' :
  parse_trailers C i b = Need i' b' \/ parse_trailers C i b = Done i' b' -> same_meta i i'.
Proof.
  intros [H|H].
  - unfold parse_trailers in H. repeat dmatch; try discriminate. injection H as <- _. apply same_meta_refl.
  - destruct (parse_trailers_done_spec _ _ _ _ H) as [-> | [(ns & v & _ & _ & _ & Hm & _ & Ei) | (_ & Ei & E)]].
    + apply same_meta_refl.
    + rewrite Ei. repeat split; cbn; auto.
    + rewrite Ei. repeat split; cbn; auto. intros key Hk. rewrite E. exact Hk.
Qed.

Lemma chunks_meta fuel : forall i b i' b',
  chunks C fuel i b = Need i' b' \/ chunks C fuel i b = Done i' b' -> same_meta i i'.
Proof.
  induction fuel as [|f IH]; intros i b i' b'; cbn [chunks].
  - destruct (i_trailer i); [apply parse_trailers_meta | intros [H|H]; discriminate].
  - destruct (i_trailer i); [apply parse_trailers_meta|].
    destruct (cut (le_bytes (i_le i)) b) as [[line rest]|]; [|intros [H|H]; [injection H as <- _; apply same_meta_refl | discriminate]].
    destruct (py_int16_bytes _) as [z|]; [|intros [H|H]; discriminate].
    destruct (z <? 0)%Z; [intros [H|H]; discriminate|].
    destruct (N.of_nat (length rest) <? _); [intros [H|H]; [injection H as <- _; apply same_meta_refl | discriminate]|].
    set (i1 := set_body i _).
    assert (M1 : same_meta i i1) by (repeat split; auto).
    destruct (Z.to_N z =? 0).
    + intros H. eapply same_meta_trans; [exact M1|].
      eapply same_meta_trans; [|eapply parse_trailers_meta; exact H]. repeat split; auto.
    + destruct (prefixb _ _); [|intros [H|H]; discriminate].
      intros H. eapply same_meta_trans; [exact M1 | eapply IH; exact H].
Qed.

(* ---- on_body_complete establishes framing_ok ---- *)
Lemma hmem_other_set key k2 v h : key <> k2 -> hmem key (hset k2 v h) = hmem key h.
Proof. intros Hn. unfold hmem. rewrite hget_hset_other by exact Hn. reflexivity. Qed.
Lemma hmem_other_del key k2 h : key <> k2 -> hmem key (hdel k2 h) = hmem key h.
Proof. intros Hn. unfold hmem. rewrite hget_hdel_other by exact Hn. reflexivity. Qed.

Definition complete_ok (i : inflight) : Prop :=
  c_start C (i_line i) = SlOk (i_info i) /\
  (forall ce, i_ce i = Some ce -> hmem K_CE (i_hdrs i) = true) /\
  (i_chunked i = false -> clr (i_hdrs i) = Some (blen (i_body i)) /\ te_absent_or_10 i).

Lemma on_body_complete_framing i b m : complete_ok i -> on_body_complete cfg C k i b = inl m -> framing_ok m.
Proof.
  intros (J1 & J2 & J3). unfold on_body_complete. rewrite cl_variant_repaired.
  destruct (match k with Server => _ | Client => false end); [discriminate|].
  intros H.
  set (dec := match i_ce i with Some ce => _ | None => inl (i_body i) end) in H.
  destruct dec as [body|e] eqn:Edec; [|discriminate].
  set (h := i_hdrs i) in *.
  set (h1 := if hmem K_CL h && negb (i_chunked i) then h else hset K_CL (dec_of_N (N.of_nat (length body))) h) in H.
  set (h2 := if i_chunked i then hdel K_TE h1 else h1) in H.
  destruct (match k with Server => _ | Client => false end); [discriminate|].
  injection H as <-. unfold framing_ok. cbn [m_hdrs m_body m_line]. intros Hce.
  assert (Hce0 : hmem K_CE h = false).
  { subst h2 h1. destruct (i_chunked i); [rewrite hmem_other_del in Hce by exact K_CE_neq_TE|];
    destruct (hmem K_CL h && _); try exact Hce; rewrite hmem_other_set in Hce by exact K_CE_neq_CL; exact Hce. }
  assert (Hbody : body = i_body i).
  { subst dec. destruct (i_ce i) as [ce|] eqn:Ece; [|injection Edec as <-; reflexivity].
    specialize (J2 ce eq_refl). fold h in J2. congruence. }
  subst body. destruct (i_chunked i) eqn:Ch.
  - (* chunked framing decided the body: the length is (over)written, Transfer-Encoding removed *)
    subst h2 h1. rewrite andb_false_r. split.
    + exists (dec_of_N (N.of_nat (length (i_body i)))). split; [|left; reflexivity].
      rewrite hget_hdel_other by (intros E; symmetry in E; exact (K_TE_neq_CL E)). apply hget_hset_same.
    + left. apply hmem_hdel_same.
  - destruct (J3 eq_refl) as [Hclr Hte]. subst h2 h1. rewrite andb_true_r. split.
    + unfold clr in Hclr. fold h in Hclr. unfold hmem. destruct (hget K_CL h) as [v0|] eqn:G.
      * exists v0. split; [exact G | right; exact Hclr].
      * eexists. split; [apply hget_hset_same | left; reflexivity].
    + destruct Hte as [Hte | Hp].
      * left. fold h in Hte. destruct (hmem K_CL h); unfold hmem;
          [rewrite Hte; reflexivity | rewrite hget_hset_other by exact K_TE_neq_CL; rewrite Hte; reflexivity].
      * right. exists (i_info i). split; [exact J1 | exact Hp].
Qed.

(* ---- the body phase keeps J / reaches complete_ok ---- *)
Lemma parse_body_J i b : i_phase i = PBody ->
  c_start C (i_line i) = SlOk (i_info i) -> (forall ce, i_ce i = Some ce -> hmem K_CE (i_hdrs i) = true) ->
  (i_chunked i = false -> (i_len i = None /\ i_body i = []) \/
                          exists r, i_len i = Some r /\ clr (i_hdrs i) = Some (blen (i_body i) + r) /\ te_absent_or_10 i) ->
  match parse_body C i b with
  | Need i' _ => J i'
  | Done i' _ => complete_ok i'
  | Fail _ => True
  end.
Proof.
  intros Hph J1 J2 J4. unfold parse_body.
  destruct (i_chunked i) eqn:Ch.
  - (* already chunked *)
    assert (E : (match i_len i with None => inl i | Some _ => inl i end : inflight + err) = inl i) by (destruct (i_len i); reflexivity).
    rewrite E, Ch. clear E.
    destruct (chunks C (S (length b)) i b) as [i' b'|i' b'|e] eqn:Ck; [| |exact I].
    + destruct (chunks_meta _ _ _ _ _ (or_introl Ck)) as (M1 & M2 & M3 & M4 & M5 & M6).
      unfold J. rewrite M1, M2, M3, M4, M5, Hph, Ch. repeat split; auto; try discriminate.
      intros ce Hc. apply M6, (J2 ce Hc).
    + destruct (chunks_meta _ _ _ _ _ (or_intror Ck)) as (M1 & M2 & M3 & M4 & M5 & M6).
      unfold complete_ok. rewrite M1, M2, M4, M5, Ch. repeat split; auto; try discriminate.
      intros ce Hc. apply M6, (J2 ce Hc).
  - destruct (J4 eq_refl) as [[Hl Hb] | (r & Hr & Hclr & Hte)].
    + (* fresh: determine_message_length runs now *)
      rewrite Hl. destruct (determine C i) as [i1|e1] eqn:D; [|exact I].
      destruct (determine_spec _ _ Ch D) as (S1 & S2 & S3 & S4 & S5 & S6 & S7 & S8 & S9).
      destruct S9 as [Hch | (Hch & Hte & n & Hn & Hclr)].
      * rewrite Hch.
        destruct (chunks C (S (length b)) i1 b) as [i' b'|i' b'|e] eqn:Ck; [| |exact I].
        -- destruct (chunks_meta _ _ _ _ _ (or_introl Ck)) as (M1 & M2 & M3 & M4 & M5 & M6).
           unfold J. rewrite M1, M2, M3, M4, M5, S1, S2, S3, S5, Hph, Hch. repeat split; auto; try discriminate.
           intros ce Hc. apply M6. rewrite S4. apply (J2 ce Hc).
        -- destruct (chunks_meta _ _ _ _ _ (or_intror Ck)) as (M1 & M2 & M3 & M4 & M5 & M6).
           unfold complete_ok. rewrite M1, M2, M4, M5, S1, S2, S5, Hch. repeat split; auto; try discriminate.
           intros ce Hc. apply M6. rewrite S4. apply (J2 ce Hc).
      * rewrite Hch, Hn. destruct n as [|p].
        -- unfold complete_ok. rewrite S1, S2, S4, S5, S6, Hb. repeat split; auto.
           unfold te_absent_or_10 in *. rewrite S4, S2. exact Hte.
        -- pose proof (body_with_length_spec i1 (N.pos p) b (eq_refl : 0 < N.pos p)) as [B1 B2].
           destruct (body_with_length i1 (N.pos p) b) as [i' b'|i' b'|e] eqn:BW; [| |exact I].
           ++ destruct (B2 _ _ (or_introl eq_refl)) as (M1 & M2 & M3 & M4 & M5 & M6).
              destruct B1 as (Bb & r' & Hr' & Hpos & Hsum).
              unfold J. rewrite M1, M2, M3, M4, M5, S1, S2, S3, S4, S5, Hph. repeat split; auto.
              intros _. exists r'. split; [exact Hr'|]. split.
              ** rewrite Hclr. f_equal. rewrite Hsum, S6, Hb. reflexivity.
              ** unfold te_absent_or_10 in *. rewrite M4, M2, S4, S2. exact Hte.
           ++ destruct (B2 _ _ (or_intror eq_refl)) as (M1 & M2 & M3 & M4 & M5 & M6).
              destruct B1 as (Bb & Hr' & Hsum).
              unfold complete_ok. rewrite M1, M2, M4, M5, S1, S2, S4, S5. repeat split; auto.
              ** rewrite Hclr. f_equal. rewrite Hsum, S6, Hb. reflexivity.
              ** unfold te_absent_or_10 in *. rewrite M4, M2, S4, S2. exact Hte.
    + (* stored body state with r octets outstanding *)
      rewrite Hr, Ch. rewrite ?Hr. destruct r as [|p].
      * unfold complete_ok. repeat split; auto. rewrite Hclr. f_equal. lia.
      * pose proof (body_with_length_spec i (N.pos p) b (eq_refl : 0 < N.pos p)) as [B1 B2].
        destruct (body_with_length i (N.pos p) b) as [i' b'|i' b'|e] eqn:BW; [| |exact I].
        -- destruct (B2 _ _ (or_introl eq_refl)) as (M1 & M2 & M3 & M4 & M5 & M6).
           destruct B1 as (Bb & r' & Hr' & Hpos & Hsum).
           unfold J. rewrite M1, M2, M3, M4, M5, Hph. repeat split; auto.
           intros _. exists r'. split; [exact Hr'|]. split.
           ++ rewrite Hclr. f_equal. lia.
           ++ unfold te_absent_or_10 in *. rewrite M4, M2. exact Hte.
        -- destruct (B2 _ _ (or_intror eq_refl)) as (M1 & M2 & M3 & M4 & M5 & M6).
           destruct B1 as (Bb & Hr' & Hsum).
           unfold complete_ok. rewrite M1, M2, M4, M5. repeat split; auto.
           ++ rewrite Hclr. f_equal. lia.
           ++ unfold te_absent_or_10 in *. rewrite M4, M2. exact Hte.
Qed.

(* ---- one turn, the loop, a parse() call, a whole fragmentation ---- *)
Lemma after_headers_J i b : i_phase i = PBody ->
  c_start C (i_line i) = SlOk (i_info i) -> (forall ce, i_ce i = Some ce -> hmem K_CE (i_hdrs i) = true) ->
  (i_chunked i = false -> (i_len i = None /\ i_body i = []) \/
                          exists r, i_len i = Some r /\ clr (i_hdrs i) = Some (blen (i_body i) + r) /\ te_absent_or_10 i) ->
  match after_headers cfg C k i b with
  | TBlocked s' => Jst s'
  | TMsg s' m => Jst s' /\ framing_ok m
  | TErr _ => True
  end.
Proof.
  intros Hph J1 J2 J4. unfold after_headers. pose proof (parse_body_J i b Hph J1 J2 J4) as PB.
  destruct (parse_body C i b) as [i' b'|i' b'|e]; [exact PB | | exact I].
  destruct (on_body_complete cfg C k i' b') as [m|e] eqn:O; [|exact I].
  split; [exact I | eapply on_body_complete_framing; eauto].
Qed.

Lemma on_headers_complete_spec i i' : on_headers_complete C k i = inl i' ->
  i' = set_ce (set_hdrs i (hc_hdrs C k (i_line i) (i_hdrs i))) (hget K_CE (i_hdrs i)).
Proof. unfold on_headers_complete. intros H. repeat dmatch; try discriminate; injection H as <-; reflexivity. Qed.

Lemma K_CL_neq_TE : K_CL <> K_TE. Proof. vm_compute. discriminate. Qed.
Lemma hget_CE_hc line h : hget K_CE (hc_hdrs C k line h) = hget K_CE h.
Proof.
  unfold hc_hdrs. destruct (connect_response C k line); [|reflexivity].
  rewrite !hget_hdel_other; [reflexivity | exact K_CE_neq_CL | exact K_CE_neq_TE].
Qed.
(* a response to CONNECT: no Content-Length, no Transfer-Encoding left *)
Lemma hc_hdrs_connect line h : connect_response C k line = true ->
  hget K_CL (hc_hdrs C k line h) = None /\ hget K_TE (hc_hdrs C k line h) = None.
Proof.
  intros E. unfold hc_hdrs. rewrite E. split; [|apply hget_hdel_same].
  rewrite hget_hdel_other; [apply hget_hdel_same | exact K_CL_neq_TE].
Qed.
Lemma hc_hdrs_plain line h : connect_response C k line = false -> hc_hdrs C k line h = h.
Proof. intros E. unfold hc_hdrs. rewrite E. reflexivity. Qed.

Lemma after_startline_J i b : J i ->
  match after_startline cfg C k i b with
  | TBlocked s' => Jst s'
  | TMsg s' m => Jst s' /\ framing_ok m
  | TErr _ => True
  end.
Proof.
  intros (J1 & J2 & J3). unfold after_startline. destruct (i_phase i) eqn:Ph.
  - destruct J3 as (Hb & Hl & Hc & Hce).
    destruct (parse_headers cfg (i_le i) (i_hdrs i) b) as [h b'|h b'|e]; [| |exact I].
    + unfold Jst, J. cbn. rewrite Ph. repeat split; auto. intros ce E. congruence.
    + destruct (on_headers_complete C k _) as [i1|e1] eqn:O; [|exact I].
      apply on_headers_complete_spec in O. subst i1.
      apply after_headers_J; cbn; auto.
      intros ce E. change (hget K_CE h = Some ce) in E. change (hmem K_CE (hc_hdrs C k (i_line i) h) = true). unfold hmem. rewrite hget_CE_hc, E. reflexivity.
  - apply after_headers_J; auto.
Qed.

Lemma turn_J s : Jst s ->
  match turn_of cfg C k s with
  | TBlocked s' => Jst s'
  | TMsg s' m => Jst s' /\ framing_ok m
  | TErr _ => True
  end.
Proof.
  unfold Jst at 1, turn_of. destruct (cur s) as [i|] eqn:Cu; intros Hj.
  - apply after_startline_J, Hj.
  - unfold parse_startline.
    destruct (if contains CRLF (buf s) then Some LE_CRLF else if allow_lf cfg && contains [LF] (buf s) then Some LE_LF else None) as [le|].
    2:{ unfold Jst. rewrite Cu. exact I. }
    destruct (cut (le_bytes le) (buf s)) as [[line rest]|]; [|exact I].
    destruct (c_start C line) as [info|c| |] eqn:CS; try exact I.
    apply after_startline_J. unfold J. cbn. repeat split; auto. discriminate.
Qed.

Lemma loop_J fuel : forall s acc, Jst s -> Forall framing_ok acc ->
  match loop cfg C k fuel s acc with (s', ms, _) => Jst s' /\ Forall framing_ok ms end.
Proof.
  induction fuel as [|f IH]; intros s acc Hj Ha; cbn [loop].
  - destruct (buf s); split; auto; try exact I; apply Forall_rev; exact Ha.
  - destruct (buf s); [split; [exact Hj | apply Forall_rev; exact Ha]|].
    pose proof (turn_J s Hj) as T. destruct (turn_of cfg C k s) as [s'|s' m|e].
    + split; [exact T | apply Forall_rev; exact Ha].
    + destruct T as [T1 T2]. apply IH; [exact T1 | constructor; assumption].
    + split; [exact I | apply Forall_rev; exact Ha].
Qed.

Theorem parse_framing s data : Jst s ->
  match parse cfg C k s data with (s', ms, _) => Jst s' /\ Forall framing_ok ms end.
Proof. intros Hj. unfold parse. apply loop_J; [exact Hj | constructor]. Qed.

Fixpoint feed (s : pstate) (frags : list bytes) : pstate * list msg * option err :=
  match frags with
  | [] => (s, [], None)
  | f :: fr =>
      match parse cfg C k s f with
      | (s', ms, None) => match feed s' fr with (s2, ms2, oe) => (s2, ms ++ ms2, oe) end
      | (s', ms, Some e) => (s', [], Some e)   (* the erroring call hands out nothing *)
      end
  end.

(* every message delivered by any fragmentation of any stream satisfies framing_ok *)
Theorem feed_framing frags : forall s, Jst s ->
  match feed s frags with (_, ms, _) => Forall framing_ok ms end.
Proof.
  induction frags as [|f fr IH]; intros s Hj; cbn [feed]; [constructor|].
  pose proof (parse_framing s f Hj) as P. destruct (parse cfg C k s f) as [[s' ms] [e|]].
  - constructor.
  - destruct P as [P1 P2]. specialize (IH s' P1). destruct (feed s' fr) as [[s2 ms2] oe].
    apply Forall_app. split; assumption.
Qed.

Lemma J_init : Jst init.
Proof. exact I. Qed.

End Framing.

(* Finite sweeps over integer intervals: a boolean predicate checked on [z, z + n) by computation,
   lifted to a universally quantified statement.  Used for the 400-year cycle of the calendar model
   (sharded over Proofs/DateSweepA-D.v so the shards compile in parallel) and for the small finite
   domains of the date text (two- and four-digit fields, table rows). *)
From Coq Require Import ZArith Bool Lia.
From Httoop Require Import Model.DateCal.
Local Open Scope Z_scope.

Fixpoint zsweep (P : Z -> bool) (n : nat) (z : Z) : bool :=
  match n with
  | O => true
  | S n' => P z && zsweep P n' (z + 1)
  end.

Lemma zsweep_spec P n : forall z, zsweep P n z = true ->
  forall k, z <= k < z + Z.of_nat n -> P k = true.
Proof.
  induction n as [|n IH]; intros z H k Hk.
  - simpl in Hk. lia.
  - cbn [zsweep] in H. apply andb_true_iff in H as [H0 H1].
    destruct (Z.eq_dec k z) as [->|Hne]; [exact H0|].
    apply (IH (z + 1) H1). lia.
Qed.

(* interval form: [lo, hi) *)
Lemma zsweep_range P lo hi :
  zsweep P (Z.to_nat (hi - lo)) lo = true -> forall k, lo <= k < hi -> P k = true.
Proof.
  intros H k Hk. apply (zsweep_spec P _ lo H). rewrite Z2Nat.id; lia.
Qed.

(* what one day of the 400-year cycle has to satisfy: the year of the era, month and day are in range and
   the day of the era computed back from them is the day we started from *)
Definition cyc_ok (doe : Z) : bool :=
  let '(yoe, m, d) := civil_of_doe doe in
  (0 <=? yoe) && (yoe <? 400) && (1 <=? m) && (m <=? 12) && (1 <=? d) && (d <=? 31) &&
  (doe_of_civil yoe m d =? doe).

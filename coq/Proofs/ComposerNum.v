(* Decimal / hexadecimal printing of the composer model and its inverses:
   the independent reader's 1*DIGIT / 1*HEXDIG, and CPython's int() as modelled in Lib/PyInt.v. *)
From Coq Require Import ZArith Lia.
From Httoop Require Import Model.Composer Model.Http1Reader Lib.PyInt.
Local Open Scope N_scope.

Definition horner (base : N) (ds : list N) (acc : N) : N := fold_left (fun a d => a * base + d) ds acc.

Lemma horner_app base a b acc : horner base (a ++ b) acc = horner base b (horner base a acc).
Proof. unfold horner. apply fold_left_app. Qed.

Lemma size_nat_bound n : n < 2 ^ N.of_nat (N.size_nat n).
Proof.
  destruct n as [|p]; [cbn; lia|].
  cbn [N.size_nat]. induction p as [p IH|p IH|]; cbn [Pos.size_nat].
  - rewrite Nat2N.inj_succ, N.pow_succ_r'. lia.
  - rewrite Nat2N.inj_succ, N.pow_succ_r'. lia.
  - cbn. lia.
Qed.

Lemma digs_f_horner base : 2 <= base -> forall fuel n acc, n < 2 ^ N.of_nat fuel ->
  horner base (digs_f fuel base n acc) 0 = horner base acc n.
Proof.
  intros Hb. induction fuel as [|f IH]; intros n acc Hn.
  - cbn in Hn. assert (n = 0) by lia. subst. cbn [digs_f]. reflexivity.
  - cbn [digs_f]. destruct (n <? base) eqn:E.
    + cbn [horner fold_left]. reflexivity.
    + apply N.ltb_ge in E. rewrite IH.
      * cbn [horner fold_left]. unfold horner. f_equal. rewrite N.mul_comm. symmetry. apply N.div_mod'.
      * rewrite Nat2N.inj_succ, N.pow_succ_r' in Hn.
        assert (n / base <= n / 2) by (apply N.div_le_compat_l; lia).
        assert (n / 2 < 2 ^ N.of_nat f) by (apply N.div_lt_upper_bound; lia). lia.
Qed.

Lemma digs_f_lt base : 2 <= base -> forall fuel n acc, n < 2 ^ N.of_nat fuel ->
  Forall (fun d => d < base) acc -> Forall (fun d => d < base) (digs_f fuel base n acc).
Proof.
  intros Hb. induction fuel as [|f IH]; intros n acc Hn Ha.
  - cbn in Hn. assert (n = 0) by lia. subst. cbn [digs_f]. constructor; [lia | exact Ha].
  - cbn [digs_f]. destruct (n <? base) eqn:E.
    + apply N.ltb_lt in E. constructor; assumption.
    + apply N.ltb_ge in E. apply IH.
      * rewrite Nat2N.inj_succ, N.pow_succ_r' in Hn.
        assert (n / base <= n / 2) by (apply N.div_le_compat_l; lia).
        assert (n / 2 < 2 ^ N.of_nat f) by (apply N.div_lt_upper_bound; lia). lia.
      * constructor; [apply N.mod_lt; lia | exact Ha].
Qed.

Lemma digs_f_nonempty fuel base n acc : digs_f fuel base n acc <> [].
Proof.
  revert n acc. induction fuel as [|f IH]; intros n acc; cbn [digs_f]; [discriminate|].
  destruct (n <? base); [discriminate | apply IH].
Qed.

Lemma digs_horner base n : 2 <= base -> horner base (digs base n) 0 = n.
Proof. intros Hb. unfold digs. rewrite (digs_f_horner base Hb); [reflexivity | apply size_nat_bound]. Qed.
Lemma digs_lt base n : 2 <= base -> Forall (fun d => d < base) (digs base n).
Proof. intros Hb. unfold digs. apply (digs_f_lt base Hb); [apply size_nat_bound | constructor]. Qed.
Lemma digs_nonempty base n : digs base n <> [].
Proof. apply digs_f_nonempty. Qed.

(* ---- the independent reader inverts the printers ---- *)
Lemma dec_digit_props d : d < 10 -> rd_digit (dec_digit d) = true /\ bN (dec_digit d) - 48 = d /\
  decdigit_val (dec_digit d) = Some d /\ beq (dec_digit d) UNDERSCORE = false /\ beq (dec_digit d) CR = false /\ beq (dec_digit d) LF = false /\
  rd_ows (dec_digit d) = false /\ is_uws_latin1 (dec_digit d) = false /\ beq (dec_digit d) x2b = false /\ beq (dec_digit d) x2d = false.
Proof.
  intros H. assert (In d [0;1;2;3;4;5;6;7;8;9]) as Hin.
  { destruct d as [|p]; [left; reflexivity|]. cbn. do 9 (destruct p as [p|p|]; try lia; auto 12). }
  cbn in Hin. repeat (destruct Hin as [<-|Hin]; [vm_compute; repeat split; reflexivity|]). contradiction.
Qed.

Lemma hex_digit_props d : d < 16 -> rd_hexval (hex_digit d) = Some d /\ hexdigit_val (hex_digit d) = Some d /\
  beq (hex_digit d) UNDERSCORE = false /\ beq (hex_digit d) CR = false /\ beq (hex_digit d) LF = false /\ beq (hex_digit d) SEMI = false /\
  beq (hex_digit d) SP = false /\ is_bws (hex_digit d) = false /\ beq (hex_digit d) x2b = false /\ beq (hex_digit d) x2d = false.
Proof.
  intros H. assert (In d [0;1;2;3;4;5;6;7;8;9;10;11;12;13;14;15]) as Hin.
  { destruct d as [|p]; [left; reflexivity|]. cbn. do 5 (destruct p as [p|p|]; try lia; auto 20). }
  cbn in Hin. repeat (destruct Hin as [<-|Hin]; [vm_compute; repeat split; reflexivity|]). contradiction.
Qed.

Lemma rd_dec_fold ds : Forall (fun d => d < 10) ds -> forall acc,
  fold_left (fun a c => a * 10 + (bN c - 48)) (map dec_digit ds) acc = horner 10 ds acc /\ forallb rd_digit (map dec_digit ds) = true.
Proof.
  induction 1 as [|d ds Hd _ IH]; intros acc; [split; reflexivity|].
  destruct (dec_digit_props d Hd) as [A [B _]]. cbn [map fold_left forallb horner]. rewrite A, B. apply IH.
Qed.

Lemma rd_dec_print n : rd_dec (dec_print n) = Some n.
Proof.
  unfold rd_dec, dec_print. pose proof (digs_lt 10 n ltac:(lia)) as Hl.
  destruct (rd_dec_fold _ Hl 0) as [A B]. rewrite A, B, digs_horner by lia.
  pose proof (digs_nonempty 10 n). destruct (digs 10 n); [congruence | reflexivity].
Qed.

Lemma rd_hex_acc_print ds : Forall (fun d => d < 16) ds -> forall acc,
  rd_hex_acc (map hex_digit ds) acc = Some (horner 16 ds acc).
Proof.
  induction 1 as [|d ds Hd _ IH]; intros acc; [reflexivity|].
  destruct (hex_digit_props d Hd) as [A _]. cbn [map rd_hex_acc horner fold_left]. rewrite A. apply IH.
Qed.

Lemma rd_hex_print n : rd_hex (hex_print n) = Some n.
Proof.
  unfold rd_hex, hex_print. pose proof (digs_nonempty 16 n) as Hne. pose proof (digs_lt 16 n ltac:(lia)) as Hl.
  pose proof (digs_horner 16 n ltac:(lia)) as Hh. pose proof (rd_hex_acc_print _ Hl 0) as Hr. rewrite Hh in Hr.
  destruct (digs 16 n) as [|d ds]; [congruence|]. exact Hr.
Qed.

(* octet classes of the printed numbers *)
Definition no_cr_lf (l : bytes) : bool := forallb (fun c => negb (beq c CR || beq c LF)) l.

Lemma dec_print_clean n : no_cr_lf (dec_print n) = true /\ rd_trim (dec_print n) = dec_print n /\ dec_print n <> [].
Proof.
  unfold dec_print. pose proof (digs_lt 10 n ltac:(lia)) as Hl. pose proof (digs_nonempty 10 n) as Hne.
  assert (P : forall ds, Forall (fun d => d < 10) ds -> no_cr_lf (map dec_digit ds) = true /\ forallb (fun c => negb (rd_ows c)) (map dec_digit ds) = true).
  { induction 1 as [|d ds Hd _ IH]; [split; reflexivity|]. destruct (dec_digit_props d Hd) as [_ [_ [_ [_ [A [B [Cw _]]]]]]].
    cbn [map no_cr_lf forallb]. rewrite A, B, Cw. exact IH. }
  destruct (P _ Hl) as [A B]. split; [exact A|]. split.
  - unfold rd_trim, strip_by, rstrip_by.
    assert (Q : forall l, forallb (fun c => negb (rd_ows c)) l = true -> lstrip_by rd_ows l = l).
    { intros [|c l] H; [reflexivity|]. cbn in H. apply andb_true_iff in H as [H _]. cbn. apply negb_true_iff in H. rewrite H. reflexivity. }
    rewrite (Q _ B). rewrite Q; [apply rev_involutive|]. rewrite forallb_forall in *. intros x Hx. apply B. apply in_rev. exact Hx.
  - destruct (digs 10 n); [congruence | discriminate].
Qed.

Lemma hex_print_clean n : no_cr_lf (hex_print n) = true /\ forallb (fun c => negb (beq c SEMI)) (hex_print n) = true /\ hex_print n <> [].
Proof.
  unfold hex_print. pose proof (digs_lt 16 n ltac:(lia)) as Hl. pose proof (digs_nonempty 16 n) as Hne.
  assert (P : forall ds, Forall (fun d => d < 16) ds -> no_cr_lf (map hex_digit ds) = true /\ forallb (fun c => negb (beq c SEMI)) (map hex_digit ds) = true).
  { induction 1 as [|d ds Hd _ IH]; [split; reflexivity|]. destruct (hex_digit_props d Hd) as [_ [_ [_ [A [B [S _]]]]]].
    cbn [map no_cr_lf forallb]. rewrite A, B, S. exact IH. }
  destruct (P _ Hl) as [A B]. repeat split; [exact A | exact B |]. destruct (digs 16 n); [congruence | discriminate].
Qed.

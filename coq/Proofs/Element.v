(* Lemmas about the header-element parameter model (Model/Element.v): escaping, quote-parity splitting,
   formatparam / parseparam, RFC 5987 values, whole elements and joined lists. *)
From Coq Require Import ZArith PeanoNat.
From Httoop Require Import Model.Headers Model.HeadersApi Model.Percent Model.Element
  Proofs.SplitP Proofs.HeadersP Proofs.Percent Proofs.Utf8Enc Proofs.HeadersApi.
Local Open Scope N_scope.

(* ================= escaping inside a quoted string ================= *)
Fixpoint no_bs_pair (l : bytes) : bool :=
  match l with
  | a :: r => match r with
              | b :: _ => negb (beq a BSL && beq b BSL) && no_bs_pair r
              | [] => true
              end
  | [] => true
  end.
(* what a quoted value must not contain for the round trip (finding D17): a double quote, two adjacent backslashes *)
Definition clean_q (v : bytes) : bool := nosep DQ v && no_bs_pair v.

Lemma escape_q_cons c r : escape_q (c :: r) =
  (if beq c BSL then [BSL; BSL] else if beq c DQ then [BSL; DQ] else [c]) ++ escape_q r.
Proof. reflexivity. Qed.

Lemma unesc_cons c r : unesc (c :: r) =
  if beq c BSL && negb (match r with d :: _ => beq d BSL | [] => false end) then unesc r else c :: unesc r.
Proof. reflexivity. Qed.

Lemma BSL_not_DQ : beq BSL DQ = false.
Proof. reflexivity. Qed.

Theorem unesc_escape v : clean_q v = true -> unesc (escape_q v) = v.
Proof.
  unfold clean_q. induction v as [|c v IH]; [reflexivity|].
  rewrite andb_true_iff. intros [Hq Hp]. cbn [nosep forallb] in Hq. apply andb_true_iff in Hq as [Hc Hq].
  apply negb_true_iff in Hc. fold (nosep DQ v) in Hq.
  assert (Hp' : no_bs_pair v = true).
  { cbn [no_bs_pair] in Hp. destruct v as [|d v]; [reflexivity|]. apply andb_true_iff in Hp as [_ Hp]. exact Hp. }
  assert (IHv : unesc (escape_q v) = v) by (apply IH; rewrite Hq, Hp'; reflexivity).
  rewrite escape_q_cons, Hc. destruct (beq c BSL) eqn:Eb.
  - apply beq_eq in Eb. subst c. cbn [app]. rewrite unesc_cons, beq_refl. cbn [negb andb].
    rewrite unesc_cons, beq_refl.
    assert (Hh : match escape_q v with d :: _ => beq d BSL | [] => false end = false).
    { destruct v as [|d v]; [reflexivity|]. cbn [no_bs_pair] in Hp. apply andb_true_iff in Hp as [Hp _].
      rewrite beq_refl in Hp. cbn [andb] in Hp. apply negb_true_iff in Hp.
      cbn [nosep forallb] in Hq. apply andb_true_iff in Hq as [Hd _]. apply negb_true_iff in Hd.
      rewrite escape_q_cons, Hp, Hd. cbn [app]. exact Hp. }
    rewrite Hh. cbn [negb andb]. rewrite IHv. reflexivity.
  - cbn [app]. rewrite unesc_cons, Eb. cbn [andb]. rewrite IHv. reflexivity.
Qed.

(* D17, both halves: the escaping is not inverted *)
Lemma unesc_escape_backslash_refuted : exists v, nosep DQ v = true /\ unesc (escape_q v) <> v.
Proof. exists [BSL; BSL]. split; [reflexivity|]. vm_compute. discriminate. Qed.
Lemma unesc_escape_dquote_refuted : exists v, no_bs_pair v = true /\ unesc (escape_q v) <> v.
Proof. exists [BSL; DQ]. split; [reflexivity|]. vm_compute. discriminate. Qed.

(* ================= quote-parity splitting ================= *)
Section PSplit.
Variable sep : byte.
Hypothesis sep_not_dq : beq sep DQ = false.

Lemma psplit_aux_cons c r : psplit_aux sep (c :: r) =
  let '(odd, h, t) := psplit_aux sep r in
  if beq c DQ then (negb odd, c :: h, t)
  else if beq c sep && negb odd then (odd, [], h :: t)
  else (odd, c :: h, t).
Proof. reflexivity. Qed.

(* octets that are neither quotes nor separators just extend the current piece *)
Lemma psplit_aux_plain a : forall b ob hb tb, nosep DQ a = true -> nosep sep a = true ->
  psplit_aux sep b = (ob, hb, tb) -> psplit_aux sep (a ++ b) = (ob, a ++ hb, tb).
Proof.
  induction a as [|c a IH]; intros b ob hb tb Hq Hs Hb; [exact Hb|].
  cbn [nosep forallb] in Hq, Hs. apply andb_true_iff in Hq as [Hc Hq]. apply andb_true_iff in Hs as [Hc2 Hs].
  apply negb_true_iff in Hc, Hc2. cbn [app]. rewrite psplit_aux_cons, (IH b ob hb tb Hq Hs Hb), Hc, Hc2. reflexivity.
Qed.

(* inside a quoted string (odd number of quotes to the right) separators do not split *)
Lemma psplit_aux_inq a : forall b hb tb, nosep DQ a = true ->
  psplit_aux sep b = (true, hb, tb) -> psplit_aux sep (a ++ b) = (true, a ++ hb, tb).
Proof.
  induction a as [|c a IH]; intros b hb tb Hq Hb; [exact Hb|].
  cbn [nosep forallb] in Hq. apply andb_true_iff in Hq as [Hc Hq]. apply negb_true_iff in Hc.
  cbn [app]. rewrite psplit_aux_cons, (IH b hb tb Hq Hb), Hc. cbn [negb]. rewrite andb_false_r. reflexivity.
Qed.

(* a string the splitter leaves in one piece, with balanced quotes *)
Definition solid (p : bytes) : Prop := psplit_aux sep p = (false, p, []).

Lemma solid_nil : solid [].
Proof. reflexivity. Qed.

Lemma solid_plain p : nosep DQ p = true -> nosep sep p = true -> solid p.
Proof.
  intros Hq Hs. unfold solid. rewrite <- (app_nil_r p) at 1. rewrite (psplit_aux_plain p [] false [] [] Hq Hs eq_refl).
  rewrite app_nil_r. reflexivity.
Qed.

(* a quoted string: whatever is between the quotes (no quote) is protected *)
Lemma solid_quoted q : nosep DQ q = true -> solid (DQ :: q ++ [DQ]).
Proof.
  intros Hq. unfold solid. rewrite psplit_aux_cons.
  rewrite (psplit_aux_inq q [DQ] [DQ] [] Hq); [|reflexivity]. reflexivity.
Qed.

Lemma psplit_aux_app_solid b : solid b -> forall a oa ha, psplit_aux sep a = (oa, ha, []) ->
  psplit_aux sep (a ++ b) = (oa, ha ++ b, []).
Proof.
  intros Hb. induction a as [|d a IHa]; intros oa ha Ea.
  - cbn in Ea. injection Ea as <- <-. exact Hb.
  - rewrite psplit_aux_cons in Ea. destruct (psplit_aux sep a) as [[o' h'] t'] eqn:E'.
    cbn [app]. rewrite psplit_aux_cons.
    destruct (beq d DQ) eqn:Ed.
    + injection Ea as <- <- ->. rewrite (IHa _ _ eq_refl). reflexivity.
    + destruct (beq d sep && negb o') eqn:Es; [discriminate|]. injection Ea as <- <- ->.
      rewrite (IHa _ _ eq_refl), Es. reflexivity.
Qed.

Lemma solid_app a b : solid a -> solid b -> solid (a ++ b).
Proof. intros Ha Hb. unfold solid. apply (psplit_aux_app_solid b Hb a false a Ha). Qed.

(* a separator outside quotes splits: the pieces of a ++ sep ++ b are a, then the pieces of b *)
Lemma psplit_aux_solid_sep a b hb tb : solid a -> psplit_aux sep b = (false, hb, tb) ->
  psplit_aux sep (a ++ sep :: b) = (false, a, hb :: tb).
Proof.
  intros Ha Hb.
  assert (G : forall a oa ha, psplit_aux sep a = (oa, ha, []) ->
              psplit_aux sep (a ++ sep :: b) = (oa, ha, hb :: tb)).
  { clear a Ha. induction a as [|d a IHa]; intros oa ha Ea.
    - cbn in Ea. injection Ea as <- <-. cbn [app]. rewrite psplit_aux_cons, Hb, sep_not_dq, beq_refl. reflexivity.
    - rewrite psplit_aux_cons in Ea. destruct (psplit_aux sep a) as [[o' h'] t'] eqn:E'.
      cbn [app]. rewrite psplit_aux_cons.
      destruct (beq d DQ) eqn:Ed.
      + injection Ea as <- <- ->. rewrite (IHa _ _ eq_refl). reflexivity.
      + destruct (beq d sep && negb o') eqn:Es; [discriminate|]. injection Ea as <- <- ->.
        rewrite (IHa _ _ eq_refl), Es. reflexivity. }
  apply (G a false a Ha).
Qed.

Lemma psplit_solid p : solid p -> psplit sep p = [p].
Proof. intros H. unfold psplit. rewrite H. reflexivity. Qed.

Lemma psplit_solid_sep a b : solid a -> (let '(o, _, _) := psplit_aux sep b in o = false) ->
  psplit sep (a ++ sep :: b) = a :: psplit sep b.
Proof.
  intros Ha Hb. unfold psplit. destruct (psplit_aux sep b) as [[ob hb] tb] eqn:Eb. subst ob.
  rewrite (psplit_aux_solid_sep a b hb tb Ha Eb). reflexivity.
Qed.

(* parity of the number of double quotes *)
Fixpoint dq_odd (l : bytes) : bool :=
  match l with [] => false | c :: r => if beq c DQ then negb (dq_odd r) else dq_odd r end.

Lemma psplit_aux_odd l : fst (fst (psplit_aux sep l)) = dq_odd l.
Proof.
  induction l as [|c l IH]; [reflexivity|]. rewrite psplit_aux_cons. cbn [dq_odd].
  destruct (psplit_aux sep l) as [[o h] t]. cbn [fst] in IH. subst o.
  destruct (beq c DQ); [reflexivity|]. destruct (beq c sep && negb (dq_odd l)); reflexivity.
Qed.

Lemma psplit_aux_even l : dq_odd l = false -> exists h t, psplit_aux sep l = (false, h, t) /\ psplit sep l = h :: t.
Proof.
  intros H. pose proof (psplit_aux_odd l) as P. unfold psplit. destruct (psplit_aux sep l) as [[o h] t].
  cbn [fst] in P. exists h, t. rewrite P, H. split; reflexivity.
Qed.

(* prepending a string to one with balanced quotes: its last piece is glued to the first piece of the rest *)
Definition glue (ha : bytes) (ta : list bytes) (hr : bytes) : bytes * list bytes :=
  match ta with
  | [] => (ha ++ hr, [])
  | _ => (ha, removelast ta ++ [last ta [] ++ hr])
  end.

Lemma psplit_aux_app_even a : forall r hr tr, psplit_aux sep r = (false, hr, tr) ->
  psplit_aux sep (a ++ r) =
  let '(oa, ha, ta) := psplit_aux sep a in (oa, fst (glue ha ta hr), snd (glue ha ta hr) ++ tr).
Proof.
  induction a as [|c a IH]; intros r hr tr Hr; [cbn; exact Hr|].
  cbn [app]. rewrite !psplit_aux_cons, (IH r hr tr Hr). destruct (psplit_aux sep a) as [[o' h'] t'].
  destruct (beq c DQ).
  - destruct t'; reflexivity.
  - destruct (beq c sep && negb o').
    + destruct t' as [|x t']; [reflexivity|]. cbn [glue fst snd]. 
      change (removelast (h' :: x :: t')) with (h' :: removelast (x :: t')).
      change (last (h' :: x :: t') []) with (last (x :: t') []). reflexivity.
    + destruct t'; reflexivity.
Qed.

(* the statement of the property: a separator between a pair of double quotes never splits.  Whatever precedes
   the quoted string and whatever (with balanced quotes) follows it, the quoted string stays in one piece,
   glued to the last piece of what precedes and the first piece of what follows *)
Theorem quoted_never_split a q b pa la hb tb :
  nosep DQ q = true -> dq_odd b = false ->
  psplit sep a = pa ++ [la] -> psplit sep b = hb :: tb ->
  psplit sep (a ++ DQ :: q ++ DQ :: b) = pa ++ [la ++ DQ :: q ++ DQ :: hb] ++ tb.
Proof.
  intros Hq Hb Pa Pb. destruct (psplit_aux_even b Hb) as [hb' [tb' [Eb Pb']]]. rewrite Pb' in Pb. injection Pb as -> ->.
  assert (E1 : psplit_aux sep (DQ :: b) = (true, DQ :: hb, tb)) by (rewrite psplit_aux_cons, Eb; reflexivity).
  assert (E2 : psplit_aux sep (q ++ DQ :: b) = (true, q ++ DQ :: hb, tb)) by (apply psplit_aux_inq; assumption).
  assert (E3 : psplit_aux sep (DQ :: q ++ DQ :: b) = (false, DQ :: q ++ DQ :: hb, tb)) by (rewrite psplit_aux_cons, E2; reflexivity).
  unfold psplit in *. rewrite (psplit_aux_app_even a _ _ _ E3). destruct (psplit_aux sep a) as [[oa ha] ta].
  destruct ta as [|x ta]; cbn [glue fst snd].
  - (* a is one piece *)
    destruct pa as [|y pa]; [|destruct pa; discriminate]. cbn [app] in Pa. injection Pa as ->. reflexivity.
  - assert (L : ha :: x :: ta = (ha :: removelast (x :: ta)) ++ [last (x :: ta) []]).
    { change (ha :: x :: ta) with ([ha] ++ (x :: ta)). rewrite (app_removelast_last [] (l := x :: ta)) at 1 by discriminate.
      reflexivity. }
    rewrite L in Pa. apply app_inj_tail in Pa as [<- <-]. cbn [app]. rewrite <- app_assoc. reflexivity.
Qed.
End PSplit.

(* ================= strip ================= *)
Definition ends_ok (l : bytes) : bool :=
  match l with [] => true | c :: _ => negb (is_bws c) end &&
  match rev l with [] => true | c :: _ => negb (is_bws c) end.

Lemma strip_ends_ok l : ends_ok l = true -> strip l = l.
Proof.
  unfold ends_ok. rewrite andb_true_iff. intros [H1 H2]. unfold strip, strip_by, rstrip_by.
  assert (L : lstrip_by is_bws l = l).
  { apply lstrip_by_id. destruct l as [|c l]; [exact I | apply negb_true_iff, H1]. }
  rewrite L, lstrip_by_id; [apply rev_involutive|]. destruct (rev l) as [|c r]; [exact I | apply negb_true_iff, H2].
Qed.

Lemma strip_sp_cons l : strip (SP :: l) = strip l.
Proof. reflexivity. Qed.

Lemma ends_ok_app a b : a <> [] -> b <> [] -> ends_ok (a ++ b) =
  match a with c :: _ => negb (is_bws c) | [] => true end && match rev b with c :: _ => negb (is_bws c) | [] => true end.
Proof.
  intros Ha Hb. unfold ends_ok. rewrite rev_app_distr. destruct a as [|c a]; [congruence|].
  destruct (rev b) as [|d r] eqn:R; [|reflexivity].
  apply (f_equal (@rev byte)) in R. rewrite rev_involutive in R. cbn in R. congruence.
Qed.

(* ================= one parameter: parseparam (formatparam k v) ================= *)
Lemma partition1_app sep a b : nosep sep a = true -> partition1 sep (a ++ sep :: b) = (a, b).
Proof.
  induction a as [|c a IH]; cbn [app partition1 nosep forallb].
  - intros _. rewrite beq_refl. reflexivity.
  - rewrite andb_true_iff, negb_true_iff. intros [E N]. rewrite E. fold (nosep sep a) in N. rewrite (IH N). reflexivity.
Qed.
Lemma partition1_none sep a : nosep sep a = true -> partition1 sep a = (a, []).
Proof.
  induction a as [|c a IH]; cbn [partition1 nosep forallb]; [reflexivity|].
  rewrite andb_true_iff, negb_true_iff. intros [E N]. rewrite E. fold (nosep sep a) in N. rewrite (IH N). reflexivity.
Qed.

Lemma nosep_app sep a b : nosep sep (a ++ b) = nosep sep a && nosep sep b.
Proof. apply forallb_app. Qed.

Lemma lower_app a b : lower (a ++ b) = lower a ++ lower b.
Proof. apply map_app. Qed.

(* a parameter name that comes back as itself *)
Definition key_ok (k : bytes) : bool :=
  nonempty_b k && ends_ok k && nosep EQ k && nosep SEMI k && nosep COMMA k && nosep DQ k && nosep STAR k &&
  bytes_eqb (lower k) k.

Lemma key_ok_inv k : key_ok k = true ->
  k <> [] /\ ends_ok k = true /\ nosep EQ k = true /\ nosep SEMI k = true /\ nosep COMMA k = true /\
  nosep DQ k = true /\ nosep STAR k = true /\ lower k = k.
Proof.
  unfold key_ok. rewrite !andb_true_iff, bytes_eqb_eq. intros [[[[[[[H1 H2] H3] H4] H5] H6] H7] H8].
  repeat split; try assumption. destruct k; [discriminate | discriminate].
Qed.

Lemma unescape_key_id ck k : ends_ok k = true -> lower k = k -> unescape_key ck k = k.
Proof.
  intros He Hl. unfold unescape_key. rewrite (strip_ends_ok k He), Hl.
  destruct ck; [destruct (existsb (bytes_eqb k) COOKIE_LOWER_KEYS)|]; reflexivity.
Qed.

(* an unquoted value: parsed as it stands *)
Lemma unescape_param_plain tsp v : has_tsp tsp v = false -> (prefixb [DQ] v && suffixb [DQ] v) = false ->
  unescape_param tsp v = Some (v, false).
Proof. intros H1 H2. unfold unescape_param. rewrite H2, H1. reflexivity. Qed.

Lemma prefixb_dq_nosep v : nosep DQ v = true -> prefixb [DQ] v = false.
Proof.
  destruct v as [|c v]; [reflexivity|]. cbn [nosep forallb prefixb]. rewrite andb_true_iff, negb_true_iff.
  intros [H _]. rewrite beq_sym, H. reflexivity.
Qed.

Lemma parseparam_plain tsp ck k v : ends_ok k = true -> lower k = k -> nosep EQ k = true ->
  ends_ok v = true -> has_tsp tsp v = false -> prefixb [DQ] v = false ->
  parseparam tsp ck (k ++ EQ :: v) = Some (k, v, false).
Proof.
  intros Hk1 Hk2 Hk3 Hv1 Hv2 Hv3. unfold parseparam. rewrite (partition1_app EQ k v Hk3), (strip_ends_ok v Hv1).
  rewrite unescape_param_plain by (try assumption; rewrite Hv3; reflexivity).
  rewrite (unescape_key_id ck k Hk1 Hk2). reflexivity.
Qed.

Lemma parseparam_bare tsp ck k : ends_ok k = true -> lower k = k -> nosep EQ k = true ->
  parseparam tsp ck k = Some (k, [], false).
Proof.
  intros Hk1 Hk2 Hk3. unfold parseparam. rewrite (partition1_none EQ k Hk3). cbn [strip strip_by rstrip_by lstrip_by rev app].
  unfold unescape_param. cbn [prefixb andb has_tsp existsb]. rewrite (unescape_key_id ck k Hk1 Hk2). reflexivity.
Qed.

Lemma nosep_dq_escape v : nosep DQ v = true -> nosep DQ (escape_q v) = true.
Proof.
  induction v as [|c v IH]; [reflexivity|]. cbn [nosep forallb]. rewrite andb_true_iff, negb_true_iff. intros [Hc Hv].
  rewrite escape_q_cons, nosep_app, (IH Hv), andb_true_r, Hc. destruct (beq c BSL) eqn:E.
  - reflexivity.
  - cbn [nosep forallb]. rewrite Hc. reflexivity.
Qed.

Lemma suffixb_snoc c l : suffixb [c] (l ++ [c]) = true.
Proof. unfold suffixb. rewrite rev_app_distr. cbn [rev app prefixb]. rewrite beq_refl. reflexivity. Qed.

Lemma removelast_snoc {A} (l : list A) x : removelast (l ++ [x]) = l.
Proof. apply removelast_last. Qed.

Lemma ends_ok_quoted q : ends_ok (DQ :: q ++ [DQ]) = true.
Proof.
  unfold ends_ok. change (DQ :: q ++ [DQ]) with ((DQ :: q) ++ [DQ]). rewrite rev_app_distr. reflexivity.
Qed.

Lemma parseparam_quoted tsp ck k v : ends_ok k = true -> lower k = k -> nosep EQ k = true -> clean_q v = true ->
  parseparam tsp ck (k ++ [EQ; DQ] ++ escape_q v ++ [DQ]) = Some (k, v, true).
Proof.
  intros Hk1 Hk2 Hk3 Hv. unfold parseparam. change (k ++ [EQ; DQ] ++ escape_q v ++ [DQ]) with (k ++ EQ :: (DQ :: escape_q v ++ [DQ])).
  rewrite (partition1_app EQ k _ Hk3), (strip_ends_ok _ (ends_ok_quoted _)).
  unfold unescape_param. cbn [prefixb]. rewrite beq_refl. cbn [andb].
  change (DQ :: escape_q v ++ [DQ]) with ((DQ :: escape_q v) ++ [DQ]). rewrite suffixb_snoc.
  unfold mid. cbn [tl app]. rewrite removelast_snoc, (unesc_escape v Hv), (unescape_key_id ck k Hk1 Hk2). reflexivity.
Qed.

(* a value given as octets (ASCII text or bytes): what it needs to come back.
   quoted (contains a tspecial): no double quote, no backslash pair (D17);
   unquoted: no separator the element or list splitters look for, no quote, no leading/trailing whitespace
   (for the generic class the first three follow from the tspecials test: lemma generic_plain_ok) *)
Definition val_ok (tsp : N) (v : bytes) : bool :=
  if has_tsp tsp v then clean_q v
  else nosep DQ v && nosep SEMI v && nosep COMMA v && ends_ok v.

Theorem parseparam_fmt_kv tsp ck k v : key_ok k = true -> val_ok tsp v = true -> v <> [] ->
  parseparam tsp ck (fmt_kv tsp k v) = Some (k, v, has_tsp tsp v).
Proof.
  intros Hk Hv Hne. apply key_ok_inv in Hk as [_ [K1 [K2 [_ [_ [_ [_ K3]]]]]]]. unfold fmt_kv, val_ok in *.
  destruct (has_tsp tsp v) eqn:T.
  - apply parseparam_quoted; assumption.
  - rewrite !andb_true_iff in Hv. destruct Hv as [[[V1 V2] V3] V4].
    change (k ++ [EQ] ++ v) with (k ++ EQ :: v). apply parseparam_plain; try assumption. apply prefixb_dq_nosep, V1.
Qed.

(* separators inside a formatted parameter are protected *)
Lemma EQ_not : beq EQ DQ = false /\ beq EQ SEMI = false /\ beq EQ COMMA = false.
Proof. repeat split. Qed.

Lemma fmt_kv_solid sep tsp k v : beq sep DQ = false -> (beq sep EQ = false) ->
  nosep DQ k = true -> nosep sep k = true ->
  (if has_tsp tsp v then nosep DQ v else nosep DQ v && nosep sep v) = true ->
  solid sep (fmt_kv tsp k v).
Proof.
  intros S1 S2 K1 K2 Hv. unfold fmt_kv. destruct (has_tsp tsp v).
  - replace (k ++ [EQ; DQ] ++ escape_q v ++ [DQ]) with ((k ++ [EQ]) ++ (DQ :: escape_q v ++ [DQ]))
      by (rewrite <- app_assoc; reflexivity).
    apply solid_app.
    + apply solid_plain.
      * rewrite nosep_app, K1. reflexivity.
      * rewrite nosep_app, K2. cbn [nosep forallb andb]. rewrite beq_sym, S2. reflexivity.
    + apply solid_quoted. apply nosep_dq_escape, Hv.
  - apply andb_true_iff in Hv as [V1 V2]. apply solid_plain; rewrite !nosep_app.
    + rewrite K1, V1. reflexivity.
    + rewrite K2, V2. cbn [nosep forallb andb]. rewrite beq_sym, S2. reflexivity.
Qed.

(* ================= RFC 5987 extended values ================= *)
Definition ext_char (c : byte) : bool := eff_safe PCT_DEFAULT_SAFE c || is_upper_hex c || beq c PCT.
Definition EXT_CS : bytes := removelast (removelast EXT_PREFIX).

Lemma ext_prefix_ok :
  EXT_PREFIX = EXT_CS ++ [SQ; SQ] /\ nosep SQ EXT_CS = true /\ assoc EXT_CS CHARSETS = Some 0 /\
  prefixb [SQ] EXT_PREFIX = false /\ prefixb [DQ] EXT_PREFIX = false /\ EXT_PREFIX <> [] /\
  match EXT_PREFIX with c :: _ => negb (is_bws c) | [] => false end = true /\
  nosep DQ EXT_PREFIX = true /\ nosep SEMI EXT_PREFIX = true /\ nosep COMMA EXT_PREFIX = true.
Proof. vm_compute. repeat split; try reflexivity. discriminate. Qed.

Lemma ext_char_plain c : ext_char c = true ->
  negb (beq c SQ) && negb (beq c DQ) && negb (beq c SEMI) && negb (beq c COMMA) && negb (is_bws c) = true.
Proof. revert c. apply byte_impl. vm_compute. reflexivity. Qed.

(* the tspecials class of an element class must not contain an octet of an extended value (both classes qualify) *)
Definition tsp_ok (tsp : N) : bool :=
  forallb (fun c => implb (ext_char c || existsb (beq c) EXT_PREFIX) (negb (inmask tsp c))) all_bytes.
Lemma tsp_ok_generic : tsp_ok TSPECIALS = true.
Proof. vm_compute. reflexivity. Qed.
Lemma tsp_ok_cookie : tsp_ok COOKIE_TSPECIALS = true.
Proof. vm_compute. reflexivity. Qed.

Lemma quote_chars v safe d : v = Repaired \/ no_low_unsafe safe d = true ->
  forallb (fun c => eff_safe safe c || is_upper_hex c || beq c PCT) (quote v safe d) = true.
Proof.
  intros Hv. assert (E : quote v safe d = quote Repaired safe d).
  { destruct Hv as [-> | H]; [reflexivity|]. destruct v; [apply quote_asfound_eq, H | reflexivity]. }
  rewrite E. clear. induction d as [|c d IH]; [reflexivity|]. rewrite quote_cons, forallb_app, IH, andb_true_r.
  unfold quote1. destruct (eff_safe safe c) eqn:S; cbn [esc forallb].
  - rewrite S. reflexivity.
  - rewrite hexU_hi, hexU_lo, beq_refl, !orb_true_r. reflexivity.
Qed.

Lemma forallb_impl' {A} (p q : A -> bool) l : (forall x, p x = true -> q x = true) -> forallb p l = true -> forallb q l = true.
Proof. intros H. rewrite !forallb_forall. intros F x Hx. apply H, F, Hx. Qed.

Lemma ext_chars_nosep x l : (forall c, ext_char c = true -> negb (beq c x) = true) ->
  forallb ext_char l = true -> nosep x l = true.
Proof. intros H. apply forallb_impl', H. Qed.

Lemma ext_char_not c x : ext_char c = true ->
  (x = SQ \/ x = DQ \/ x = SEMI \/ x = COMMA) -> negb (beq c x) = true.
Proof.
  intros H Hx. pose proof (ext_char_plain c H) as P. rewrite !andb_true_iff in P.
  destruct P as [[[[P1 P2] P3] P4] _]. destruct Hx as [-> | [-> | [-> | ->]]]; assumption.
Qed.

Lemma count1_app c a b : count1 c (a ++ b) = (count1 c a + count1 c b)%nat.
Proof. induction a as [|x a IH]; [reflexivity|]. cbn [app count1]. rewrite IH. lia. Qed.

Lemma has_tsp_app tsp a b : has_tsp tsp (a ++ b) = has_tsp tsp a || has_tsp tsp b.
Proof. apply existsb_app. Qed.

Lemma has_tsp_false tsp l : forallb (fun c => negb (inmask tsp c)) l = true -> has_tsp tsp l = false.
Proof.
  unfold has_tsp. induction l as [|c l IH]; [reflexivity|]. cbn [forallb existsb]. rewrite andb_true_iff, negb_true_iff.
  intros [-> H]. apply IH, H.
Qed.

Lemma tsp_ok_char tsp c : tsp_ok tsp = true -> (ext_char c || existsb (beq c) EXT_PREFIX) = true -> inmask tsp c = false.
Proof.
  intros T H. pose proof (forall_byte _ T c) as I. cbv beta in I. rewrite H in I. apply negb_true_iff, I.
Qed.

Lemma existsb_self (c : byte) l : In c l -> existsb (beq c) l = true.
Proof. intros H. apply existsb_exists. exists c. split; [exact H | apply beq_refl]. Qed.

Lemma ext_value_no_tsp tsp qd : tsp_ok tsp = true -> forallb ext_char qd = true -> has_tsp tsp (EXT_PREFIX ++ qd) = false.
Proof.
  intros T Q. rewrite has_tsp_app. apply orb_false_iff. split; apply has_tsp_false; apply forallb_forall; intros c Hc; apply negb_true_iff.
  - apply (tsp_ok_char tsp c T). rewrite (existsb_self c _ Hc). apply orb_true_r.
  - apply (tsp_ok_char tsp c T). rewrite forallb_forall in Q. rewrite (Q c Hc). reflexivity.
Qed.

Lemma forallb_rev {A} (p : A -> bool) l : forallb p (rev l) = forallb p l.
Proof. induction l as [|x l IH]; [reflexivity|]. cbn [rev forallb]. rewrite forallb_app, IH. cbn [forallb]. rewrite andb_true_r, andb_comm. reflexivity. Qed.

Lemma rcut1_none sep l : nosep sep l = true -> rcut1 sep l = None.
Proof. intros H. unfold rcut1. rewrite cut1_nosep_none; [reflexivity|]. unfold nosep. rewrite forallb_rev. exact H. Qed.

Lemma last_ext_not_ws l : l <> [] -> forallb ext_char l = true ->
  match rev l with c :: _ => negb (is_bws c) | [] => true end = true.
Proof.
  intros Hne H. destruct (rev l) as [|c r] eqn:R; [reflexivity|].
  assert (I : In c l) by (apply in_rev; rewrite R; left; reflexivity).
  rewrite forallb_forall in H. pose proof (ext_char_plain c (H c I)) as P. rewrite !andb_true_iff in P. apply P.
Qed.

(* ================= the RFC 2231 / 5987 pass over the parsed parameters ================= *)
Section R2231.
Variable cs_other : bytes -> bytes -> option bytes.

(* what a parsed parameter (key, value, quoted) turns into *)
Inductive item_out : bytes * bytes * bool -> bytes * bytes -> Prop :=
| io_plain k v q : nosep STAR k = true -> item_out (k, v, q) (k, latin1_to_utf8 v)
| io_ext k qd : nosep STAR k = true -> forallb ext_char qd = true -> utf8_valid (unquote qd) = true ->
    item_out (k ++ [STAR], EXT_PREFIX ++ qd, false) (k, unquote qd).

Definition raw_key (it : bytes * bytes * bool) : bytes := fst (fst it).

Lemma existsb_star_snoc k : existsb (fun c => beq c STAR) (k ++ [STAR]) = true.
Proof. rewrite existsb_app. cbn. apply orb_true_r. Qed.

Lemma existsb_star_none k : nosep STAR k = true -> existsb (fun c => beq c STAR) k = false.
Proof.
  induction k as [|c k IH]; [reflexivity|]. cbn [nosep forallb existsb]. rewrite andb_true_iff, negb_true_iff.
  intros [-> H]. apply IH, H.
Qed.

Lemma r2231_items its : forall outs seen out,
  Forall2 item_out its outs -> NoDup (map raw_key its) ->
  (forall it, In it its -> existsb (bytes_eqb (raw_key it)) seen = false) ->
  r2231 cs_other its seen [] out = Some (out ++ outs).
Proof.
  induction its as [|it its IH]; intros outs seen out F N S; inversion F as [|? o ? outs' Ho F']; subst.
  - cbn. rewrite app_nil_r. reflexivity.
  - inversion N as [|? ? Nk N']; subst.
    assert (S' : forall k0, raw_key it = k0 -> forall it', In it' its -> existsb (bytes_eqb (raw_key it')) (k0 :: seen) = false).
    { intros k0 <- it' I'. cbn [existsb]. rewrite (S it' (or_intror I')), orb_false_r.
      apply bytes_eqb_neq. intros E. apply Nk. rewrite <- E. apply in_map, I'. }
    pose proof (S it (or_introl eq_refl)) as Sk.
    destruct Ho as [k v q Hk | k qd Hk Hq Hu]; cbn [raw_key fst] in *; cbn [r2231]; rewrite Sk.
    + rewrite (existsb_star_none k Hk). rewrite (IH outs' (k :: seen) (out ++ [(k, latin1_to_utf8 v)]) F' N' (S' k eq_refl)).
      rewrite <- app_assoc. reflexivity.
    + destruct ext_prefix_ok as [E1 [E2 [E3 [E4 _]]]].
      rewrite existsb_star_snoc, suffixb_snoc. cbn [negb andb].
      assert (P : prefixb [SQ] (EXT_PREFIX ++ qd) = false).
      { destruct EXT_PREFIX as [|c p]; [discriminate|]. exact E4. }
      rewrite P. cbn [negb andb].
      assert (C : Nat.leb 2 (count1 SQ (EXT_PREFIX ++ qd)) = true).
      { apply Nat.leb_le. rewrite E1, !count1_app. cbn [count1]. rewrite beq_refl. lia. }
      rewrite C. rewrite E1, <- app_assoc. cbn [app]. rewrite (cut1_app SQ EXT_CS (SQ :: qd) E2).
      cbn [cut1]. rewrite beq_refl. unfold decode_cs. rewrite E3. cbn [N.eqb]. rewrite Hu.
      rewrite removelast_snoc, (rcut1_none STAR k Hk).
      rewrite (IH outs' ((k ++ [STAR]) :: seen) (out ++ [(k, unquote qd)]) F' N' (S' _ eq_refl)).
      rewrite <- app_assoc. reflexivity.
Qed.
End R2231.

(* dict(params) of parameters with distinct names is the list itself *)
Lemma to_dict_distinct l : NoDup (map fst l) -> to_dict l = l.
Proof.
  unfold to_dict. assert (G : forall acc, NoDup (map fst l) -> (forall kv, In kv l -> hget (fst kv) acc = None) ->
    fold_left (fun d kv => hset (fst kv) (snd kv) d) l acc = acc ++ l).
  { induction l as [|[k v] l IH]; intros acc N A; [cbn; rewrite app_nil_r; reflexivity|].
    inversion N as [|? ? Nk N']; subst. cbn [fold_left fst snd].
    rewrite (hset_absent k v acc (A (k, v) (or_introl eq_refl))), (IH _ N').
    - rewrite <- app_assoc. reflexivity.
    - intros [k2 v2] I2. cbn [fst]. rewrite hget_app_other; [apply (A (k2, v2)); right; exact I2|].
      intros ->. apply Nk. apply (in_map fst) in I2. exact I2. }
  intros N. apply (G [] N). reflexivity.
Qed.

(* ================= one text parameter, formatted and parsed back ================= *)
Definition pct_ok (pv : variant) (u : bytes) : bool :=
  match pv with Repaired => true | AsFound => no_low_unsafe PCT_DEFAULT_SAFE u end.

(* a str parameter value that comes back: ASCII text as [val_ok]; any other text always after the D1 repair,
   and on the pinned tree when no character below U+0010 occurs; lone surrogates cannot be composed at all *)
Definition pval_ok (tsp : N) (pv : variant) (t : text) : bool :=
  match t with
  | [] => true
  | _ => if is_ascii_text t then val_ok tsp (latin1_enc t)
         else match utf8_enc t with Some u => pct_ok pv u | None => false end
  end.

Lemma ascii_text_latin1 t : is_ascii_text t = true -> is_latin1 t = true.
Proof.
  unfold is_ascii_text, is_latin1. apply forallb_impl'. intros x H. apply N.ltb_lt in H. apply N.ltb_lt. lia.
Qed.

Lemma unquote_quote_pv pv u : pct_ok pv u = true -> unquote (quote pv PCT_DEFAULT_SAFE u) = u.
Proof. destruct pv; cbn [pct_ok]; intros H; [apply unquote_quote_asfound, H | apply unquote_quote]. Qed.

Lemma quote_nonempty pv safe u : u <> [] -> quote pv safe u <> [].
Proof.
  destruct u as [|c u]; [congruence|]. intros _. rewrite quote_cons. unfold quote1.
  destruct (eff_safe safe c); [discriminate|]. destruct pv; cbn [esc]; [destruct (bN c <? 16)|]; discriminate.
Qed.

Lemma utf8_enc_nonempty t u : t <> [] -> utf8_enc t = Some u -> u <> [].
Proof.
  destruct t as [|cp t]; [congruence|]. intros _. cbn [utf8_enc]. unfold utf8_enc1.
  destruct (cp <? 128); [|destruct (cp <? 2048); [|destruct (cp <? 65536); [destruct ((55296 <=? cp) && (cp <=? 57343)) |destruct (cp <? 1114112)]]];
    try discriminate; destruct (utf8_enc t); try discriminate; intros H; injection H as <-; discriminate.
Qed.

Lemma STAR_facts : beq STAR EQ = false /\ is_bws STAR = false /\ to_lower STAR = STAR.
Proof. repeat split. Qed.

Lemma ends_ok_first k : k <> [] -> ends_ok k = true -> match k with c :: _ => negb (is_bws c) | [] => true end = true.
Proof. unfold ends_ok. intros _ H. apply andb_true_iff in H as [H _]. exact H. Qed.
Lemma ends_ok_last k : ends_ok k = true -> match rev k with c :: _ => negb (is_bws c) | [] => true end = true.
Proof. unfold ends_ok. intros H. apply andb_true_iff in H as [_ H]. exact H. Qed.

Record par_spec (tsp : N) (ck : bool) (k : bytes) (atom : bytes) (it : bytes * bytes * bool) (u : bytes) : Prop := {
  ps_parse : parseparam tsp ck atom = Some it;
  ps_out : item_out it (k, u);
  ps_key : raw_key it = k \/ raw_key it = k ++ [STAR];
  ps_ends : ends_ok atom = true;
  ps_ne : atom <> [];
  ps_semi : solid SEMI atom;
  ps_comma : solid COMMA atom;
}.

Lemma fmt_kv_ends tsp k v : k <> [] -> ends_ok k = true -> v <> [] -> (has_tsp tsp v = false -> ends_ok v = true) ->
  ends_ok (fmt_kv tsp k v) = true /\ fmt_kv tsp k v <> [].
Proof.
  intros Hk Ek Hv Ev. unfold fmt_kv. destruct (has_tsp tsp v).
  - split; [|destruct k; [congruence | discriminate]].
    rewrite ends_ok_app; [|exact Hk | discriminate]. rewrite (ends_ok_first k Hk Ek). cbn [andb].
    replace ([EQ; DQ] ++ escape_q v ++ [DQ]) with (([EQ; DQ] ++ escape_q v) ++ [DQ]) by (rewrite <- app_assoc; reflexivity).
    rewrite rev_app_distr. reflexivity.
  - split; [|destruct k; [congruence | discriminate]].
    rewrite ends_ok_app; [|exact Hk | discriminate]. rewrite (ends_ok_first k Hk Ek). cbn [andb].
    change ([EQ] ++ v) with ([EQ] ++ v). rewrite rev_app_distr.
    pose proof (ends_ok_last v (Ev eq_refl)) as L. destruct (rev v) as [|c r] eqn:R; [|exact L].
    apply (f_equal (@rev byte)) in R. rewrite rev_involutive in R. cbn in R. congruence.
Qed.

Lemma nosep_ext_atom x k p qd : nosep x ((k ++ [STAR]) ++ EQ :: p ++ qd) =
  nosep x k && negb (beq STAR x) && negb (beq EQ x) && nosep x p && nosep x qd.
Proof.
  change (EQ :: p ++ qd) with ([EQ] ++ p ++ qd). rewrite !nosep_app. cbn [nosep forallb]. rewrite !andb_true_r, !andb_assoc. reflexivity.
Qed.

Theorem param_roundtrip tsp ck pv k t : tsp_ok tsp = true -> key_ok k = true -> pval_ok tsp pv t = true ->
  exists atom it u, formatparam tsp pv k (PT t) = Some atom /\ utf8_enc t = Some u /\ par_spec tsp ck k atom it u.
Proof.
  intros T Hk Hv. pose proof Hk as Hk'. apply key_ok_inv in Hk' as [K0 [K1 [K2 [K3 [K4 [K5 [K6 K7]]]]]]].
  destruct t as [|cp t'] eqn:Et.
  - (* empty text: the bare name *)
    exists k, (k, [], false), []. split; [reflexivity|]. split; [reflexivity|]. constructor.
    + apply parseparam_bare; assumption.
    + apply (io_plain k [] false K6).
    + left. reflexivity.
    + exact K1.
    + exact K0.
    + apply solid_plain; assumption.
    + apply solid_plain; assumption.
  - rewrite <- Et in *. assert (Tne : t <> []) by (rewrite Et; discriminate).
    unfold pval_ok in Hv. rewrite Et in Hv. rewrite <- Et in Hv. unfold formatparam. rewrite Et. rewrite <- Et.
    destruct (is_ascii_text t) eqn:A.
    + (* ASCII text *)
      set (v := latin1_enc t) in *.
      assert (Vne : v <> []) by (unfold v, latin1_enc; rewrite Et; discriminate).
      exists (fmt_kv tsp k v), (k, v, has_tsp tsp v), (latin1_to_utf8 v).
      split; [reflexivity|]. split; [apply latin1_utf8, ascii_text_latin1, A|].
      assert (Ve : has_tsp tsp v = false -> ends_ok v = true).
      { intros Ht. unfold val_ok in Hv. rewrite Ht in Hv. rewrite !andb_true_iff in Hv. apply Hv. }
      destruct (fmt_kv_ends tsp k v K0 K1 Vne Ve) as [E1 E2].
      constructor; try assumption.
      * apply parseparam_fmt_kv; assumption.
      * apply (io_plain k v _ K6).
      * left. reflexivity.
      * apply fmt_kv_solid; try reflexivity; try assumption.
        unfold val_ok, clean_q in Hv. destruct (has_tsp tsp v); rewrite !andb_true_iff in Hv; [apply Hv|].
        destruct Hv as [[[V1 V2] V3] V4]. rewrite V1, V2. reflexivity.
      * apply fmt_kv_solid; try reflexivity; try assumption.
        unfold val_ok, clean_q in Hv. destruct (has_tsp tsp v); rewrite !andb_true_iff in Hv; [apply Hv|].
        destruct Hv as [[[V1 V2] V3] V4]. rewrite V1, V3. reflexivity.
    + (* any other text: RFC 5987 extended notation *)
      destruct (utf8_enc t) as [u|] eqn:U; [|discriminate].
      set (qd := quote pv PCT_DEFAULT_SAFE u).
      assert (Q : forallb ext_char qd = true).
      { apply quote_chars. destruct pv; [right; exact Hv | left; reflexivity]. }
      assert (Qne : qd <> []) by (apply quote_nonempty, (utf8_enc_nonempty t u Tne U)).
      pose proof (ext_value_no_tsp tsp qd T Q) as NT.
      destruct ext_prefix_ok as [_ [_ [_ [_ [P5 [P6 [P7 [P8 [P9 P10]]]]]]]]].
      assert (Eext : ends_ok (EXT_PREFIX ++ qd) = true).
      { rewrite ends_ok_app by assumption. destruct EXT_PREFIX as [|c p]; [congruence|]. rewrite P7. cbn [andb].
        apply last_ext_not_ws; assumption. }
      assert (Kst : ends_ok (k ++ [STAR]) = true).
      { rewrite ends_ok_app by (try assumption; discriminate). rewrite (ends_ok_first k K0 K1). reflexivity. }
      exists ((k ++ [STAR]) ++ EQ :: (EXT_PREFIX ++ qd)), (k ++ [STAR], EXT_PREFIX ++ qd, false), u.
      split.
      { unfold fmt_kv. fold qd. rewrite NT. reflexivity. }
      split; [reflexivity|].
      assert (Sol : forall sep, beq sep DQ = false -> beq sep EQ = false -> beq sep STAR = false ->
                    nosep sep k = true -> nosep sep EXT_PREFIX = true ->
                    (forall c, ext_char c = true -> negb (beq c sep) = true) ->
                    solid sep ((k ++ [STAR]) ++ EQ :: EXT_PREFIX ++ qd)).
      { intros sep S1 S2 S3 S4 S5 S6. apply solid_plain.
        - rewrite nosep_ext_atom, K5, P8. cbn [beq negb andb]. apply (ext_chars_nosep DQ qd); [|exact Q].
          intros c Hc. apply ext_char_not; [exact Hc | right; left; reflexivity].
        - rewrite nosep_ext_atom, S4, (beq_sym STAR), S3, (beq_sym EQ), S2, S5. cbn [negb andb].
          apply (ext_chars_nosep sep qd S6 Q). }
      constructor.
      * apply parseparam_plain; try assumption.
        -- rewrite lower_app, K7. reflexivity.
        -- rewrite nosep_app, K2. reflexivity.
      * assert (UQ : unquote qd = u) by (apply unquote_quote_pv; destruct pv; [exact Hv | reflexivity]).
        rewrite <- UQ. apply io_ext; [exact K6 | exact Q|]. rewrite UQ. apply (utf8_valid_enc t u U).
      * right. reflexivity.
      * rewrite ends_ok_app; [| destruct k; discriminate | discriminate].
        destruct k as [|c k]; [congruence|]. cbn [app]. rewrite (ends_ok_first (c :: k) K0 K1). cbn [andb].
        change (EQ :: EXT_PREFIX ++ qd) with ([EQ] ++ (EXT_PREFIX ++ qd)). rewrite rev_app_distr.
        pose proof (ends_ok_last _ Eext) as L. destruct (rev (EXT_PREFIX ++ qd)) as [|d r] eqn:R; [|exact L].
        apply (f_equal (@rev byte)) in R. rewrite rev_involutive in R. cbn in R. destruct EXT_PREFIX; [congruence | discriminate].
      * destruct k; discriminate.
      * apply Sol; try reflexivity; try assumption. intros c Hc. apply ext_char_not; [exact Hc | right; right; left; reflexivity].
      * apply Sol; try reflexivity; try assumption. intros c Hc. apply ext_char_not; [exact Hc | right; right; right; reflexivity].
Qed.

(* ================= a whole element: value and parameters ================= *)
Definition value_ok (v : bytes) : bool :=
  nonempty_b v && nosep DQ v && nosep SEMI v && nosep COMMA v && ends_ok v.
Definition params_ok (tsp : N) (pv : variant) (ps : list (bytes * text)) : bool :=
  forallb (fun kt => key_ok (fst kt) && pval_ok tsp pv (snd kt)) ps && uniqb (map fst ps).
Definition as_pvals (ps : list (bytes * text)) : list (bytes * pval) := map (fun kt => (fst kt, PT (snd kt))) ps.

Definition wire (atoms : list bytes) : bytes := flat_map (fun a => SEMI :: SP :: a) atoms.

Lemma solid_sp_cons sep a : beq sep SP = false -> solid sep a -> solid sep (SP :: a).
Proof.
  intros S Ha. change (SP :: a) with ([SP] ++ a). apply solid_app; [|exact Ha].
  apply solid_plain; cbn [nosep forallb andb]; [reflexivity|]. rewrite beq_sym, S. reflexivity.
Qed.

Lemma psplit_aux_atoms atoms : forall x, solid SEMI x -> Forall (solid SEMI) atoms ->
  psplit_aux SEMI (x ++ wire atoms) = (false, x, map (cons SP) atoms).
Proof.
  induction atoms as [|a r IH]; intros x Hx F.
  - cbn [wire flat_map]. rewrite app_nil_r. exact Hx.
  - inversion F as [|? ? Ha F']; subst. cbn [wire flat_map map]. fold (wire r).
    change ((SEMI :: SP :: a) ++ wire r) with (SEMI :: ((SP :: a) ++ wire r)).
    apply psplit_aux_solid_sep; [reflexivity | exact Hx|]. apply IH; [|exact F'].
    apply solid_sp_cons; [reflexivity | exact Ha].
Qed.

Lemma all_some_l_map {A B} (f : A -> option B) l outs : Forall2 (fun a o => f a = Some o) l outs ->
  all_some_l (map f l) = Some outs.
Proof.
  induction 1 as [|a o l outs H F IH]; [reflexivity|]. cbn [map all_some_l]. rewrite H, IH. reflexivity.
Qed.

Lemma star_free_neq (k k' : bytes) : nosep STAR k = true -> k <> k' ++ [STAR].
Proof.
  intros H E. rewrite E, nosep_app in H. cbn in H. rewrite andb_false_r in H. discriminate.
Qed.

Section Elem.
Variable tsp : N.
Variable ck : bool.
Variable pv : variant.
Hypothesis T : tsp_ok tsp = true.

Lemma params_roundtrip ps : params_ok tsp pv ps = true ->
  exists atoms its outs,
    fmt_params tsp pv (as_pvals ps) = Some (wire atoms) /\
    Forall2 (fun a it => parseparam tsp ck a = Some it) atoms its /\
    Forall (fun a => ends_ok a = true /\ a <> [] /\ solid SEMI a /\ solid COMMA a) atoms /\
    Forall2 item_out its outs /\
    Forall2 (fun kt o => fst o = fst kt /\ utf8_enc (snd kt) = Some (snd o)) ps outs /\
    Forall2 (fun kt it => raw_key it = fst kt \/ raw_key it = fst kt ++ [STAR]) ps its.
Proof.
  unfold params_ok. rewrite andb_true_iff. intros [F _]. induction ps as [|[k t] ps IH].
  - exists [], [], []. repeat split; constructor.
  - cbn [forallb fst snd] in F. rewrite !andb_true_iff in F. destruct F as [[Hk Hv] F].
    destruct (IH F) as [atoms [its [outs [A1 [A2 [A3 [A4 [A5 A6]]]]]]]].
    destruct (param_roundtrip tsp ck pv k t T Hk Hv) as [atom [it [u [B1 [B2 B3]]]]].
    exists (atom :: atoms), (it :: its), ((k, u) :: outs). repeat split.
    + cbn [as_pvals map fmt_params fst snd]. fold (as_pvals ps). rewrite B1, A1. reflexivity.
    + constructor; [apply B3 | exact A2].
    + constructor; [|exact A3]. repeat split; apply B3.
    + constructor; [apply B3 | exact A4].
    + constructor; [split; [reflexivity | exact B2] | exact A5].
    + constructor; [apply B3 | exact A6].
Qed.

Lemma raw_keys_nodup (ps : list (bytes * text)) its : forallb (fun kt => key_ok (fst kt)) ps = true -> NoDup (map fst ps) ->
  Forall2 (fun kt it => raw_key it = fst kt \/ raw_key it = fst kt ++ [STAR]) ps its -> NoDup (map raw_key its).
Proof.
  intros K N F. induction F as [|[k t] it ps its H F IH]; [constructor|].
  cbn [forallb fst] in K. apply andb_true_iff in K as [Kk K]. inversion N as [|? ? Nk N']; subst.
  apply key_ok_inv in Kk as [_ [_ [_ [_ [_ [_ [Ks _]]]]]]].
  cbn [map]. constructor; [|apply IH; assumption].
  intros I. apply in_map_iff in I as [it' [E I]].
  (* the parameter it' comes from some (k', t') in ps *)
  assert (G : exists kt', In kt' ps /\ (raw_key it' = fst kt' \/ raw_key it' = fst kt' ++ [STAR])).
  { clear - F I. induction F as [|kt it0 ps its H F IH]; [contradiction|]. destruct I as [<- | I].
    - exists kt. split; [left; reflexivity | exact H].
    - destruct (IH I) as [kt' [I' H']]. exists kt'. split; [right; exact I' | exact H']. }
  destruct G as [[k' t'] [I' H']]. cbn [fst] in *.
  assert (Ks' : nosep STAR k' = true).
  { rewrite forallb_forall in K. specialize (K _ I'). cbn [fst] in K. apply key_ok_inv in K. apply K. }
  assert (k = k').
  { rewrite E in H'. destruct H as [H | H], H' as [H' | H']; rewrite H in H'.
    - exact H'.
    - exfalso. exact (star_free_neq _ _ Ks H').
    - exfalso. exact (star_free_neq _ _ Ks' (eq_sym H')).
    - apply app_inj_tail in H' as [H' _]. exact H'. }
  subst k'. apply Nk. apply (in_map fst) in I'. exact I'.
Qed.

Section Parse.
Variable vew : variant.
Variable dechdr : bytes -> option bytes.
Variable cs_other : bytes -> bytes -> option bytes.

Theorem elem_roundtrip value ps : value_ok value = true -> params_ok tsp pv ps = true ->
  exists composed outs,
    compose_raw tsp pv value (as_pvals ps) = Some composed /\
    Forall2 (fun kt o => fst o = fst kt /\ utf8_enc (snd kt) = Some (snd o)) ps outs /\
    (looks_encoded vew composed = false ->
       parse_elem vew dechdr cs_other tsp ck composed = Some (latin1_to_utf8 value, outs)) /\
    solid COMMA composed /\ ends_ok composed = true.
Proof.
  intros Hv Hp. destruct (params_roundtrip ps Hp) as [atoms [its [outs [A1 [A2 [A3 [A4 [A5 A6]]]]]]]].
  unfold value_ok in Hv. rewrite !andb_true_iff in Hv. destruct Hv as [[[[V0 V1] V2] V3] V4].
  assert (Vne : value <> []) by (destruct value; [discriminate | discriminate]).
  unfold params_ok in Hp. apply andb_true_iff in Hp as [Hp1 Hp2].
  assert (Hkeys : forallb (fun kt => key_ok (fst kt)) ps = true).
  { eapply forallb_impl'; [|exact Hp1]. intros x Hx. apply andb_true_iff in Hx. apply Hx. }
  exists (value ++ wire atoms), outs. split; [unfold compose_raw; rewrite A1; reflexivity|].
  split; [exact A5|].
  assert (SolS : Forall (solid SEMI) atoms) by (eapply Forall_impl; [|exact A3]; intros a Ha; apply Ha).
  split; [|split].
  - intros LE. unfold parse_elem, pre_decode. rewrite LE. unfold parseparams, psplit.
    rewrite (psplit_aux_atoms atoms value (solid_plain SEMI value V1 V2) SolS).
    cbn [map]. rewrite (strip_ends_ok value V4), map_map.
    assert (M : map (fun a => strip (SP :: a)) atoms = atoms).
    { clear - A3. induction A3 as [|a r [H _] F IH]; [reflexivity|]. cbn [map]. rewrite strip_sp_cons, (strip_ends_ok a H), IH. reflexivity. }
    rewrite M. cbn [filter]. rewrite V0.
    assert (Fl : filter nonempty_b atoms = atoms).
    { clear - A3. induction A3 as [|a r [_ [H _]] F IH]; [reflexivity|]. cbn [filter]. destruct a; [congruence|]. cbn [nonempty_b]. rewrite IH. reflexivity. }
    rewrite Fl. rewrite (all_some_l_map _ _ _ A2).
    rewrite (r2231_items cs_other its outs [] [] A4).
    + cbn [app]. rewrite to_dict_distinct; [reflexivity|].
      assert (E : map fst outs = map fst ps).
      { clear - A5. induction A5 as [|kt o ps outs [H _] F IH]; [reflexivity|]. cbn [map]. rewrite H, IH. reflexivity. }
      rewrite E. apply uniqb_NoDup, Hp2.
    + apply (raw_keys_nodup ps its Hkeys (uniqb_NoDup _ Hp2) A6).
    + intros it _. reflexivity.
  - (* commas occur inside quoted strings only *)
    apply solid_app; [apply solid_plain; assumption|].
    clear - A3. induction A3 as [|a r [_ [_ [_ H]]] F IH]; [apply solid_nil|]. cbn [wire flat_map]. fold (wire r).
    change ((SEMI :: SP :: a) ++ wire r) with ([SEMI; SP] ++ (a ++ wire r)).
    apply solid_app; [apply solid_plain; reflexivity|]. apply solid_app; assumption.
  - (* no leading or trailing whitespace *)
    assert (L : forall x, x <> [] -> ends_ok x = true -> ends_ok (x ++ wire atoms) = true).
    { clear - A3. induction A3 as [|a r [H1 [H2 _]] F IH]; intros x Hx Ex; [cbn [wire flat_map]; rewrite app_nil_r; exact Ex|].
      cbn [wire flat_map]. fold (wire r). 
      replace (x ++ (SEMI :: SP :: a) ++ wire r) with ((x ++ SEMI :: SP :: a) ++ wire r) by (rewrite <- app_assoc; reflexivity).
      apply IH; [destruct x; discriminate|].
      rewrite ends_ok_app; [|exact Hx | discriminate]. rewrite (ends_ok_first x Hx Ex). cbn [andb].
      change (SEMI :: SP :: a) with ([SEMI; SP] ++ a). rewrite rev_app_distr.
      pose proof (ends_ok_last a H1) as La. destruct (rev a) as [|c q] eqn:R; [|exact La].
      apply (f_equal (@rev byte)) in R. rewrite rev_involutive in R. cbn in R. congruence. }
    apply L; assumption.
Qed.
End Parse.
End Elem.

(* ================= lists of elements ================= *)
Lemma psplit_aux_joined r : forall e, Forall (solid COMMA) (e :: r) ->
  psplit_aux COMMA (join_with [COMMA; SP] (e :: r)) = (false, e, map (cons SP) r).
Proof.
  induction r as [|e2 r IH]; intros e F; inversion F as [|? ? He F']; subst.
  - exact He.
  - change (join_with [COMMA; SP] (e :: e2 :: r)) with (e ++ COMMA :: (SP :: join_with [COMMA; SP] (e2 :: r))).
    cbn [map]. apply psplit_aux_solid_sep; [reflexivity | exact He|].
    rewrite psplit_aux_cons, (IH e2 F'). reflexivity.
Qed.

Theorem list_split es : es <> [] -> Forall (fun e => solid COMMA e /\ ends_ok e = true) es ->
  esplit (join_with [COMMA; SP] es) = es.
Proof.
  intros Hne F. destruct es as [|e r]; [congruence|]. unfold esplit, psplit.
  rewrite psplit_aux_joined by (eapply Forall_impl; [|exact F]; intros a Ha; apply Ha).
  inversion F as [|? ? [_ He] F']; subst. cbn [map]. rewrite (strip_ends_ok e He). f_equal.
  rewrite map_map. clear - F'. induction F' as [|a r [_ H] F IH]; [reflexivity|].
  cbn [map]. rewrite strip_sp_cons, (strip_ends_ok a H), IH. reflexivity.
Qed.

(* ================= the generic class: what the tspecials test guarantees ================= *)
Lemma tspecials_cover : inmask TSPECIALS DQ = true /\ inmask TSPECIALS SEMI = true /\ inmask TSPECIALS COMMA = true /\
  inmask TSPECIALS BSL = true /\ inmask TSPECIALS EQ = true /\ inmask TSPECIALS SP = true.
Proof. vm_compute. repeat split. Qed.

Lemma no_tsp_nosep tsp x v : inmask tsp x = true -> has_tsp tsp v = false -> nosep x v = true.
Proof.
  intros Hx. unfold has_tsp. induction v as [|c v IH]; [reflexivity|]. cbn [existsb nosep forallb].
  intros H. apply orb_false_iff in H as [H1 H2]. fold (nosep x v). rewrite (IH H2), andb_true_r.
  destruct (beq c x) eqn:E; [|reflexivity]. apply beq_eq in E. subst. congruence.
Qed.

(* for the generic class: no double quote, no backslash pair, no leading/trailing whitespace is all a value needs *)
Lemma val_ok_generic v : clean_q v = true -> ends_ok v = true -> val_ok TSPECIALS v = true.
Proof.
  intros C E. unfold val_ok. destruct (has_tsp TSPECIALS v) eqn:H; [exact C|].
  destruct tspecials_cover as [T1 [T2 [T3 _]]].
  rewrite (no_tsp_nosep _ DQ v T1 H), (no_tsp_nosep _ SEMI v T2 H), (no_tsp_nosep _ COMMA v T3 H), E. reflexivity.
Qed.

(* ================= class-level corollaries ================= *)
Section Classes.
Variable vew : variant.
Variable dechdr : bytes -> option bytes.
Variable cs_other : bytes -> bytes -> option bytes.

Lemma parse_cls_generic s v ps : parse_elem vew dechdr cs_other TSPECIALS false s = Some (v, ps) ->
  parse_cls vew dechdr cs_other EGeneric s = PElem v None ps.
Proof. intros H. unfold parse_cls. cbn [cls_tsp cls_ckeys]. rewrite H. reflexivity. Qed.

Lemma parse_cls_ctype s v ps : parse_elem vew dechdr cs_other TSPECIALS false s = Some (v, ps) ->
  hget BOUNDARY ps = None -> parse_cls vew dechdr cs_other EContentType s = PElem v None ps.
Proof. intros H B. unfold parse_cls, ct_sanitize. cbn [cls_tsp cls_ckeys]. rewrite H, B. reflexivity. Qed.

Definition disp_value (v : bytes) : bool := bytes_eqb v ATTACHMENT || bytes_eqb v INLINE || bytes_eqb v FORM_DATA.
Definition disp_keys_ok (keys : list bytes) : bool :=
  negb (has_key INLINE keys) && negb (has_key ATTACHMENT keys) && negb (has_key FORM_DATA keys).

Lemma parse_cls_disp s v ps : parse_elem vew dechdr cs_other TSPECIALS false s = Some (v, ps) ->
  disp_value v = true -> disp_keys_ok (map fst ps) = true ->
  parse_cls vew dechdr cs_other EDisposition s = PElem v None ps.
Proof.
  intros H V K. unfold parse_cls. cbn [cls_tsp cls_ckeys]. rewrite H. unfold cd_sanitize.
  unfold disp_keys_ok in K. rewrite !andb_true_iff, !negb_true_iff in K. destruct K as [[K1 K2] K3].
  unfold disp_value in V. rewrite !orb_true_iff, !bytes_eqb_eq in V.
  destruct V as [[-> | ->] | ->]; vm_compute lower; cbn [bytes_eqb]; rewrite ?K1, ?K2, ?K3; reflexivity.
Qed.
End Classes.

(* ================= the excluded classes are really excluded: witnesses ================= *)
Section Refuted.
Variable dechdr : bytes -> option bytes.
Variable cs_other : bytes -> bytes -> option bytes.
Let parse := parse_elem Repaired dechdr cs_other TSPECIALS false.

(* D17: a double quote in a value *)
Lemma dquote_refuted : exists value ps composed,
  value_ok value = true /\ compose_raw TSPECIALS Repaired value (as_pvals ps) = Some composed /\
  looks_encoded Repaired composed = false /\
  parse composed <> Some (latin1_to_utf8 value, [( [x61], [x78; x22; x79] )]) /\ ps = [([x61], [0x78; 0x22; 0x79])].
Proof.
  exists [x76], [([x61], [0x78; 0x22; 0x79])]. eexists. split; [reflexivity|]. split; [vm_compute; reflexivity|].
  split; [vm_compute; reflexivity|]. split; [vm_compute; discriminate | reflexivity].
Qed.

(* D17: two adjacent backslashes in a value *)
Lemma backslash_refuted : exists value ps composed,
  value_ok value = true /\ compose_raw TSPECIALS Repaired value (as_pvals ps) = Some composed /\
  looks_encoded Repaired composed = false /\
  parse composed <> Some (latin1_to_utf8 value, [( [x61], [x5c; x5c] )]) /\ ps = [([x61], [0x5c; 0x5c])].
Proof.
  exists [x76], [([x61], [0x5c; 0x5c])]. eexists. split; [reflexivity|]. split; [vm_compute; reflexivity|].
  split; [vm_compute; reflexivity|]. split; [vm_compute; discriminate | reflexivity].
Qed.

(* D1 on the pinned tree: a character below U+0010 in a non-ASCII value *)
Lemma low_octet_refuted : exists value ps composed,
  value_ok value = true /\ compose_raw TSPECIALS AsFound value (as_pvals ps) = Some composed /\
  looks_encoded Repaired composed = false /\
  parse composed <> Some (latin1_to_utf8 value, [( [x61], [x01; xe2; x82; xac] )]) /\ ps = [([x61], [0x01; 0x20ac])].
Proof.
  exists [x76], [([x61], [0x01; 0x20ac])]. eexists. split; [reflexivity|]. split; [vm_compute; reflexivity|].
  split; [vm_compute; reflexivity|]. split; [vm_compute; discriminate | reflexivity].
Qed.

(* D33: cookie attribute values are never quoted: a semicolon splits *)
Lemma cookie_semicolon_refuted : exists value ps composed,
  value_ok value = true /\ compose_raw COOKIE_TSPECIALS Repaired value (as_pvals ps) = Some composed /\
  looks_encoded Repaired composed = false /\
  parse_elem Repaired dechdr cs_other COOKIE_TSPECIALS true composed <>
    Some (latin1_to_utf8 value, [( [x70; x61; x74; x68], [x2f; x61; x3b; x62] )]) /\
  ps = [([x70; x61; x74; x68], [0x2f; 0x61; 0x3b; 0x62])].
Proof.
  exists [x6e; x3d; x76], [([x70; x61; x74; x68], [0x2f; 0x61; 0x3b; 0x62])]. eexists. split; [reflexivity|].
  split; [vm_compute; reflexivity|]. split; [vm_compute; reflexivity|]. split; [vm_compute; discriminate | reflexivity].
Qed.

(* D16: the hypothesis on encoded-word openers is needed: this element in the property domain composes to
   something the RFC 2047 decoder is run over *)
Lemma encoded_word_hypothesis_needed : exists value ps composed,
  value_ok value = true /\ params_ok TSPECIALS Repaired ps = true /\
  compose_raw TSPECIALS Repaired value (as_pvals ps) = Some composed /\ looks_encoded Repaired composed = true.
Proof.
  exists [x76], [([x61], [0x78; 0x3d; 0x3f; 0x75; 0x3f; 0x62; 0x3f; 0x41; 0x3f; 0x3d])]. eexists.
  split; [reflexivity|]. split; [vm_compute; reflexivity|]. split; [vm_compute; reflexivity|]. vm_compute. reflexivity.
Qed.
End Refuted.

(* ================= cookies: name=value is re-parsed by the constructor ================= *)
Lemma l1u8_ascii l : forallb is_ascii l = true -> latin1_to_utf8 l = l.
Proof.
  induction l as [|c l IH]; [reflexivity|]. cbn [forallb]. rewrite andb_true_iff. intros [Hc Hl].
  cbn [latin1_to_utf8 flat_map]. fold (latin1_to_utf8 l). rewrite (IH Hl). unfold l1u8. unfold is_ascii in Hc. rewrite Hc. reflexivity.
Qed.
Lemma u8_to_l1_ascii l : forallb is_ascii l = true -> u8_to_l1 l = Some l.
Proof.
  induction l as [|c l IH]; [reflexivity|]. cbn [forallb]. rewrite andb_true_iff. intros [Hc Hl].
  cbn [u8_to_l1]. unfold is_ascii in Hc. rewrite Hc, (IH Hl). reflexivity.
Qed.

(* the cookie tspecials class is empty: nothing is ever quoted, nothing unquoted is ever refused *)
Lemma cookie_tsp_empty c : inmask COOKIE_TSPECIALS c = false.
Proof. revert c. apply (byte_bool_eq (inmask COOKIE_TSPECIALS) (fun _ => false)). vm_compute. reflexivity. Qed.
Lemma cookie_has_tsp v : has_tsp COOKIE_TSPECIALS v = false.
Proof. apply has_tsp_false. apply forallb_forall. intros c _. rewrite cookie_tsp_empty. reflexivity. Qed.

(* a cookie name / value that the attribute parser returns unchanged *)
Definition cookie_name_ok (n : bytes) : bool := ends_ok n && nosep EQ n && bytes_eqb (lower n) n && forallb is_ascii n.
Definition cookie_value_ok (v : bytes) : bool := ends_ok v && negb (prefixb [DQ] v) && forallb is_ascii v.

Section Cookie.
Variable vew : variant.
Variable dechdr : bytes -> option bytes.
Variable cs_other : bytes -> bytes -> option bytes.

Lemma parse_cls_cookie s n v ps : cookie_name_ok n = true -> cookie_value_ok v = true ->
  parse_elem vew dechdr cs_other COOKIE_TSPECIALS true s = Some (latin1_to_utf8 (n ++ EQ :: v), ps) ->
  parse_cls vew dechdr cs_other ECookie s = PElem (n ++ EQ :: v) (Some (n, v)) ps.
Proof.
  unfold cookie_name_ok, cookie_value_ok. rewrite !andb_true_iff, bytes_eqb_eq, negb_true_iff.
  intros [[[N1 N2] N3] N4] [[V1 V2] V3] H.
  assert (A : forallb is_ascii (n ++ EQ :: v) = true) by (rewrite forallb_app; cbn [forallb]; rewrite N4, V3; reflexivity).
  rewrite (l1u8_ascii _ A) in H. unfold parse_cls. cbn [cls_tsp cls_ckeys]. rewrite H, (u8_to_l1_ascii _ A).
  assert (P : parseparam COOKIE_TSPECIALS true (n ++ EQ :: v) = Some (n, v, false)).
  { apply parseparam_plain; try assumption. apply cookie_has_tsp. }
  rewrite P. unfold cookie_set. change (n ++ [EQ] ++ v) with (n ++ EQ :: v). rewrite P.
  change (n ++ [EQ] ++ v) with (n ++ EQ :: v).
  rewrite (l1u8_ascii _ A), (l1u8_ascii _ N4), (l1u8_ascii _ V3). reflexivity.
Qed.
End Cookie.

(* ================= construction through the API is compose_raw on the sanitised value ================= *)
Lemma compose_elem_ascii tsp pv tv ps : is_ascii_text tv = true ->
  compose_elem tsp pv tv ps = compose_raw tsp pv (latin1_enc tv) ps.
Proof. intros A. unfold compose_elem, encode_rfc2047. rewrite (ascii_text_latin1 tv A). reflexivity. Qed.

Lemma compose_cls_generic pv tv ck ps : is_ascii_text tv = true ->
  compose_cls pv EGeneric tv ck ps = of_opt (compose_raw TSPECIALS pv (latin1_enc tv) ps).
Proof. intros A. unfold compose_cls. rewrite (compose_elem_ascii _ _ _ _ A). reflexivity. Qed.

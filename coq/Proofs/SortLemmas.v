(* Generic facts about the stable insertion sort of Model/Accept.v, for a comparison that is a strict weak
   order on the elements satisfying a predicate [P] (C19). *)
From Coq Require Import List Bool Sorting.Sorted Sorting.Permutation.
From Httoop Require Import Model.Accept.
Import ListNotations.

Section Sort.
Context {A : Type}.
Variable lt : A -> A -> bool.
Variable P : A -> Prop.
Hypothesis lt_irrefl : forall a, P a -> lt a a = false.
Hypothesis lt_trans : forall a b c, P a -> P b -> P c -> lt a b = true -> lt b c = true -> lt a c = true.
Hypothesis lt_negtrans : forall a b c, P a -> P b -> P c -> lt a b = false -> lt b c = false -> lt a c = false.

Definition le (a b : A) : Prop := lt b a = false.
Definition equiv (a b : A) : Prop := le a b /\ le b a.

Lemma lt_asym a b : P a -> P b -> lt a b = true -> lt b a = false.
Proof.
  intros Pa Pb H. destruct (lt b a) eqn:E; [|reflexivity].
  pose proof (lt_trans a b a Pa Pb Pa H E) as T. rewrite (lt_irrefl a Pa) in T. discriminate.
Qed.

Lemma le_refl a : P a -> le a a.
Proof. apply lt_irrefl. Qed.

Lemma le_total a b : P a -> P b -> le a b \/ le b a.
Proof.
  intros Pa Pb. unfold le. destruct (lt b a) eqn:E; [right; apply lt_asym; assumption | left; reflexivity].
Qed.

Lemma le_trans a b c : P a -> P b -> P c -> le a b -> le b c -> le a c.
Proof. unfold le. intros Pa Pb Pc H1 H2. apply (lt_negtrans c b a); assumption. Qed.

Definition isr (l : list A) : list A := fold_right (insert_by lt) [] l.

Lemma sorted_rev_isr l : sorted_rev lt l = rev (isr l).
Proof.
  unfold sorted_rev, isort, isr. f_equal. rewrite <- fold_left_rev_right, rev_involutive. reflexivity.
Qed.

Lemma insert_by_perm x l : Permutation (x :: l) (insert_by lt x l).
Proof.
  induction l as [|y l IH]; cbn [insert_by]; [reflexivity|].
  destruct (lt x y); [reflexivity|]. rewrite perm_swap. constructor. exact IH.
Qed.

Lemma isr_perm l : Permutation l (isr l).
Proof.
  induction l as [|x l IH]; cbn; [constructor|]. rewrite <- insert_by_perm. constructor. exact IH.
Qed.

Lemma insert_by_sorted x l :
  P x -> Forall P l -> StronglySorted le l -> StronglySorted le (insert_by lt x l).
Proof.
  intros Px. induction l as [|y l IH]; intros Pl S; cbn [insert_by].
  - constructor; constructor.
  - inversion Pl as [|? ? Py Pl']; subst. inversion S as [|? ? S' F]; subst.
    destruct (lt x y) eqn:E.
    + constructor; [exact S|]. constructor; [apply lt_asym; assumption|].
      rewrite Forall_forall in *. intros z Hz. apply (le_trans x y z); auto.
      apply lt_asym; assumption.
    + constructor; [apply IH; assumption|].
      eapply Permutation_Forall; [apply insert_by_perm|]. constructor; [exact E | exact F].
Qed.

Lemma isr_sorted l : Forall P l -> StronglySorted le (isr l).
Proof.
  induction l as [|x l IH]; intros Pl; cbn; [constructor|].
  inversion Pl; subst. apply insert_by_sorted; auto.
  eapply Permutation_Forall; [apply isr_perm | assumption].
Qed.

Lemma sorted_snoc (R : A -> A -> Prop) l x :
  StronglySorted R l -> Forall (fun y => R y x) l -> StronglySorted R (l ++ [x]).
Proof.
  induction l as [|y l IH]; intros S F; cbn; [constructor; constructor|].
  inversion S; subst. inversion F; subst. constructor; [apply IH; assumption|].
  apply Forall_app. split; [assumption | constructor; [assumption | constructor]].
Qed.

Lemma sorted_rev_flip (R : A -> A -> Prop) l :
  StronglySorted R l -> StronglySorted (fun a b => R b a) (rev l).
Proof.
  induction 1 as [|x l S IH F]; cbn; [constructor|].
  apply sorted_snoc; [exact IH|]. apply Forall_rev. exact F.
Qed.

(* the result of sorted(reverse=True): a permutation, in non-increasing order *)
Theorem sorted_rev_perm l : Permutation l (sorted_rev lt l).
Proof. rewrite sorted_rev_isr. rewrite <- Permutation_rev. apply isr_perm. Qed.

Theorem sorted_rev_sorted l : Forall P l -> StronglySorted (fun a b => lt a b = false) (sorted_rev lt l).
Proof.
  intros Pl. rewrite sorted_rev_isr. apply (sorted_rev_flip le). apply isr_sorted, Pl.
Qed.

(* two sorted lists with the same elements agree position by position up to equivalence *)
Definition ge (a b : A) : Prop := lt a b = false.   (* a is not below b *)
Definition eqv (a b : A) : Prop := lt a b = false /\ lt b a = false.

Lemma eqv_refl a : P a -> eqv a a.
Proof. intros Pa. split; apply lt_irrefl, Pa. Qed.
Lemma eqv_sym a b : eqv a b -> eqv b a.
Proof. intros [H1 H2]. split; assumption. Qed.
Lemma eqv_trans a b c : P a -> P b -> P c -> eqv a b -> eqv b c -> eqv a c.
Proof.
  intros Pa Pb Pc [H1 H2] [H3 H4]. split; [apply (lt_negtrans a b c) | apply (lt_negtrans c b a)]; assumption.
Qed.

Lemma sorted_perm_eqv_gen l1 : forall l2 l2',
  Forall P l1 -> Forall P l2 -> Forall P l2' ->
  StronglySorted ge l1 -> StronglySorted ge l2 ->
  Permutation l1 l2' -> Forall2 eqv l2' l2 -> Forall2 eqv l1 l2.
Proof.
  induction l1 as [|x t1 IH]; intros l2 l2' P1 P2 P2' S1 S2 Pm F.
  - apply Permutation_nil in Pm. subst l2'. inversion F; subst. constructor.
  - destruct l2' as [|h r']; [apply Permutation_sym, Permutation_nil in Pm; discriminate|].
    inversion F as [|? y ? t2 Hhy Fr]; subst.
    inversion P1 as [|? ? Px Pt1]; subst. inversion P2 as [|? ? Py Pt2]; subst. inversion P2' as [|? ? Ph Pr']; subst.
    inversion S1 as [|? ? S1' G1]; subst. inversion S2 as [|? ? S2' G2]; subst.
    (* x and y are equivalent: each is maximal in its list *)
    assert (ge x h) as Gxh.
    { assert (In h (x :: t1)) as Hin by (eapply Permutation_in; [apply Permutation_sym, Pm | left; reflexivity]).
      destruct Hin as [<-|Hin]; [apply lt_irrefl, Px|]. rewrite Forall_forall in G1. apply G1, Hin. }
    assert (exists x', In x' (y :: t2) /\ eqv x x' /\ P x') as [x' [Hx' [Ex Px']]].
    { assert (In x (h :: r')) as Hin by (eapply Permutation_in; [apply Pm | left; reflexivity]).
      clear -Hin F P2. revert Hin. induction F as [|a b la lb Hab Fab IHF]; intros Hin; [destruct Hin|].
      inversion P2; subst. destruct Hin as [<-|Hin].
      - exists b. split; [left; reflexivity | split; assumption].
      - destruct (IHF H2 Hin) as [z [Hz1 Hz2]]. exists z. split; [right; exact Hz1 | exact Hz2]. }
    assert (ge y x) as Gyx.
    { destruct Hx' as [<-|Hin]; [destruct Ex; assumption|].
      rewrite Forall_forall in G2. specialize (G2 x' Hin). destruct Ex as [E1 E2].
      unfold ge in *. apply (lt_negtrans y x' x); assumption. }
    assert (eqv x y) as Exy.
    { split; [|exact Gyx]. destruct Hhy as [H1 H2]. unfold ge in Gxh. apply (lt_negtrans x h y); assumption. }
    constructor; [exact Exy|].
    (* tails: move x to the front of l2' *)
    assert (In x (h :: r')) as Hin by (eapply Permutation_in; [apply Pm | left; reflexivity]).
    destruct Hin as [->|Hin].
    + apply Permutation_cons_inv in Pm. apply (IH t2 r'); assumption.
    + apply in_split in Hin as [c [d ->]].
      assert (Permutation t1 (c ++ h :: d)) as Pm'.
      { apply (Permutation_cons_inv (a := x)). rewrite Pm.
        transitivity (h :: x :: c ++ d); [constructor; apply Permutation_sym, Permutation_middle|].
        rewrite perm_swap. constructor. apply Permutation_middle. }
      apply (IH t2 (c ++ h :: d)); try assumption.
      * apply Forall_app in Pr' as [Pc Pd]. inversion Pd; subst. apply Forall_app. split; [assumption | constructor; assumption].
      * apply Forall2_app_inv_l in Fr as [t2a [t2b [Fa [Fb ->]]]].
        inversion Fb as [|? z ? t2b' Hxz Fd]; subst.
        apply Forall2_app; [exact Fa|]. constructor; [|exact Fd].
        assert (P z) by (apply Forall_app in Pt2 as [_ Pz]; inversion Pz; assumption).
        assert (P x) by exact Px.
        apply (eqv_trans h y z); try assumption.
        apply (eqv_trans y x z); try assumption. apply eqv_sym; exact Exy.
Qed.

Theorem sorted_perm_eqv l1 l2 :
  Forall P l1 -> StronglySorted ge l1 -> StronglySorted ge l2 -> Permutation l1 l2 -> Forall2 eqv l1 l2.
Proof.
  intros P1 S1 S2 Pm.
  assert (Forall P l2) as P2 by (eapply Permutation_Forall; eassumption).
  apply (sorted_perm_eqv_gen l1 l2 l2); try assumption.
  clear -P2 lt_irrefl. induction P2; constructor; [apply eqv_refl; assumption | assumption].
Qed.

End Sort.

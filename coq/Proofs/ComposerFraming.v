(* C05, clause 1: what the composer model emits for a prepared message is exactly one well-framed HTTP/1.x
   message under the independent reader of Model/Http1Reader.v, and its framed payload is the (coded) content. *)
From Coq Require Import Lia Permutation.
From Httoop Require Import Model.Composer Model.Http1Reader Proofs.HeadersP Proofs.SplitP Proofs.Http1ReaderP
  Proofs.ComposerNum Proofs.ComposerHdrs Proofs.ComposerBody.
From Httoop Require Proofs.StartLine.
Local Open Scope N_scope.

(* ---------------------------------------------------------------- constant keys *)
Ltac keq :=
  repeat match goal with
  | |- context [bytes_eqb ?a ?b] =>
      let r := eval vm_compute in (bytes_eqb a b) in
      match r with
      | true => change (bytes_eqb a b) with true
      | false => change (bytes_eqb a b) with false
      end
  end.
Ltac keq_in H :=
  repeat match type of H with
  | context [bytes_eqb ?a ?b] =>
      let r := eval vm_compute in (bytes_eqb a b) in
      match r with
      | true => change (bytes_eqb a b) with true in H
      | false => change (bytes_eqb a b) with false in H
      end
  end.
Ltac hg := repeat (rewrite ?hget_hset, ?hget_hdel, ?hget_hsetdefault; keq; cbv iota).

Lemma mem_bytes_in x l : mem_bytes x l = true -> In x l.
Proof. unfold mem_bytes. rewrite existsb_exists. intros [y [Hy E]]. apply bytes_eqb_eq in E. subst. exact Hy. Qed.

Lemma list_elements_not K :
  forallb (fun k => negb (bytes_eqb (lower k) (lower K))) HEADER_LIST_ELEMENTS = true ->
  forall k, mem_bytes k HEADER_LIST_ELEMENTS = true -> bytes_eqb (lower k) (lower K) = false.
Proof. intros H k Hk. rewrite forallb_forall in H. apply negb_true_iff, H, mem_bytes_in, Hk. Qed.

Lemma rd_trim_sp l : rd_trim (SP :: l) = rd_trim l.
Proof. reflexivity. Qed.

(* ---------------------------------------------------------------- framing announced by a header collection *)
Inductive hframing (h : hdrs) : framing -> Prop :=
| HF_chunked : hget H_TE h = Some TE_CHUNKED -> hget H_CL h = None -> hframing h FChunked
| HF_length n : hget H_TE h = None -> hget H_CL h = Some (dec_print n) -> hframing h (FLength n)
| HF_none : hget H_TE h = None -> hget H_CL h = None -> hframing h FNone.

Lemma composed_cl C h : hdrs_ok h = true ->
  rd_values L_CONTENT_LENGTH (map read_field (sort_items (flat_map (items_of C) h))) =
    match hget H_CL h with Some v => [rd_trim (SP :: v)] | None => [] end.
Proof.
  intros H. change L_CONTENT_LENGTH with (lower H_CL). apply composed_values; [reflexivity | | exact H].
  apply list_elements_not. vm_compute. reflexivity.
Qed.
Lemma composed_te C h : hdrs_ok h = true ->
  rd_values L_TRANSFER_ENCODING (map read_field (sort_items (flat_map (items_of C) h))) =
    match hget H_TE h with Some v => [rd_trim (SP :: v)] | None => [] end.
Proof.
  intros H. change L_TRANSFER_ENCODING with (lower H_TE). apply composed_values; [reflexivity | | exact H].
  apply list_elements_not. vm_compute. reflexivity.
Qed.

Lemma composed_framing C h fr : hdrs_ok h = true -> hframing h fr ->
  rd_framing (map read_field (sort_items (flat_map (items_of C) h))) = Some fr.
Proof.
  intros H F. unfold rd_framing, rd_codings. rewrite (composed_cl C h H), (composed_te C h H).
  destruct F as [Ht Hc | n Ht Hc | Ht Hc]; rewrite Ht, Hc.
  - vm_compute. reflexivity.
  - cbn [flat_map map filter]. rewrite rd_trim_sp. destruct (dec_print_clean n) as [_ [E _]]. rewrite E, rd_dec_print. reflexivity.
  - reflexivity.
Qed.

(* ---------------------------------------------------------------- the whole message *)
Section WithCallees.
Variable C : ccallees.
Hypothesis HC : lsplit_clean C.

Definition body_octets (vc : variant) (b : body) : bytes := fst (body_iter C vc b).

Definition body_matches (vc : variant) (bodiless : bool) (fr : framing) (b : body) : Prop :=
  if bodiless then body_octets vc b = []
  else match fr with
       | FChunked => b_chunked b = true
       | FLength n => b_chunked b = false /\ n = blen (payload C vc b)
       | FNone => b_chunked b = false /\ payload C vc b = []
       end.

Lemma message_read (vc : variant) (is_req bodiless : bool) (start : bytes) (h : hdrs) (b : body) (fr : framing) :
  no_lf start = true -> (if is_req then rd_request_line start else rd_status_line start) = true ->
  hdrs_ok h = true -> hdrs_ok (b_trailer b) = true -> hframing h fr -> body_matches vc bodiless fr b ->
  exists r, rd_message is_req bodiless (start ++ CRLF ++ hcompose C h ++ body_octets vc b) = Some r /\
            rd_start r = start /\ rd_frame r = fr /\ rd_payload r = (if bodiless then [] else payload C vc b).
Proof.
  intros Hs Hl Hh Ht Hf Hb. unfold rd_message. rewrite (cut_CRLF_line _ _ Hs). rewrite Hl. cbn [negb].
  rewrite (hcompose_read C h _ HC Hh). rewrite (composed_framing C h fr Hh Hf).
  unfold body_matches in Hb. destruct bodiless.
  - rewrite Hb. eexists. split; [reflexivity|]. repeat split.
  - unfold body_octets in *. rewrite body_iter_spec in *. cbn [fst] in *. destruct fr as [|n|].
    + destruct Hb as [Hc Hp]. rewrite Hc, Hp. eexists. split; [reflexivity|]. repeat split.
    + destruct Hb as [Hc Hn]. rewrite Hc. subst n. unfold blen. rewrite N.eqb_refl. eexists. split; [reflexivity|]. repeat split.
    + rewrite Hb. destruct (chunked_frame_read C (b_trailer b) (coded C vc b) HC Ht) as [r [R1 R2]]. cbv zeta in R1, R2.
      rewrite R1, R2. eexists. split; [reflexivity|]. repeat split.
Qed.

End WithCallees.

(* ---------------------------------------------------------------- start lines *)
Definition DIGITS10 : list N := [0; 1; 2; 3; 4; 5; 6; 7; 8; 9].
Definition ver_ok (v : StartLine.version) : bool := (fst v <? 10) && (snd v <? 10).
Definition no_sp (l : bytes) : bool := forallb (fun c => negb (beq c SP)) l.
Definition ver_text_ok (v : StartLine.version) : bool :=
  let t := StartLine.proto_compose v in rd_version t && no_lf t && no_sp t.

Lemma lt10_in a : a < 10 -> In a DIGITS10.
Proof. intros H. destruct a as [|p]; [left; reflexivity|]. cbn. do 4 (destruct p as [p|p|]; try lia; auto 12). Qed.

Lemma ver_text v : ver_ok v = true -> ver_text_ok v = true.
Proof.
  destruct v as [a b]. unfold ver_ok. cbn [fst snd]. intros H. apply andb_true_iff in H as [Ha Hb]. apply N.ltb_lt in Ha, Hb.
  assert (A : forallb (fun a => forallb (fun b => ver_text_ok (a, b)) DIGITS10) DIGITS10 = true) by (vm_compute; reflexivity).
  rewrite forallb_forall in A. specialize (A a (lt10_in a Ha)). rewrite forallb_forall in A. exact (A b (lt10_in b Hb)).
Qed.

Definition target_ok (u : bytes) : bool := nonempty_b u && forallb rd_vchar u.
Definition reason_char (x : byte) : bool := beq x HT || beq x SP || rd_vchar x || (128 <=? bN x).
Definition reason_ok (r : bytes) : bool := forallb reason_char r.
Definition code_ok (code : N) : bool := (100 <=? code) && (code <=? 599).
Definition code_text_ok (code : N) : bool :=
  match StartLine.print_dec code with
  | [a; b; c] => rd_digit a && rd_digit b && rd_digit c && no_lf [a; b; c]
  | _ => false
  end.
Lemma code_text code : code_ok code = true -> code_text_ok code = true.
Proof.
  unfold code_ok. intros H. apply andb_true_iff in H as [H1 H2]. apply N.leb_le in H1, H2.
  assert (A : forallb code_text_ok (map N.of_nat (seq 100 500)) = true) by (vm_compute; reflexivity).
  rewrite forallb_forall in A. apply A. rewrite <- (N2Nat.id code). apply in_map, in_seq. lia.
Qed.

Lemma vchar_class c : rd_vchar c = true -> beq c SP = false /\ beq c LF = false.
Proof.
  assert (A : forall c, implb (rd_vchar c) (negb (beq c SP) && negb (beq c LF)) = true) by (apply forall_byte; vm_compute; reflexivity).
  intros H. specialize (A c). rewrite H in A. cbn [implb] in A. apply andb_true_iff in A as [A B]. split; apply negb_true_iff; assumption.
Qed.
Lemma vchars_class u : forallb rd_vchar u = true -> no_sp u = true /\ no_lf u = true.
Proof.
  induction u as [|c u IH]; intros H; [split; reflexivity|]. cbn [forallb] in H. apply andb_true_iff in H as [Hc Hu].
  destruct (vchar_class c Hc) as [A B]. destruct (IH Hu) as [I1 I2]. unfold no_sp, no_lf in *. cbn [forallb]. rewrite A, B, I1, I2. split; reflexivity.
Qed.
Lemma reason_class r : reason_ok r = true -> no_lf r = true.
Proof.
  assert (A : forall c, implb (reason_char c) (negb (beq c LF)) = true) by (apply forall_byte; vm_compute; reflexivity).
  unfold reason_ok, no_lf. rewrite !forallb_forall. intros H x Hx. specialize (A x). rewrite (H x Hx) in A. exact A.
Qed.
Lemma no_lf_app a b : no_lf (a ++ b) = no_lf a && no_lf b.
Proof. apply forallb_app. Qed.

Lemma req_line_shape m u v : StartLine.req_compose m u v = (m ++ SP :: u ++ SP :: StartLine.proto_compose v) ++ CRLF.
Proof. rewrite Httoop.Proofs.StartLine.req_compose_lit. unfold Httoop.Proofs.StartLine.SP, Httoop.Proofs.StartLine.CRLF. rewrite <- !app_assoc. cbn [app]. rewrite <- !app_assoc. reflexivity. Qed.

Lemma req_line_ok m u v : rd_token m = true -> target_ok u = true -> ver_ok v = true ->
  let l := m ++ SP :: u ++ SP :: StartLine.proto_compose v in rd_request_line l = true /\ no_lf l = true.
Proof.
  intros Hm Hu Hv l. pose proof (ver_text v Hv) as T. unfold ver_text_ok in T. apply andb_true_iff in T as [T T3]. apply andb_true_iff in T as [T1 T2].
  unfold rd_token in Hm. pose proof Hm as Hm0. apply andb_true_iff in Hm as [Hne Hm]. destruct (token_class m Hm) as [K1 [_ K3]].
  unfold target_ok in Hu. pose proof Hu as Hu0. apply andb_true_iff in Hu as [Hune Hu]. destruct (vchars_class u Hu) as [U1 U2].
  split.
  - unfold rd_request_line, l. rewrite (cut1_app SP m _ K3). rewrite (cut1_app SP u _ U1). unfold rd_token. rewrite Hne, Hm, Hune, Hu, T1. reflexivity.
  - unfold l. rewrite no_lf_app. cbn [no_lf forallb]. fold (no_lf (u ++ SP :: StartLine.proto_compose v)). rewrite no_lf_app. cbn [no_lf forallb].
    fold (no_lf (StartLine.proto_compose v)). rewrite (no_crlf_no_lf m K1), U2, T2. reflexivity.
Qed.

Lemma resp_line_shape v code reason :
  StartLine.resp_compose v code reason = (StartLine.proto_compose v ++ SP :: StartLine.print_dec code ++ SP :: reason) ++ CRLF.
Proof. rewrite Httoop.Proofs.StartLine.resp_compose_lit. unfold Httoop.Proofs.StartLine.SP, Httoop.Proofs.StartLine.CRLF. rewrite <- !app_assoc. cbn [app]. rewrite <- !app_assoc. reflexivity. Qed.

Lemma resp_line_ok v code reason : ver_ok v = true -> code_ok code = true -> reason_ok reason = true ->
  let l := StartLine.proto_compose v ++ SP :: StartLine.print_dec code ++ SP :: reason in rd_status_line l = true /\ no_lf l = true.
Proof.
  intros Hv Hc Hr l. pose proof (ver_text v Hv) as T. unfold ver_text_ok in T. apply andb_true_iff in T as [T T3]. apply andb_true_iff in T as [T1 T2].
  pose proof (code_text code Hc) as D. unfold code_text_ok in D.
  destruct (StartLine.print_dec code) as [|a [|b [|c [|x t]]]]; try discriminate.
  apply andb_true_iff in D as [D D4]. apply andb_true_iff in D as [D D3]. apply andb_true_iff in D as [D1 D2].
  split.
  - unfold rd_status_line, l. rewrite (cut1_app SP _ _ T3). cbn [app]. rewrite T1, D1, D2, D3, beq_refl. cbn [andb]. exact Hr.
  - unfold l. rewrite no_lf_app. cbn [no_lf forallb app]. cbn [no_lf forallb] in D4. rewrite T2.
    apply andb_true_iff in D4 as [Da D4]. apply andb_true_iff in D4 as [Db D4]. apply andb_true_iff in D4 as [Dc _].
    rewrite Da, Db, Dc. cbn [andb negb]. change (beq SP LF) with false. cbn [negb andb]. exact (reason_class reason Hr).
Qed.

(* ---------------------------------------------------------------- the chunked flag on the modelled domain *)
Definition te_simple (h : hdrs) : bool := match hget H_TE h with None => true | Some v => bytes_eqb v TE_CHUNKED end.

Lemma hdr_chunked_simple h : te_simple h = true -> hdr_chunked h = Some (hmem H_TE h).
Proof.
  unfold te_simple, hdr_chunked. rewrite hmem_hget. destruct (hget H_TE h) as [v|]; [|reflexivity]. intros ->. reflexivity.
Qed.
Lemma te_simple_value h : te_simple h = true -> hget H_TE h = if hmem H_TE h then Some TE_CHUNKED else None.
Proof.
  unfold te_simple. rewrite hmem_hget. destruct (hget H_TE h) as [v|]; [|reflexivity]. intros E. apply bytes_eqb_eq in E. subst. reflexivity.
Qed.

Lemma set_chunked_false_simple h b : te_simple h = true -> set_chunked false h b = Some (hdel H_TE h, with_chunked b false).
Proof.
  intros H. unfold set_chunked. rewrite (hdr_chunked_simple h H). rewrite hmem_hget. destruct (hget H_TE h) eqn:E; [reflexivity|].
  rewrite (hdel_absent _ _ E). reflexivity.
Qed.
Lemma set_chunked_true_simple h b : te_simple h = true ->
  set_chunked true h b = Some (hset H_TE TE_CHUNKED (hdel H_CL h), with_chunked b true).
Proof.
  intros H. unfold set_chunked. assert (H' : te_simple (hdel H_CL h) = true) by (unfold te_simple in *; hg; exact H).
  rewrite (hdr_chunked_simple _ H'). pose proof (te_simple_value _ H') as V. destruct (hmem H_TE (hdel H_CL h)).
  - rewrite (hset_same _ _ _ V). reflexivity.
  - reflexivity.
Qed.
Lemma sync_chunked_simple h b : te_simple h = true ->
  sync_chunked h b = Some (if hmem H_TE h then hdel H_CL h else h, with_chunked b (hmem H_TE h)).
Proof.
  intros H. unfold sync_chunked. rewrite (hdr_chunked_simple h H). destruct (hmem H_TE h) eqn:E.
  - rewrite (set_chunked_true_simple h b H). f_equal. f_equal. apply hset_same.
    pose proof (te_simple_value h H) as V. rewrite E in V. hg. exact V.
  - unfold set_chunked. rewrite (hdr_chunked_simple h H), E. reflexivity.
Qed.

Lemma kv_ok_const K v : rd_token K = true -> name_canon K = true -> rd_no_crlf v = true -> kv_ok (K, v) = true.
Proof. intros A B D. unfold kv_ok. cbn [fst snd]. rewrite A, B, D. reflexivity. Qed.

Ltac hok := repeat first
  [ assumption
  | apply hdrs_ok_hdel | apply hdrs_ok_hdel_all
  | apply hdrs_ok_hset | apply hdrs_ok_hsetdefault
  | match goal with |- hdrs_ok (if ?c then _ else _) = true => destruct c end
  | match goal with |- hdrs_ok (match ?c with _ => _ end) = true => destruct c end
  | apply kv_ok_const; [reflexivity | reflexivity | ] ].

Lemma dec_print_no_crlf n : rd_no_crlf (dec_print n) = true.
Proof. exact (proj1 (dec_print_clean n)). Qed.

Definition body_ok (b : body) : bool := src_ok (b_src b) && hdrs_ok (b_trailer b) && rd_no_crlf (b_ctype b).

(* ---------------------------------------------------------------- requests *)
Definition req_ok (q : request) : bool :=
  rd_token (q_method q) && target_ok (q_target q) && ver_ok (q_version q) &&
  hdrs_ok (q_hdrs q) && te_simple (q_hdrs q) && negb (hmem H_CL (q_hdrs q)) &&
  body_ok (q_body q) && (match q_host q with Some v => rd_no_crlf v | None => true end) &&
  (match b_codec (q_body q) with
   | None => true
   | Some _ => negb (mem_bytes (q_method q) SAFE_METHODS) && hmem H_TE (q_hdrs q)    (* finding D43: coding only with chunked framing *)
   end).

Definition q_safe (q : request) : bool := mem_bytes (q_method q) SAFE_METHODS.

Section Requests.
Variable C : ccallees.
Hypothesis HC : lsplit_clean C.

Lemma q_prepare_framed vc now q q' : req_ok q = true -> rd_no_crlf now = true -> q_prepare now q = Some q' ->
  q_method q' = q_method q /\ q_target q' = q_target q /\ q_version q' = q_version q /\
  hdrs_ok (q_hdrs q') = true /\ b_trailer (q_body q') = b_trailer (q_body q) /\ b_codec (q_body q') = b_codec (q_body q) /\
  src_pieces (b_src (q_body q')) = (if q_safe q then [] else src_pieces (b_src (q_body q))) /\
  exists fr, hframing (q_hdrs q') fr /\ body_matches C vc false fr (q_body q').
Proof.
  intros Hok Hnow. unfold req_ok in Hok.
  apply andb_true_iff in Hok as [Hok Hcodec]. apply andb_true_iff in Hok as [Hok Hhost]. apply andb_true_iff in Hok as [Hok Hbody].
  apply andb_true_iff in Hok as [Hok Hcl]. apply andb_true_iff in Hok as [Hok Hte]. apply andb_true_iff in Hok as [Hok Hh].
  apply andb_true_iff in Hok as [Hok Hver]. apply andb_true_iff in Hok as [Hmethod Htarget].
  unfold body_ok in Hbody. apply andb_true_iff in Hbody as [Hbody Hct]. apply andb_true_iff in Hbody as [Hsrc Htr].
  apply negb_true_iff in Hcl. rewrite hmem_hget in Hcl. destruct (hget H_CL (q_hdrs q)) eqn:Ecl; [discriminate|]. clear Hcl.
  unfold q_prepare, q_safe. destruct (mem_bytes (q_method q) SAFE_METHODS) eqn:Esafe.
  - (* safe method: the body is dropped, chunked framing switched off *)
    destruct (b_codec (q_body q)) eqn:Ecodec; [discriminate|].
    rewrite (set_chunked_false_simple _ _ Hte).
    assert (Hte1 : te_simple (hdel H_TE (q_hdrs q)) = true) by (unfold te_simple; hg; reflexivity).
    rewrite (sync_chunked_simple _ _ Hte1). rewrite (hmem_hdel_same H_TE (q_hdrs q)).
    rewrite body_len_spec. cbn [b_src with_chunked body_clear with_src]. change (src_content EMPTY_SRC) with (@nil byte).
    change (0 <? blen []) with false. cbv iota.
    match goal with |- context [if mem_bytes (q_method q) REQ_DATED_METHODS then ?a else ?b] =>
      assert (Edate : (if mem_bytes (q_method q) REQ_DATED_METHODS then a else b) = b) end.
    { destruct (mem_bytes (q_method q) REQ_DATED_METHODS); [|reflexivity]. rewrite body_len_spec. cbn [b_src with_src with_chunked]. reflexivity. }
    rewrite Edate. clear Edate. intros E. injection E as <-. cbn [q_with q_method q_target q_version q_hdrs q_body with_src with_chunked b_trailer b_codec b_src].
    repeat split; try reflexivity.
    + destruct (q_host q); hok; try exact Hhost; reflexivity.
    + exact Ecodec.
    + exists FNone. split.
      * apply HF_none; destruct (q_host q); destruct (conn_is_close _); destruct (mem_bytes _ REQ_TRACE_METHODS); unfold hsetdefault; repeat (destruct (hmem _ _)); hg; try reflexivity; exact Ecl.
      * unfold body_matches, payload, coded. cbn [b_chunked b_codec b_src]. rewrite Ecodec. split; reflexivity.
  - (* the body is sent *)
    rewrite (sync_chunked_simple _ _ Hte). set (t := hmem H_TE (q_hdrs q)) in *.
    set (h2 := if t then hdel H_CL (q_hdrs q) else q_hdrs q).
    assert (Hh2 : hdrs_ok h2 = true) by (unfold h2; hok).
    assert (Hte2 : hget H_TE h2 = if t then Some TE_CHUNKED else None).
    { unfold h2. pose proof (te_simple_value _ Hte) as V. fold t in V. destruct t; hg; exact V. }
    assert (Hcl2 : hget H_CL h2 = None) by (unfold h2; destruct t; hg; [reflexivity | exact Ecl]).
    set (h3 := if conn_is_close h2 then hset H_CONNECTION CLOSE h2 else hdel H_CONNECTION h2).
    assert (Hh3 : hdrs_ok h3 = true) by (unfold h3; hok; reflexivity).
    assert (Hte3 : hget H_TE h3 = if t then Some TE_CHUNKED else None) by (unfold h3; destruct (conn_is_close h2); hg; exact Hte2).
    assert (Hcl3 : hget H_CL h3 = None) by (unfold h3; destruct (conn_is_close h2); hg; exact Hcl2).
    assert (Hts3 : te_simple h3 = true) by (unfold te_simple; rewrite Hte3; destruct t; reflexivity).
    rewrite body_len_spec. cbn [b_src with_chunked with_src].
    set (n := blen (src_content (b_src (q_body q)))).
    set (s1 := src_after (b_src (q_body q))).
    assert (Hs1 : src_content s1 = src_content (b_src (q_body q))) by (unfold s1, src_content; rewrite (src_after_pieces _ Hsrc); reflexivity).
    (* step 4: Content-Length / Content-Type *)
    match goal with |- match ?X with Some _ => _ | None => _ end = _ -> _ =>
      assert (E4 : exists h4, X = Some (h4, with_src (with_chunked (q_body q) t) (if 0 <? n then src_after s1 else s1)) /\ hdrs_ok h4 = true /\
                   hget H_TE h4 = (if t then Some TE_CHUNKED else None) /\
                   hget H_CL h4 = (if t then None else if 0 <? n then Some (dec_print n) else None)) end.
    { destruct (0 <? n) eqn:En.
      - rewrite (hdr_chunked_simple _ Hts3). rewrite body_len_spec. cbn [b_src with_chunked with_src]. rewrite Hs1. fold n.
        rewrite (hmem_hget H_TE h3), Hte3.
        eexists. split; [reflexivity|]. split; [|split].
        + destruct t; cbv iota; hok; try exact Hct; apply dec_print_no_crlf.
        + destruct t; cbv iota; match goal with |- context [if hmem H_CT ?x then _ else _] => destruct (hmem H_CT x) end; hg; exact Hte3.
        + destruct t; cbv iota; match goal with |- context [if hmem H_CT ?x then _ else _] => destruct (hmem H_CT x) end; hg; try exact Hcl3; reflexivity.
      - eexists. split; [reflexivity|]. split; [exact Hh3|]. split; [exact Hte3|]. rewrite Hcl3. destruct t; reflexivity. }
    destruct E4 as [h4 [E4 [Hh4 [Hte4 Hcl4]]]]. rewrite E4. clear E4.
    set (b5 := with_src (with_chunked (q_body q) t) (if 0 <? n then src_after s1 else s1)).
    assert (Hb5 : src_pieces (b_src b5) = src_pieces (b_src (q_body q))).
    { unfold b5. cbn [b_src with_src]. destruct (0 <? n); unfold s1; rewrite ?src_after_after; apply (src_after_pieces _ Hsrc). }
    (* the remaining steps touch neither framing field *)
    match goal with |- context [if mem_bytes (q_method q) REQ_DATED_METHODS then ?a else ?b] =>
      assert (Edate : exists h6 s6, (if mem_bytes (q_method q) REQ_DATED_METHODS then a else b) = (h6, with_src b5 s6) /\ hdrs_ok h6 = true /\
                      hget H_TE h6 = hget H_TE h4 /\ hget H_CL h6 = hget H_CL h4 /\ src_pieces s6 = src_pieces (b_src (q_body q))) end.
    { destruct (mem_bytes (q_method q) REQ_DATED_METHODS).
      - rewrite body_len_spec. eexists. eexists. split; [reflexivity|]. split; [|split; [|split]].
        + destruct (q_host q); hok; try exact Hhost; try exact Hnow.
        + destruct (q_host q); repeat match goal with |- context [if ?c then _ else _] => destruct c end; hg; reflexivity.
        + destruct (q_host q); repeat match goal with |- context [if ?c then _ else _] => destruct c end; hg; reflexivity.
        + rewrite <- Hb5. unfold b5. cbn [b_src with_src]. destruct (0 <? n); unfold s1; rewrite ?src_after_after; reflexivity.
      - exists (match q_host q with Some host => if hmem H_HOST h4 then h4 else hset H_HOST host h4 | None => h4 end), (b_src b5).
        split; [destruct b5; reflexivity|]. split; [|split; [|split]].
        + destruct (q_host q); hok; exact Hhost.
        + destruct (q_host q); repeat match goal with |- context [if ?c then _ else _] => destruct c end; hg; reflexivity.
        + destruct (q_host q); repeat match goal with |- context [if ?c then _ else _] => destruct c end; hg; reflexivity.
        + exact Hb5. }
    destruct Edate as [h6 [s6 [Edate [Hh6 [Hte6 [Hcl6 Hs6]]]]]]. rewrite Edate. clear Edate.
    intros E. injection E as <-. cbn [q_with q_method q_target q_version q_hdrs q_body with_src with_chunked b_trailer b_codec b_src b5].
    repeat split; try reflexivity.
    + hok; reflexivity.
    + exact Hs6.
    + set (h8 := hsetdefault H_ACCEPT REQ_ACCEPT (hsetdefault H_UA REQ_USER_AGENT (if mem_bytes (q_method q) REQ_TRACE_METHODS then hdel H_WWW_AUTH (hdel H_COOKIE h6) else h6))).
      assert (Hte8 : hget H_TE h8 = if t then Some TE_CHUNKED else None).
      { unfold h8. destruct (mem_bytes _ REQ_TRACE_METHODS); hg; rewrite Hte6; exact Hte4. }
      assert (Hcl8 : hget H_CL h8 = if t then None else if 0 <? n then Some (dec_print n) else None).
      { unfold h8. destruct (mem_bytes _ REQ_TRACE_METHODS); hg; rewrite Hcl6; exact Hcl4. }
      assert (Hpay : b_codec (q_body q) = None -> payload C vc (with_src (with_chunked (q_body q) t) s6) = src_content (b_src (q_body q))).
      { intros Ec. unfold payload, coded. cbn [b_codec b_src with_src with_chunked]. rewrite Ec, Hs6. reflexivity. }
      destruct t eqn:Et.
      * exists FChunked. split; [apply HF_chunked; assumption | reflexivity].
      * assert (Ec : b_codec (q_body q) = None) by (destruct (b_codec (q_body q)); [rewrite andb_false_r in Hcodec; discriminate | reflexivity]).
        destruct (0 <? n) eqn:En.
        -- exists (FLength n). split; [apply HF_length; assumption|]. unfold body_matches. cbn [b_chunked with_src with_chunked]. rewrite (Hpay Ec). split; reflexivity.
        -- exists FNone. split; [apply HF_none; assumption|]. unfold body_matches. cbn [b_chunked with_src with_chunked]. rewrite (Hpay Ec). split; [reflexivity|].
           apply N.ltb_ge in En. unfold n, blen in En. destruct (src_content (b_src (q_body q))); [reflexivity | cbn [List.length] in En; lia].
Qed.

End Requests.

(* C05, clause 1: what the composer model emits for a prepared message is exactly one well-framed HTTP/1.x
   message under the independent reader of Model/Http1Reader.v, and its framed payload is the (coded) content. *)
From Coq Require Import Lia Permutation.
From Httoop Require Import Model.Composer Model.Http1Reader Proofs.HeadersP Proofs.SplitP Proofs.Http1ReaderP
  Proofs.ComposerNum Proofs.ComposerHdrs Proofs.ComposerBody.
From Httoop Require Proofs.StartLine.
Local Open Scope N_scope.

(* ---------------------------------------------------------------- constant keys *)
Ltac keq :=
  repeat match goal with
  | |- context [bytes_eqb ?a ?b] =>
      let r := eval vm_compute in (bytes_eqb a b) in
      match r with
      | true => change (bytes_eqb a b) with true
      | false => change (bytes_eqb a b) with false
      end
  end.
Ltac keq_in H :=
  repeat match type of H with
  | context [bytes_eqb ?a ?b] =>
      let r := eval vm_compute in (bytes_eqb a b) in
      match r with
      | true => change (bytes_eqb a b) with true in H
      | false => change (bytes_eqb a b) with false in H
      end
  end.
Ltac hg := repeat (rewrite ?hget_hset, ?hget_hdel, ?hget_hsetdefault; keq; cbv iota).

Lemma mem_bytes_in x l : mem_bytes x l = true -> In x l.
Proof. unfold mem_bytes. rewrite existsb_exists. intros [y [Hy E]]. apply bytes_eqb_eq in E. subst. exact Hy. Qed.

Lemma list_elements_not K :
  forallb (fun k => negb (bytes_eqb (lower k) (lower K))) HEADER_LIST_ELEMENTS = true ->
  forall k, mem_bytes k HEADER_LIST_ELEMENTS = true -> bytes_eqb (lower k) (lower K) = false.
Proof. intros H k Hk. rewrite forallb_forall in H. apply negb_true_iff, H, mem_bytes_in, Hk. Qed.

Lemma rd_trim_sp l : rd_trim (SP :: l) = rd_trim l.
Proof. reflexivity. Qed.

(* ---------------------------------------------------------------- framing announced by a header collection *)
Inductive hframing (h : hdrs) : framing -> Prop :=
| HF_chunked : hget H_TE h = Some TE_CHUNKED -> hget H_CL h = None -> hframing h FChunked
| HF_length n : hget H_TE h = None -> hget H_CL h = Some (dec_print n) -> hframing h (FLength n)
| HF_none : hget H_TE h = None -> hget H_CL h = None -> hframing h FNone.

Lemma composed_cl C h : hdrs_ok h = true ->
  rd_values L_CONTENT_LENGTH (map read_field (sort_items (flat_map (items_of C) h))) =
    match hget H_CL h with Some v => [rd_trim (SP :: v)] | None => [] end.
Proof.
  intros H. change L_CONTENT_LENGTH with (lower H_CL). apply composed_values; [reflexivity | | exact H].
  apply list_elements_not. vm_compute. reflexivity.
Qed.
Lemma composed_te C h : hdrs_ok h = true ->
  rd_values L_TRANSFER_ENCODING (map read_field (sort_items (flat_map (items_of C) h))) =
    match hget H_TE h with Some v => [rd_trim (SP :: v)] | None => [] end.
Proof.
  intros H. change L_TRANSFER_ENCODING with (lower H_TE). apply composed_values; [reflexivity | | exact H].
  apply list_elements_not. vm_compute. reflexivity.
Qed.

Lemma composed_framing C h fr : hdrs_ok h = true -> hframing h fr ->
  rd_framing (map read_field (sort_items (flat_map (items_of C) h))) = Some fr.
Proof.
  intros H F. unfold rd_framing, rd_codings. rewrite (composed_cl C h H), (composed_te C h H).
  destruct F as [Ht Hc | n Ht Hc | Ht Hc]; rewrite Ht, Hc.
  - vm_compute. reflexivity.
  - cbn [flat_map map filter]. rewrite rd_trim_sp. destruct (dec_print_clean n) as [_ [E _]]. rewrite E, rd_dec_print. reflexivity.
  - reflexivity.
Qed.

(* ---------------------------------------------------------------- the whole message *)
Section WithCallees.
Variable C : ccallees.
Hypothesis HC : lsplit_clean C.

Definition body_octets (vc : variant) (b : body) : bytes := fst (body_iter C vc b).

Definition body_matches (vc : variant) (bodiless : bool) (fr : framing) (b : body) : Prop :=
  if bodiless then body_octets vc b = []
  else match fr with
       | FChunked => b_chunked b = true
       | FLength n => b_chunked b = false /\ n = blen (payload C vc b)
       | FNone => b_chunked b = false /\ payload C vc b = []
       end.

Lemma message_read (vc : variant) (is_req bodiless : bool) (start : bytes) (h : hdrs) (b : body) (fr : framing) :
  no_lf start = true -> (if is_req then rd_request_line start else rd_status_line start) = true ->
  hdrs_ok h = true -> hdrs_ok (b_trailer b) = true -> hframing h fr -> body_matches vc bodiless fr b ->
  exists r, rd_message is_req bodiless (start ++ CRLF ++ hcompose C h ++ body_octets vc b) = Some r /\
            rd_start r = start /\ rd_frame r = fr /\ rd_payload r = (if bodiless then [] else payload C vc b).
Proof.
  intros Hs Hl Hh Ht Hf Hb. unfold rd_message. rewrite (cut_CRLF_line _ _ Hs). rewrite Hl. cbn [negb].
  rewrite (hcompose_read C h _ HC Hh). rewrite (composed_framing C h fr Hh Hf).
  unfold body_matches in Hb. destruct bodiless.
  - rewrite Hb. eexists. split; [reflexivity|]. repeat split.
  - unfold body_octets in *. rewrite body_iter_spec in *. cbn [fst] in *. destruct fr as [|n|].
    + destruct Hb as [Hc Hp]. rewrite Hc, Hp. eexists. split; [reflexivity|]. repeat split.
    + destruct Hb as [Hc Hn]. rewrite Hc. subst n. unfold blen. rewrite N.eqb_refl. eexists. split; [reflexivity|]. repeat split.
    + rewrite Hb. destruct (chunked_frame_read C (b_trailer b) (coded C vc b) HC Ht) as [r [R1 R2]]. cbv zeta in R1, R2.
      rewrite R1, R2. eexists. split; [reflexivity|]. repeat split.
Qed.

End WithCallees.

(* ---------------------------------------------------------------- start lines *)
Definition DIGITS10 : list N := [0; 1; 2; 3; 4; 5; 6; 7; 8; 9].
Definition ver_ok (v : StartLine.version) : bool := (fst v <? 10) && (snd v <? 10).
Definition no_sp (l : bytes) : bool := forallb (fun c => negb (beq c SP)) l.
Definition ver_text_ok (v : StartLine.version) : bool :=
  let t := StartLine.proto_compose v in rd_version t && no_lf t && no_sp t.

Lemma lt10_in a : a < 10 -> In a DIGITS10.
Proof. intros H. destruct a as [|p]; [left; reflexivity|]. cbn. do 4 (destruct p as [p|p|]; try lia; auto 12). Qed.

Lemma ver_text v : ver_ok v = true -> ver_text_ok v = true.
Proof.
  destruct v as [a b]. unfold ver_ok. cbn [fst snd]. intros H. apply andb_true_iff in H as [Ha Hb]. apply N.ltb_lt in Ha, Hb.
  assert (A : forallb (fun a => forallb (fun b => ver_text_ok (a, b)) DIGITS10) DIGITS10 = true) by (vm_compute; reflexivity).
  rewrite forallb_forall in A. specialize (A a (lt10_in a Ha)). rewrite forallb_forall in A. exact (A b (lt10_in b Hb)).
Qed.

Definition target_ok (u : bytes) : bool := nonempty_b u && forallb rd_vchar u.
Definition reason_char (x : byte) : bool := beq x HT || beq x SP || rd_vchar x || (128 <=? bN x).
Definition reason_ok (r : bytes) : bool := forallb reason_char r.
Definition code_ok (code : N) : bool := (100 <=? code) && (code <=? 599).
Definition code_text_ok (code : N) : bool :=
  match StartLine.print_dec code with
  | [a; b; c] => rd_digit a && rd_digit b && rd_digit c && no_lf [a; b; c]
  | _ => false
  end.
Lemma code_text code : code_ok code = true -> code_text_ok code = true.
Proof.
  unfold code_ok. intros H. apply andb_true_iff in H as [H1 H2]. apply N.leb_le in H1, H2.
  assert (A : forallb code_text_ok (map N.of_nat (seq 100 500)) = true) by (vm_compute; reflexivity).
  rewrite forallb_forall in A. apply A. rewrite <- (N2Nat.id code). apply in_map, in_seq. lia.
Qed.

Lemma vchar_class c : rd_vchar c = true -> beq c SP = false /\ beq c LF = false.
Proof.
  assert (A : forall c, implb (rd_vchar c) (negb (beq c SP) && negb (beq c LF)) = true) by (apply forall_byte; vm_compute; reflexivity).
  intros H. specialize (A c). rewrite H in A. cbn [implb] in A. apply andb_true_iff in A as [A B]. split; apply negb_true_iff; assumption.
Qed.
Lemma vchars_class u : forallb rd_vchar u = true -> no_sp u = true /\ no_lf u = true.
Proof.
  induction u as [|c u IH]; intros H; [split; reflexivity|]. cbn [forallb] in H. apply andb_true_iff in H as [Hc Hu].
  destruct (vchar_class c Hc) as [A B]. destruct (IH Hu) as [I1 I2]. unfold no_sp, no_lf in *. cbn [forallb]. rewrite A, B, I1, I2. split; reflexivity.
Qed.
Lemma reason_class r : reason_ok r = true -> no_lf r = true.
Proof.
  assert (A : forall c, implb (reason_char c) (negb (beq c LF)) = true) by (apply forall_byte; vm_compute; reflexivity).
  unfold reason_ok, no_lf. rewrite !forallb_forall. intros H x Hx. specialize (A x). rewrite (H x Hx) in A. exact A.
Qed.
Lemma no_lf_app a b : no_lf (a ++ b) = no_lf a && no_lf b.
Proof. apply forallb_app. Qed.

Lemma req_line_shape m u v : StartLine.req_compose m u v = (m ++ SP :: u ++ SP :: StartLine.proto_compose v) ++ CRLF.
Proof. rewrite Httoop.Proofs.StartLine.req_compose_lit. unfold Httoop.Proofs.StartLine.SP, Httoop.Proofs.StartLine.CRLF. rewrite <- !app_assoc. cbn [app]. rewrite <- !app_assoc. reflexivity. Qed.

Lemma req_line_ok m u v : rd_token m = true -> target_ok u = true -> ver_ok v = true ->
  let l := m ++ SP :: u ++ SP :: StartLine.proto_compose v in rd_request_line l = true /\ no_lf l = true.
Proof.
  intros Hm Hu Hv l. pose proof (ver_text v Hv) as T. unfold ver_text_ok in T. apply andb_true_iff in T as [T T3]. apply andb_true_iff in T as [T1 T2].
  unfold rd_token in Hm. pose proof Hm as Hm0. apply andb_true_iff in Hm as [Hne Hm]. destruct (token_class m Hm) as [K1 [_ K3]].
  unfold target_ok in Hu. pose proof Hu as Hu0. apply andb_true_iff in Hu as [Hune Hu]. destruct (vchars_class u Hu) as [U1 U2].
  split.
  - unfold rd_request_line, l. rewrite (cut1_app SP m _ K3). rewrite (cut1_app SP u _ U1). unfold rd_token. rewrite Hne, Hm, Hune, Hu, T1. reflexivity.
  - unfold l. rewrite no_lf_app. cbn [no_lf forallb]. fold (no_lf (u ++ SP :: StartLine.proto_compose v)). rewrite no_lf_app. cbn [no_lf forallb].
    fold (no_lf (StartLine.proto_compose v)). rewrite (no_crlf_no_lf m K1), U2, T2. reflexivity.
Qed.

Lemma resp_line_shape v code reason :
  StartLine.resp_compose v code reason = (StartLine.proto_compose v ++ SP :: StartLine.print_dec code ++ SP :: reason) ++ CRLF.
Proof. rewrite Httoop.Proofs.StartLine.resp_compose_lit. unfold Httoop.Proofs.StartLine.SP, Httoop.Proofs.StartLine.CRLF. rewrite <- !app_assoc. cbn [app]. rewrite <- !app_assoc. reflexivity. Qed.

Lemma resp_line_ok v code reason : ver_ok v = true -> code_ok code = true -> reason_ok reason = true ->
  let l := StartLine.proto_compose v ++ SP :: StartLine.print_dec code ++ SP :: reason in rd_status_line l = true /\ no_lf l = true.
Proof.
  intros Hv Hc Hr l. pose proof (ver_text v Hv) as T. unfold ver_text_ok in T. apply andb_true_iff in T as [T T3]. apply andb_true_iff in T as [T1 T2].
  pose proof (code_text code Hc) as D. unfold code_text_ok in D.
  destruct (StartLine.print_dec code) as [|a [|b [|c [|x t]]]]; try discriminate.
  apply andb_true_iff in D as [D D4]. apply andb_true_iff in D as [D D3]. apply andb_true_iff in D as [D1 D2].
  split.
  - unfold rd_status_line, l. rewrite (cut1_app SP _ _ T3). cbn [app]. rewrite T1, D1, D2, D3, beq_refl. cbn [andb]. exact Hr.
  - unfold l. rewrite no_lf_app. cbn [no_lf forallb app]. cbn [no_lf forallb] in D4. rewrite T2.
    apply andb_true_iff in D4 as [Da D4]. apply andb_true_iff in D4 as [Db D4]. apply andb_true_iff in D4 as [Dc _].
    rewrite Da, Db, Dc. cbn [andb negb]. change (beq SP LF) with false. cbn [negb andb]. exact (reason_class reason Hr).
Qed.

(* ---------------------------------------------------------------- the chunked flag on the modelled domain *)
Definition te_simple (h : hdrs) : bool := match hget H_TE h with None => true | Some v => bytes_eqb v TE_CHUNKED end.

Lemma hdr_chunked_simple h : te_simple h = true -> hdr_chunked h = Some (hmem H_TE h).
Proof.
  unfold te_simple, hdr_chunked. rewrite hmem_hget. destruct (hget H_TE h) as [v|]; [|reflexivity]. intros ->. reflexivity.
Qed.
Lemma te_simple_value h : te_simple h = true -> hget H_TE h = if hmem H_TE h then Some TE_CHUNKED else None.
Proof.
  unfold te_simple. rewrite hmem_hget. destruct (hget H_TE h) as [v|]; [|reflexivity]. intros E. apply bytes_eqb_eq in E. subst. reflexivity.
Qed.

Lemma set_chunked_false_simple h b : te_simple h = true -> set_chunked false h b = Some (hdel H_TE h, with_chunked b false).
Proof.
  intros H. unfold set_chunked. rewrite (hdr_chunked_simple h H). rewrite hmem_hget. destruct (hget H_TE h) eqn:E; [reflexivity|].
  rewrite (hdel_absent _ _ E). reflexivity.
Qed.
Lemma set_chunked_true_simple h b : te_simple h = true ->
  set_chunked true h b = Some (hset H_TE TE_CHUNKED (hdel H_CL h), with_chunked b true).
Proof.
  intros H. unfold set_chunked. assert (H' : te_simple (hdel H_CL h) = true) by (unfold te_simple in *; hg; exact H).
  rewrite (hdr_chunked_simple _ H'). pose proof (te_simple_value _ H') as V. destruct (hmem H_TE (hdel H_CL h)).
  - rewrite (hset_same _ _ _ V). reflexivity.
  - reflexivity.
Qed.
Lemma sync_chunked_simple h b : te_simple h = true ->
  sync_chunked h b = Some (if hmem H_TE h then hdel H_CL h else h, with_chunked b (hmem H_TE h)).
Proof.
  intros H. unfold sync_chunked. rewrite (hdr_chunked_simple h H). destruct (hmem H_TE h) eqn:E.
  - rewrite (set_chunked_true_simple h b H). f_equal. f_equal. apply hset_same.
    pose proof (te_simple_value h H) as V. rewrite E in V. hg. exact V.
  - unfold set_chunked. rewrite (hdr_chunked_simple h H), E. reflexivity.
Qed.

Lemma kv_ok_const K v : rd_token K = true -> name_canon K = true -> rd_no_crlf v = true -> kv_ok (K, v) = true.
Proof. intros A B D. unfold kv_ok. cbn [fst snd]. rewrite A, B, D. reflexivity. Qed.

Ltac hok := repeat first
  [ assumption
  | match goal with
    | |- hdrs_ok (hdel _ _) = true => apply hdrs_ok_hdel
    | |- hdrs_ok (hdel_all _ _) = true => apply hdrs_ok_hdel_all
    | |- hdrs_ok (hsetdefault _ _ _) = true => apply hdrs_ok_hsetdefault
    | |- hdrs_ok (hset _ _ _) = true => apply hdrs_ok_hset
    | |- hdrs_ok (if ?c then _ else _) = true => destruct c
    | |- hdrs_ok (match ?c with _ => _ end) = true => destruct c
    | |- kv_ok (_, _) = true => apply kv_ok_const; [vm_compute; reflexivity | vm_compute; reflexivity | ]
    | |- rd_no_crlf _ = true => vm_compute; reflexivity
    end ].

Lemma dec_print_no_crlf n : rd_no_crlf (dec_print n) = true.
Proof. exact (proj1 (dec_print_clean n)). Qed.

Definition body_ok (b : body) : bool := src_ok (b_src b) && hdrs_ok (b_trailer b) && rd_no_crlf (b_ctype b).

(* ---------------------------------------------------------------- bodies up to the normal form of their source *)
Definition body_equiv (b b' : body) : Prop :=
  b_chunked b' = b_chunked b /\ b_codec b' = b_codec b /\ b_ctype b' = b_ctype b /\ b_trailer b' = b_trailer b /\
  src_pieces (b_src b') = src_pieces (b_src b) /\ src_ok (b_src b') = true.

Lemma body_equiv_refl b : src_ok (b_src b) = true -> body_equiv b b.
Proof. intros H. repeat split; try reflexivity. exact H. Qed.
Lemma body_equiv_trans a b c : body_equiv a b -> body_equiv b c -> body_equiv a c.
Proof. intros [A1 [A2 [A3 [A4 [A5 A6]]]]] [B1 [B2 [B3 [B4 [B5 B6]]]]]. repeat split; try congruence. Qed.
Lemma body_len_equiv b : src_ok (b_src b) = true ->
  exists b', body_len b = (blen (src_content (b_src b)), b') /\ body_equiv b b'.
Proof.
  intros H. rewrite body_len_spec. eexists. split; [reflexivity|]. repeat split; cbn [with_src b_src]; try reflexivity.
  - apply src_after_pieces, H.
  - apply src_after_ok.
Qed.
Lemma body_equiv_content b b' : body_equiv b b' -> src_content (b_src b') = src_content (b_src b).
Proof. intros [_ [_ [_ [_ [H _]]]]]. unfold src_content. rewrite H. reflexivity. Qed.
Lemma body_equiv_chunked b b' c : body_equiv b b' -> body_equiv (with_chunked b c) (with_chunked b' c).
Proof. intros [A1 [A2 [A3 [A4 [A5 A6]]]]]. repeat split; cbn [with_chunked b_chunked b_codec b_ctype b_trailer b_src]; assumption. Qed.

(* ---------------------------------------------------------------- requests *)
Definition req_ok (q : request) : bool :=
  rd_token (q_method q) && target_ok (q_target q) && ver_ok (q_version q) &&
  hdrs_ok (q_hdrs q) && te_simple (q_hdrs q) && negb (hmem H_CL (q_hdrs q)) &&
  body_ok (q_body q) && (match q_host q with Some v => rd_no_crlf v | None => true end) &&
  (match b_codec (q_body q) with
   | None => true
   | Some _ => negb (mem_bytes (q_method q) SAFE_METHODS) && hmem H_TE (q_hdrs q)    (* finding D43: coding only with chunked framing *)
   end).

Definition q_safe (q : request) : bool := mem_bytes (q_method q) SAFE_METHODS.

(* header-only steps keep the invariant and do not touch the framing fields *)
Lemma q_step_close_spec h : hdrs_ok h = true ->
  hdrs_ok (q_step_close h) = true /\ hget H_TE (q_step_close h) = hget H_TE h /\ hget H_CL (q_step_close h) = hget H_CL h.
Proof. intros H. unfold q_step_close. destruct (conn_is_close h); (split; [hok; reflexivity | split; hg; reflexivity]). Qed.
Lemma q_step_host_spec host h : hdrs_ok h = true -> (match host with Some v => rd_no_crlf v | None => true end) = true ->
  hdrs_ok (q_step_host host h) = true /\ hget H_TE (q_step_host host h) = hget H_TE h /\ hget H_CL (q_step_host host h) = hget H_CL h.
Proof. intros H Hv. unfold q_step_host. destruct host; [destruct (hmem H_HOST h)|]; (split; [hok | split; hg; reflexivity]). Qed.
Lemma q_step_tail_spec m h : hdrs_ok h = true ->
  hdrs_ok (q_step_tail m h) = true /\ hget H_TE (q_step_tail m h) = hget H_TE h /\ hget H_CL (q_step_tail m h) = hget H_CL h.
Proof. intros H. unfold q_step_tail. destruct (mem_bytes m REQ_TRACE_METHODS); (split; [hok; reflexivity | split; hg; reflexivity]). Qed.
Lemma q_step_date_spec now m h b : hdrs_ok h = true -> rd_no_crlf now = true -> src_ok (b_src b) = true ->
  exists h' b', q_step_date now m h b = (h', b') /\ hdrs_ok h' = true /\ hget H_TE h' = hget H_TE h /\ hget H_CL h' = hget H_CL h /\ body_equiv b b'.
Proof.
  intros H Hn Hs. unfold q_step_date. destruct (mem_bytes m REQ_DATED_METHODS).
  - destruct (body_len_equiv b Hs) as [b' [E Hb]]. rewrite E. eexists. eexists. split; [reflexivity|].
    destruct (_ && _); (split; [hok | split; [hg; reflexivity | split; [hg; reflexivity | exact Hb]]]).
  - eexists. eexists. split; [reflexivity|]. repeat split; try assumption; try reflexivity.
Qed.

Lemma q_step_length_spec h b : hdrs_ok h = true -> te_simple h = true -> rd_no_crlf (b_ctype b) = true -> src_ok (b_src b) = true ->
  let n := blen (src_content (b_src b)) in
  exists h' b', q_step_length h b = Some (h', b') /\ hdrs_ok h' = true /\ hget H_TE h' = hget H_TE h /\
    hget H_CL h' = (if hmem H_TE h then hget H_CL h else if 0 <? n then Some (dec_print n) else hget H_CL h) /\ body_equiv b b'.
Proof.
  intros H Ht Hc Hs n. unfold q_step_length. destruct (body_len_equiv b Hs) as [b1 [E1 Hb1]]. rewrite E1. fold n.
  destruct (0 <? n) eqn:En.
  - rewrite (hdr_chunked_simple h Ht). destruct Hb1 as [B1 [B2 [B3 [B4 [B5 B6]]]]].
    destruct (body_len_equiv b1 B6) as [b2 [E2 Hb2]]. rewrite E2. unfold src_content. rewrite B5. fold (src_content (b_src b)). fold n.
    assert (Hb : body_equiv b b2) by (apply (body_equiv_trans b b1 b2); [repeat split; assumption | exact Hb2]).
    assert (Hc2 : rd_no_crlf (b_ctype b2) = true) by (destruct Hb as [_ [_ [E _]]]; rewrite E; exact Hc).
    eexists. eexists. split; [reflexivity|].
    destruct (hmem H_TE h); cbv iota; match goal with |- context [if hmem H_CT ?x then _ else _] => destruct (hmem H_CT x) end;
      (split; [hok; try exact Hc2; apply dec_print_no_crlf | split; [hg; reflexivity | split; [hg; reflexivity | exact Hb]]]).
  - eexists. eexists. split; [reflexivity|]. split; [exact H|]. split; [reflexivity|]. split; [destruct (hmem H_TE h); reflexivity | exact Hb1].
Qed.

Section Requests.
Variable C : ccallees.

Lemma q_prepare_framed vc now q q' : req_ok q = true -> rd_no_crlf now = true -> q_prepare now q = Some q' ->
  q_method q' = q_method q /\ q_target q' = q_target q /\ q_version q' = q_version q /\
  hdrs_ok (q_hdrs q') = true /\ hdrs_ok (b_trailer (q_body q')) = true /\ b_codec (q_body q') = b_codec (q_body q) /\
  src_pieces (b_src (q_body q')) = (if q_safe q then [] else src_pieces (b_src (q_body q))) /\ src_ok (b_src (q_body q')) = true /\
  exists fr, hframing (q_hdrs q') fr /\ body_matches C vc false fr (q_body q').
Proof.
  intros Hok Hnow. unfold req_ok in Hok.
  apply andb_true_iff in Hok as [Hok Hcodec]. apply andb_true_iff in Hok as [Hok Hhost]. apply andb_true_iff in Hok as [Hok Hbody].
  apply andb_true_iff in Hok as [Hok Hcl]. apply andb_true_iff in Hok as [Hok Hte]. apply andb_true_iff in Hok as [Hok Hh].
  apply andb_true_iff in Hok as [Hok Hver]. apply andb_true_iff in Hok as [Hmethod Htarget].
  unfold body_ok in Hbody. apply andb_true_iff in Hbody as [Hbody Hct]. apply andb_true_iff in Hbody as [Hsrc Htr].
  apply negb_true_iff in Hcl. rewrite hmem_hget in Hcl. destruct (hget H_CL (q_hdrs q)) eqn:Ecl; [discriminate|]. clear Hcl.
  unfold q_prepare, q_step_safe, q_safe.
  (* steps 1 and 2 give a header collection h2 and a body b2 *)
  assert (S12 : exists h2 b2,
    (match (if mem_bytes (q_method q) SAFE_METHODS then set_chunked false (q_hdrs q) (body_clear (q_body q)) else Some (q_hdrs q, q_body q)) with
     | Some (h1, b1) => sync_chunked h1 b1 | None => None end) = Some (h2, b2) /\
    hdrs_ok h2 = true /\ te_simple h2 = true /\ hget H_CL h2 = None /\ b_chunked b2 = hmem H_TE h2 /\
    b_codec b2 = b_codec (q_body q) /\ b_ctype b2 = b_ctype (q_body q) /\ b_trailer b2 = b_trailer (q_body q) /\ src_ok (b_src b2) = true /\
    src_pieces (b_src b2) = (if mem_bytes (q_method q) SAFE_METHODS then [] else src_pieces (b_src (q_body q))) /\
    (b_codec (q_body q) <> None -> hmem H_TE h2 = true)).
  { destruct (mem_bytes (q_method q) SAFE_METHODS) eqn:Esafe.
    - rewrite (set_chunked_false_simple _ _ Hte).
      assert (Hte1 : te_simple (hdel H_TE (q_hdrs q)) = true) by (unfold te_simple; hg; reflexivity).
      rewrite (sync_chunked_simple _ _ Hte1). rewrite (hmem_hdel_same H_TE (q_hdrs q)). eexists. eexists. split; [reflexivity|].
      repeat split; try reflexivity; try assumption.
      + hok.
      + hg. exact Ecl.
      + rewrite (hmem_hdel_same H_TE (q_hdrs q)). reflexivity.
      + intros Hne. destruct (b_codec (q_body q)); [discriminate | congruence].
    - rewrite (sync_chunked_simple _ _ Hte). eexists. eexists. split; [reflexivity|].
      pose proof (te_simple_value _ Hte) as V.
      assert (Hm : hmem H_TE (if hmem H_TE (q_hdrs q) then hdel H_CL (q_hdrs q) else q_hdrs q) = hmem H_TE (q_hdrs q)).
      { destruct (hmem H_TE (q_hdrs q)) eqn:E; [|exact E]. rewrite hmem_hdel_iff, E. reflexivity. }
      repeat split; try reflexivity; try assumption.
      + hok.
      + unfold te_simple. destruct (hmem H_TE (q_hdrs q)); hg; rewrite V; reflexivity.
      + destruct (hmem H_TE (q_hdrs q)); hg; [reflexivity | exact Ecl].
      + cbn [with_chunked b_chunked]. symmetry. exact Hm.
      + intros Hne. rewrite Hm. destruct (b_codec (q_body q)); [|congruence]. apply andb_true_iff in Hcodec as [_ Hc]. exact Hc. }
  destruct S12 as [h2 [b2 [E12 [Hh2 [Hte2 [Hcl2 [Hch2 [Hco2 [Hct2 [Htr2 [Hs2 [Hp2 Hcod2]]]]]]]]]]]].
  destruct (if mem_bytes (q_method q) SAFE_METHODS then _ else _) as [[h1 b1]|]; [|discriminate]. rewrite E12. clear E12.
  destruct (q_step_close_spec h2 Hh2) as [Hh3 [Hte3 Hcl3]].
  assert (Hts3 : te_simple (q_step_close h2) = true) by (unfold te_simple in *; rewrite Hte3; exact Hte2).
  assert (Hct2' : rd_no_crlf (b_ctype b2) = true) by (rewrite Hct2; exact Hct).
  destruct (q_step_length_spec (q_step_close h2) b2 Hh3 Hts3 Hct2' Hs2) as [h4 [b4 [E4 [Hh4 [Hte4 [Hcl4 Hb4]]]]]]. cbv zeta in Hcl4.
  rewrite E4. clear E4.
  destruct (q_step_host_spec (q_host q) h4 Hh4 Hhost) as [Hh5 [Hte5 Hcl5]].
  assert (Hs4 : src_ok (b_src b4) = true) by (destruct Hb4 as [_ [_ [_ [_ [_ X]]]]]; exact X).
  destruct (q_step_date_spec now (q_method q) _ b4 Hh5 Hnow Hs4) as [h6 [b6 [E6 [Hh6 [Hte6 [Hcl6 Hb6]]]]]]. rewrite E6. clear E6.
  destruct (q_step_tail_spec (q_method q) h6 Hh6) as [Hh8 [Hte8 Hcl8]].
  intros E. injection E as <-. cbn [q_with q_method q_target q_version q_hdrs q_body].
  pose proof (body_equiv_trans _ _ _ Hb4 Hb6) as Hb. destruct Hb as [B1 [B2 [B3 [B4 [B5 B6]]]]].
  split; [reflexivity|]. split; [reflexivity|]. split; [reflexivity|]. split; [exact Hh8|].
  split; [rewrite B4, Htr2; exact Htr|]. split; [congruence|]. split; [congruence|]. split; [exact B6|].
  (* the framing *)
  assert (HTE : hget H_TE (q_step_tail (q_method q) h6) = hget H_TE h2) by congruence.
  assert (Hm3 : hmem H_TE (q_step_close h2) = hmem H_TE h2) by (rewrite !hmem_hget, Hte3; reflexivity).
  assert (HCL : hget H_CL (q_step_tail (q_method q) h6) =
                if hmem H_TE h2 then None else if 0 <? blen (src_content (b_src b2)) then Some (dec_print (blen (src_content (b_src b2)))) else None).
  { rewrite Hcl8, Hcl6, Hcl5, Hcl4, Hm3, Hcl3, Hcl2. destruct (hmem H_TE h2); [reflexivity|]. destruct (0 <? _); reflexivity. }
  pose proof (te_simple_value _ Hte2) as V. rewrite <- HTE in V.
  assert (Hpay : b_codec (q_body q) = None -> payload C vc b6 = src_content (b_src b2)).
  { intros Ec. unfold payload, coded. rewrite B2, Hco2, Ec. cbn [encode_pieces]. unfold src_content. rewrite B5. reflexivity. }
  destruct (hmem H_TE h2) eqn:Et.
  - exists FChunked. split; [apply HF_chunked; assumption|]. unfold body_matches. rewrite B1. exact Hch2.
  - assert (Ec : b_codec (q_body q) = None).
    { destruct (b_codec (q_body q)) eqn:Ec; [|reflexivity]. assert (X : false = true) by (apply Hcod2; discriminate). discriminate. }
    destruct (0 <? blen (src_content (b_src b2))) eqn:En.
    + exists (FLength (blen (src_content (b_src b2)))). split; [apply HF_length; assumption|]. unfold body_matches. rewrite B1, (Hpay Ec). split; [exact Hch2 | reflexivity].
    + exists FNone. split; [apply HF_none; assumption|]. unfold body_matches. rewrite B1, (Hpay Ec). split; [exact Hch2|].
      apply N.ltb_ge in En. unfold blen in En. destruct (src_content (b_src b2)); [reflexivity | cbn [List.length] in En; lia].
Qed.

End Requests.

(* ---------------------------------------------------------------- responses *)
Definition codec_via_header (h : hdrs) (b : body) : bool :=
  match b_codec b with None => true | Some _ => hmem H_CE h end.
(* finding D59: on the tree as found the Body object must not carry a codec that the header collection does not announce
   (what an earlier prepare of the same message object leaves behind when the caller replaces the headers); after the
   repair prepare itself resets it, and the precondition is gone: ANY codec state of the Body object is admitted *)
Definition codec_ok (v59 : variant) (h : hdrs) (b : body) : bool :=
  match v59 with AsFound => codec_via_header h b | Repaired => true end.
Definition resp_ok (v59 : variant) (r : response) : bool :=
  ver_ok (r_version r) && code_ok (r_code r) && reason_ok (r_reason r) &&
  hdrs_ok (r_hdrs r) && te_simple (r_hdrs r) && body_ok (r_body r) && codec_ok v59 (r_hdrs r) (r_body r).

Lemma hdrs_ok_value h k v : hdrs_ok h = true -> hget k h = Some v -> rd_no_crlf v = true.
Proof.
  intros H. unfold hdrs_ok in H. apply andb_true_iff in H as [H _]. induction h as [|[k' v'] h IH]; cbn [hget]; [discriminate|].
  cbn [forallb] in H. apply andb_true_iff in H as [Hkv Hh]. destruct (bytes_eqb k k'); [|exact (IH Hh)].
  intros E. injection E as <-. unfold kv_ok in Hkv. cbn [fst snd] in Hkv. apply andb_true_iff in Hkv as [Hkv _]. apply andb_true_iff in Hkv as [_ Hv]. exact Hv.
Qed.

(* table facts *)
Lemma status_remove_facts code ks : assoc_N code STATUS_REMOVE = Some ks ->
  mem_bytes H_TE ks = false /\ (mem_bytes H_CL ks = true -> rfc_bodiless_status code = true).
Proof.
  assert (A : forallb (fun e : N * list bytes => negb (mem_bytes H_TE (snd e)) && implb (mem_bytes H_CL (snd e)) (rfc_bodiless_status (fst e))) STATUS_REMOVE = true)
    by (vm_compute; reflexivity).
  rewrite forallb_forall in A. intros E.
  assert (Hin : In (code, ks) STATUS_REMOVE).
  { clear A. induction STATUS_REMOVE as [|[c k] l IH]; cbn [assoc_N] in E; [discriminate|]. destruct (code =? c) eqn:Ec.
    - apply N.eqb_eq in Ec. injection E as <-. subst. left. reflexivity.
    - right. exact (IH E). }
  specialize (A _ Hin). cbn [fst snd] in A. apply andb_true_iff in A as [A1 A2]. apply negb_true_iff in A1. split; [exact A1|].
  intros H. rewrite H in A2. exact A2.
Qed.
Lemma status_allow_clean code v : assoc_N code STATUS_ALLOW = Some v -> rd_no_crlf v = true.
Proof.
  assert (A : forallb (fun e : N * bytes => rd_no_crlf (snd e)) STATUS_ALLOW = true) by (vm_compute; reflexivity).
  rewrite forallb_forall in A. intros E.
  assert (Hin : In (code, v) STATUS_ALLOW).
  { clear A. induction STATUS_ALLOW as [|[c k] l IH]; cbn [assoc_N] in E; [discriminate|]. destruct (code =? c) eqn:Ec.
    - apply N.eqb_eq in Ec. injection E as <-. subst. left. reflexivity.
    - right. exact (IH E). }
  exact (A _ Hin).
Qed.
Lemma bodiless_dropped code : code_ok code = true -> rfc_bodiless_status code = true -> no_body_status code = true.
Proof.
  unfold code_ok. intros H. apply andb_true_iff in H as [H1 H2]. apply N.leb_le in H1, H2.
  assert (A : forallb (fun c => implb (rfc_bodiless_status c) (no_body_status c)) (map N.of_nat (seq 100 500)) = true) by (vm_compute; reflexivity).
  rewrite forallb_forall in A. intros Hb. assert (Hin : In code (map N.of_nat (seq 100 500))) by (rewrite <- (N2Nat.id code); apply in_map, in_seq; lia).
  specialize (A _ Hin). rewrite Hb in A. exact A.
Qed.

Lemma r_step_status_spec now code h : hdrs_ok h = true -> rd_no_crlf now = true ->
  let h' := r_step_status now code h in
  hdrs_ok h' = true /\ hget H_TE h' = hget H_TE h /\
  hget H_CL h' = (match assoc_N code STATUS_REMOVE with Some ks => if mem_bytes H_CL ks then None else hget H_CL h | None => hget H_CL h end).
Proof.
  intros H Hn h'. unfold h', r_step_status. split; [|split].
  - destruct (assoc_N code STATUS_ALLOW) eqn:Ea; destruct (assoc_N code STATUS_REMOVE); hok; try exact Hn; exact (status_allow_clean _ _ Ea).
  - destruct (assoc_N code STATUS_REMOVE) as [ks|] eqn:Er; destruct (assoc_N code STATUS_ALLOW); hg;
      try (rewrite (hget_hdel_all ks) by exact (proj1 (status_remove_facts _ _ Er))); hg; reflexivity.
  - destruct (assoc_N code STATUS_REMOVE) as [ks|] eqn:Er; destruct (assoc_N code STATUS_ALLOW); hg; try reflexivity;
      (destruct (mem_bytes H_CL ks) eqn:Em; [apply hget_hdel_all_in; exact Em | rewrite (hget_hdel_all ks _ _ Em); hg; reflexivity]).
Qed.

Lemma r_step_close_spec v code h : hdrs_ok h = true ->
  let h' := r_step_close v code h in hdrs_ok h' = true /\ hget H_TE h' = hget H_TE h /\ hget H_CL h' = hget H_CL h.
Proof.
  intros H h'. unfold h', r_step_close, r_set_close.
  destruct (_ && v11 v); [|destruct (_ && negb (v11 v)); [|destruct (conn_is_close h)]]; (split; [hok; reflexivity | split; hg; reflexivity]).
Qed.

Lemma r_step_ctype_spec h b : hdrs_ok h = true -> rd_no_crlf (b_ctype b) = true -> src_ok (b_src b) = true ->
  exists h' b', r_step_ctype h b = (h', b') /\ hdrs_ok h' = true /\ hget H_TE h' = hget H_TE h /\ hget H_CL h' = hget H_CL h /\ body_equiv b b'.
Proof.
  intros H Hc Hs. unfold r_step_ctype. destruct (hmem H_CT h).
  - eexists. eexists. split; [reflexivity|]. repeat split; try assumption; reflexivity.
  - destruct (body_len_equiv b Hs) as [b1 [E1 Hb1]]. rewrite E1. eexists. eexists. split; [reflexivity|].
    assert (Hc1 : rd_no_crlf (b_ctype b1) = true) by (destruct Hb1 as [_ [_ [E _]]]; rewrite E; exact Hc).
    destruct (0 <? _); (split; [hok | split; [hg; reflexivity | split; [hg; reflexivity | exact Hb1]]]).
Qed.

Lemma r_step_ranges_spec code rm h b : hdrs_ok h = true -> te_simple h = true ->
  exists h', r_step_ranges code rm h b = Some h' /\ hdrs_ok h' = true /\ hget H_TE h' = hget H_TE h /\ hget H_CL h' = hget H_CL h.
Proof.
  intros H Ht. unfold r_step_ranges. rewrite (hdr_chunked_simple h Ht). eexists. split; [reflexivity|].
  set (h10 := if _ || hmem H_LAST_MODIFIED h then hsetdefault H_ACCEPT_RANGES ACCEPT_RANGES_VALUE h else h).
  assert (H10 : hdrs_ok h10 = true) by (unfold h10; hok; reflexivity).
  assert (T10 : hget H_TE h10 = hget H_TE h /\ hget H_CL h10 = hget H_CL h) by (unfold h10; destruct (_ || _); split; hg; reflexivity).
  destruct T10 as [T10 C10].
  assert (Hcr : rd_no_crlf (UNSAT_RANGE_PREFIX ++ match hget H_CL h10 with Some v => v | None => UNSAT_RANGE_NOLEN end) = true).
  { unfold rd_no_crlf. rewrite forallb_app. apply andb_true_iff. split; [reflexivity|].
    destruct (hget H_CL h10) eqn:E; [exact (hdrs_ok_value _ _ _ H10 E) | reflexivity]. }
  destruct (code =? 416); destruct (mem_bytes rm REQ_TRACE_METHODS); (split; [hok | split; hg; assumption]).
Qed.

Section Responses.
Variable C : ccallees.

(* the framing announced by the prepared header collection and what the prepared body emits *)
Lemma r_prepare_framed v59 v29 vc now r r' : resp_ok v59 r = true -> rd_no_crlf now = true -> r_prepare C v59 v29 now r = Some r' ->
  let bodiless := r_bodiless (r_code r) (r_rmethod r) in
  r_version r' = r_version r /\ r_code r' = r_code r /\ r_reason r' = r_reason r /\ r_rmethod r' = r_rmethod r /\
  hdrs_ok (r_hdrs r') = true /\ hdrs_ok (b_trailer (r_body r')) = true /\ src_ok (b_src (r_body r')) = true /\
  src_pieces (b_src (r_body r')) = (if no_body_status (r_code r) || bytes_eqb (r_rmethod r) M_HEAD then [] else src_pieces (b_src (r_body r))) /\
  exists fr, hframing (r_hdrs r') fr /\
    (bodiless = false -> body_matches C vc false fr (r_body r') /\ (fr <> FChunked -> b_codec (r_body r') = None) /\ fr <> FNone) /\
    (bodiless = true -> (v29 = Repaired \/ fr <> FChunked) -> body_octets C vc (r_body r') = []).
Proof.
  intros Hok Hnow. unfold resp_ok in Hok.
  apply andb_true_iff in Hok as [Hok Hcodec]. apply andb_true_iff in Hok as [Hok Hbody]. apply andb_true_iff in Hok as [Hok Hte].
  apply andb_true_iff in Hok as [Hok Hh]. apply andb_true_iff in Hok as [Hok Hreason]. apply andb_true_iff in Hok as [Hver Hcode].
  unfold body_ok in Hbody. apply andb_true_iff in Hbody as [Hbody Hct]. apply andb_true_iff in Hbody as [Hsrc Htr].
  unfold r_prepare. set (code := r_code r). set (rm := r_rmethod r).
  set (b1 := if no_body_status code then body_clear (r_body r) else r_body r).
  assert (Hb1 : b_chunked b1 = b_chunked (r_body r) /\ b_codec b1 = b_codec (r_body r) /\ b_ctype b1 = b_ctype (r_body r) /\ b_trailer b1 = b_trailer (r_body r) /\
                src_ok (b_src b1) = true /\ src_pieces (b_src b1) = if no_body_status code then [] else src_pieces (b_src (r_body r))).
  { unfold b1. destruct (no_body_status code); repeat split; try reflexivity; exact Hsrc. }
  destruct Hb1 as [B1a [B1b [B1c [B1d [B1e B1f]]]]].
  (* coding + sync *)
  assert (S23 : forall x, r_step_coding C v59 (r_hdrs r) b1 = Some x -> exists h3 b3,
    sync_chunked (fst x) (snd x) = Some (h3, b3) /\ hdrs_ok h3 = true /\ te_simple h3 = true /\ (hmem H_TE h3 = true -> hget H_CL h3 = None) /\
    b_chunked b3 = hmem H_TE h3 /\ (b_codec b3 <> None -> hmem H_TE h3 = true) /\ b_ctype b3 = b_ctype b1 /\ b_trailer b3 = b_trailer b1 /\ b_src b3 = b_src b1).
  { intros [h2 b2]. unfold r_step_coding. cbn [fst snd].
    destruct (hget H_CE (r_hdrs r)) as [ce|] eqn:Ece.
    - destruct (cc_ce C ce) as [id|]; [|discriminate]. rewrite (set_chunked_true_simple _ _ Hte). intros E. injection E as <- <-.
      set (h2 := hset H_TE TE_CHUNKED (hdel H_CL (r_hdrs r))).
      assert (Hh2 : hdrs_ok h2 = true) by (unfold h2; hok; reflexivity).
      assert (Ht2 : te_simple h2 = true) by (unfold te_simple, h2; hg; reflexivity).
      assert (Hm2 : hmem H_TE h2 = true) by (unfold h2; rewrite hmem_hset_iff; reflexivity).
      rewrite (sync_chunked_simple _ _ Ht2), Hm2. eexists. eexists. split; [reflexivity|].
      assert (Hm3 : hmem H_TE (hdel H_CL h2) = true) by (rewrite hmem_hdel_iff, Hm2; reflexivity).
      repeat split; try reflexivity.
      + hok.
      + unfold te_simple, h2. hg. reflexivity.
      + intros _. hg. reflexivity.
      + cbn [with_chunked b_chunked]. symmetry. exact Hm3.
      + intros _. exact Hm3.
    - intros E. injection E as <- <-. rewrite (sync_chunked_simple _ _ Hte). eexists. eexists. split; [reflexivity|].
      assert (Hco : b_codec (match v59 with AsFound => b1 | Repaired => with_codec b1 None end) <> None -> hmem H_CE (r_hdrs r) = true).
      { destruct v59; cbn [with_codec b_codec codec_ok] in *; [|congruence]. rewrite B1b. intros Hne. unfold codec_via_header in Hcodec.
        destruct (b_codec (r_body r)); [exact Hcodec | congruence]. }
      assert (Hm : hmem H_TE (if hmem H_TE (r_hdrs r) then hdel H_CL (r_hdrs r) else r_hdrs r) = hmem H_TE (r_hdrs r)).
      { destruct (hmem H_TE (r_hdrs r)) eqn:E; [|exact E]. rewrite hmem_hdel_iff, E. reflexivity. }
      pose proof (te_simple_value _ Hte) as V.
      repeat split; try reflexivity.
      + hok.
      + unfold te_simple. destruct (hmem H_TE (r_hdrs r)); hg; rewrite V; reflexivity.
      + rewrite Hm. intros Ht. rewrite Ht. hg. reflexivity.
      + cbn [with_chunked b_chunked]. symmetry. exact Hm.
      + cbn [with_chunked b_codec]. intros Hne. apply Hco in Hne. rewrite hmem_hget, Ece in Hne. discriminate.
      + destruct v59; reflexivity.
      + destruct v59; reflexivity.
      + destruct v59; reflexivity. }
  destruct (r_step_coding C v59 (r_hdrs r) b1) as [[h2 b2]|] eqn:E2; [|discriminate].
  destruct (S23 _ eq_refl) as [h3 [b3 [E3 [Hh3 [Ht3 [Hcl3 [Hch3 [Hco3 [Hct3 [Htr3 Hsrc3]]]]]]]]]]. cbn [fst snd] in E3. rewrite E3. clear E3 S23.
  set (t := hmem H_TE h3) in *.
  pose proof (te_simple_value _ Ht3) as V3. fold t in V3.
  (* length *)
  assert (Hs3 : src_ok (b_src b3) = true) by (rewrite Hsrc3; exact B1e).
  set (n := blen (src_content (b_src b1))).
  assert (S4 : exists h4 b4, r_step_length h3 b3 = Some (h4, b4) /\ hdrs_ok h4 = true /\ hget H_TE h4 = hget H_TE h3 /\
                 hget H_CL h4 = (if t then None else Some (dec_print n)) /\ body_equiv b3 b4).
  { unfold r_step_length. rewrite (hdr_chunked_simple h3 Ht3). fold t. destruct t eqn:Et.
    - eexists. eexists. split; [reflexivity|]. split; [exact Hh3|]. split; [reflexivity|]. split; [apply Hcl3; reflexivity | apply body_equiv_refl, Hs3].
    - destruct (body_len_equiv b3 Hs3) as [b4 [E4 Hb4]]. rewrite E4, Hsrc3. fold n. eexists. eexists. split; [reflexivity|].
      split; [hok; apply dec_print_no_crlf|]. split; [hg; reflexivity|]. split; [hg; reflexivity | exact Hb4]. }
  destruct S4 as [h4 [b4 [E4 [Hh4 [Hte4 [Hcl4 Hb4]]]]]]. rewrite E4. clear E4.
  destruct (r_step_status_spec now code h4 Hh4 Hnow) as [Hh7 [Hte7 Hcl7]].
  destruct (r_step_close_spec (r_version r) code _ Hh7) as [Hh8 [Hte8 Hcl8]].
  assert (Hct4 : rd_no_crlf (b_ctype b4) = true) by (destruct Hb4 as [_ [_ [E _]]]; rewrite E, Hct3, B1c; exact Hct).
  assert (Hs4 : src_ok (b_src b4) = true) by (destruct Hb4 as [_ [_ [_ [_ [_ X]]]]]; exact X).
  destruct (r_step_ctype_spec _ b4 Hh8 Hct4 Hs4) as [h9 [b9 [E9 [Hh9 [Hte9 [Hcl9 Hb9]]]]]]. rewrite E9. clear E9.
  assert (Ht9 : te_simple h9 = true) by (unfold te_simple in *; rewrite Hte9, Hte8, Hte7, Hte4; exact Ht3).
  destruct (r_step_ranges_spec code rm h9 b9 Hh9 Ht9) as [h13 [E13 [Hh13 [Hte13 Hcl13]]]]. rewrite E13. clear E13.
  intros E. injection E as <-. cbv zeta. cbn [r_with r_version r_code r_reason r_rmethod r_hdrs r_body]. fold code rm.
  pose proof (body_equiv_trans _ _ _ Hb4 Hb9) as Hb. destruct Hb as [G1 [G2 [G3 [G4 [G5 G6]]]]].
  (* the final body *)
  set (bf := r_step_head v29 code rm b9).
  assert (Htrf : b_trailer bf = b_trailer (r_body r)).
  { unfold bf, r_step_head. destruct v29; [|destruct (r_bodiless code rm)]; destruct (bytes_eqb rm M_HEAD); cbn; congruence. }
  assert (Hsf : src_ok (b_src bf) = true).
  { unfold bf, r_step_head. destruct v29; [|destruct (r_bodiless code rm)]; destruct (bytes_eqb rm M_HEAD); cbn; try reflexivity; exact G6. }
  assert (Hpf : src_pieces (b_src bf) = if no_body_status code || bytes_eqb rm M_HEAD then [] else src_pieces (b_src (r_body r))).
  { unfold bf, r_step_head. destruct v29; [|destruct (r_bodiless code rm)]; destruct (bytes_eqb rm M_HEAD); cbn [with_codec with_chunked body_clear with_src b_src];
      rewrite ?orb_true_r, ?orb_false_r; try reflexivity; rewrite G5, Hsrc3, B1f; reflexivity. }
  split; [reflexivity|]. split; [reflexivity|]. split; [reflexivity|]. split; [reflexivity|]. split; [exact Hh13|].
  split; [rewrite Htrf; exact Htr|]. split; [exact Hsf|]. split; [exact Hpf|].
  (* framing *)
  assert (HTE : hget H_TE h13 = if t then Some TE_CHUNKED else None) by (rewrite Hte13, Hte9, Hte8, Hte7, Hte4; exact V3).
  set (removed := match assoc_N code STATUS_REMOVE with Some ks => mem_bytes H_CL ks | None => false end).
  assert (HCL : hget H_CL h13 = if t then None else if removed then None else Some (dec_print n)).
  { rewrite Hcl13, Hcl9, Hcl8, Hcl7, Hcl4. unfold removed. destruct (assoc_N code STATUS_REMOVE) as [ks|]; [destruct (mem_bytes H_CL ks)|]; destruct t; reflexivity. }
  assert (Hrem : removed = true -> r_bodiless code rm = true).
  { unfold removed. destruct (assoc_N code STATUS_REMOVE) as [ks|] eqn:Er; [|discriminate]. intros Hm.
    unfold r_bodiless. rewrite (proj2 (status_remove_facts _ _ Er) Hm). apply orb_true_r. }
  exists (if t then FChunked else if removed then FNone else FLength n). split.
  - destruct t; [apply HF_chunked; assumption|]. destruct removed; [apply HF_none | apply HF_length]; assumption.
  - split.
    + (* a body is sent *)
      intros Hbl. assert (Hr : removed = false) by (destruct removed; [rewrite (Hrem eq_refl) in Hbl; discriminate | reflexivity]).
      assert (Ehead : bytes_eqb rm M_HEAD = false) by (unfold r_bodiless in Hbl; apply orb_false_iff in Hbl as [X _]; exact X).
      assert (Ebf : bf = b9) by (unfold bf, r_step_head; rewrite Hbl, Ehead; destruct v29; reflexivity).
      rewrite Ebf, Hr. unfold body_matches. rewrite G1, Hch3. fold t. destruct t eqn:Et.
      * split; [reflexivity|]. split; [intros X; congruence | discriminate].
      * assert (Ec : b_codec b9 = None).
        { rewrite G2. destruct (b_codec b3) eqn:Ec; [|reflexivity]. assert (X : false = true) by (apply Hco3; discriminate). discriminate. }
        split; [|split; [intros _; exact Ec | discriminate]]. split; [reflexivity|]. unfold payload, coded. rewrite Ec. cbn [encode_pieces].
        unfold n, src_content. rewrite G5, Hsrc3. reflexivity.
    + (* no body may be sent *)
      intros Hbl Hv. unfold body_octets. rewrite body_iter_spec. cbn [fst].
      assert (Hnp : src_pieces (b_src bf) = []).
      { rewrite Hpf. unfold r_bodiless in Hbl. apply orb_true_iff in Hbl as [X|X]; [rewrite X, orb_true_r; reflexivity|].
        rewrite (bodiless_dropped code Hcode X). reflexivity. }
      unfold payload, coded. rewrite Hnp.
      destruct v29.
      * destruct Hv as [Hv|Hv]; [discriminate|]. destruct t eqn:Et; [congruence|].
        assert (Ec : b_codec b9 = None).
        { rewrite G2. destruct (b_codec b3) eqn:Ec; [|reflexivity]. assert (X : false = true) by (apply Hco3; discriminate). discriminate. }
        unfold bf, r_step_head. destruct (bytes_eqb rm M_HEAD); cbn [body_clear with_src b_chunked b_codec]; rewrite G1, Hch3, Ec; reflexivity.
      * unfold bf, r_step_head. rewrite Hbl. destruct (bytes_eqb rm M_HEAD); cbn [body_clear with_src with_chunked b_chunked b_codec]; destruct (b_codec b9); destruct vc; reflexivity.
Qed.

End Responses.

(* ---------------------------------------------------------------- C05, clause 1 *)
Section Main.
Variable C : ccallees.
Hypothesis HC : lsplit_clean C.

(* what the reader must find: one message, this start line, this framing, this payload; the framing tells the truth *)
Definition framed_as (is_req bodiless : bool) (d start : bytes) (fr : framing) (pl : bytes) : Prop :=
  exists r, rd_message is_req bodiless d = Some r /\ rd_start r = start /\ rd_frame r = fr /\ rd_payload r = pl /\
    (bodiless = false -> match fr with FChunked => True | FLength n => n = blen pl | FNone => pl = [] end).

Lemma framed_wf is_req bodiless d start fr pl : framed_as is_req bodiless d start fr pl -> wf_http1 is_req bodiless d pl.
Proof. intros [r [A [_ [_ [B _]]]]]. exists r. split; assumption. Qed.

Definition q_content (vc : variant) (q : request) : bytes :=
  concat_bytes (encode_pieces C vc (b_codec (q_body q)) (if q_safe q then [] else src_pieces (b_src (q_body q)))).

Theorem request_framing vc now q q' : req_ok q = true -> rd_no_crlf now = true -> q_prepare now q = Some q' ->
  exists fr, framed_as true false (fst (q_compose C vc q'))
    (q_method q ++ SP :: q_target q ++ SP :: StartLine.proto_compose (q_version q)) fr (q_content vc q).
Proof.
  intros Hok Hnow Hp. destruct (q_prepare_framed C vc now q q' Hok Hnow Hp) as [Em [Et [Ev [Hh [Htr [Hco [Hpi [Hso [fr [Hf Hb]]]]]]]]]].
  unfold req_ok in Hok.
  apply andb_true_iff in Hok as [Hok _]. apply andb_true_iff in Hok as [Hok _]. apply andb_true_iff in Hok as [Hok _].
  apply andb_true_iff in Hok as [Hok _]. apply andb_true_iff in Hok as [Hok _]. apply andb_true_iff in Hok as [Hok _].
  apply andb_true_iff in Hok as [Hok Hver]. apply andb_true_iff in Hok as [Hmethod Htarget].
  destruct (req_line_ok _ _ _ Hmethod Htarget Hver) as [L1 L2]. cbv zeta in L1, L2.
  exists fr. unfold q_compose. rewrite body_iter_spec. cbn [fst]. rewrite Em, Et, Ev, req_line_shape.
  set (line := q_method q ++ SP :: q_target q ++ SP :: StartLine.proto_compose (q_version q)) in *. rewrite <- (app_assoc line CRLF).
  pose proof (message_read C HC vc true false _ (q_hdrs q') (q_body q') fr L2 L1 Hh Htr Hf Hb) as [r [R1 [R2 [R3 R4]]]].
  unfold body_octets in R1. rewrite body_iter_spec in R1. cbn [fst] in R1.
  exists r. split; [exact R1|]. split; [exact R2|]. split; [exact R3|].
  assert (Epl : payload C vc (q_body q') = q_content vc q) by (unfold payload, coded, q_content; rewrite Hco, Hpi; reflexivity).
  split; [rewrite R4; exact Epl|]. intros _. unfold body_matches in Hb. rewrite <- Epl. destruct fr; [exact (proj2 Hb) | exact (proj2 Hb) | exact I].
Qed.

Definition r_sent_pieces (r : response) : list bytes :=
  if no_body_status (r_code r) || bytes_eqb (r_rmethod r) M_HEAD then [] else src_pieces (b_src (r_body r)).

Theorem response_framing v59 v29 vc now r r' : resp_ok v59 r = true -> rd_no_crlf now = true -> r_prepare C v59 v29 now r = Some r' ->
  let bodiless := r_bodiless (r_code r) (r_rmethod r) in
  (v29 = Repaired \/ bodiless = false \/ hmem H_TE (r_hdrs r') = false) ->
  exists fr, framed_as false bodiless (fst (r_compose C vc r'))
    (StartLine.proto_compose (r_version r) ++ SP :: StartLine.print_dec (r_code r) ++ SP :: r_reason r) fr
    (if bodiless then [] else concat_bytes (encode_pieces C vc (b_codec (r_body r')) (r_sent_pieces r))) /\
    (fr <> FChunked -> bodiless = false -> b_codec (r_body r') = None).
Proof.
  intros Hok Hnow Hp bodiless Hv.
  destruct (r_prepare_framed C v59 v29 vc now r r' Hok Hnow Hp) as [Ev [Ec [Er [Em [Hh [Htr [Hso [Hpi [fr [Hf [Hb1 Hb2]]]]]]]]]]]. cbv zeta in Hb1, Hb2. fold bodiless in Hb1, Hb2.
  unfold resp_ok in Hok.
  apply andb_true_iff in Hok as [Hok _]. apply andb_true_iff in Hok as [Hok _]. apply andb_true_iff in Hok as [Hok _].
  apply andb_true_iff in Hok as [Hok _]. apply andb_true_iff in Hok as [Hok Hreason]. apply andb_true_iff in Hok as [Hver Hcode].
  destruct (resp_line_ok _ _ _ Hver Hcode Hreason) as [L1 L2]. cbv zeta in L1, L2.
  exists fr.
  assert (Hbm : body_matches C vc bodiless fr (r_body r')).
  { unfold body_matches. destruct bodiless eqn:Eb.
    - apply Hb2; [reflexivity|]. destruct Hv as [Hv|[Hv|Hv]]; [left; exact Hv | discriminate | right].
      intros ->. inversion Hf as [Ht _ | |]. rewrite hmem_hget, Ht in Hv. discriminate.
    - exact (proj1 (Hb1 eq_refl)). }
  split.
  - unfold r_compose. rewrite body_iter_spec. cbn [fst]. rewrite Ev, Ec, Er, resp_line_shape.
    set (line := StartLine.proto_compose (r_version r) ++ SP :: StartLine.print_dec (r_code r) ++ SP :: r_reason r) in *. rewrite <- (app_assoc line CRLF).
    pose proof (message_read C HC vc false bodiless _ (r_hdrs r') (r_body r') fr L2 L1 Hh Htr Hf Hbm) as [res [R1 [R2 [R3 R4]]]].
    unfold body_octets in R1. rewrite body_iter_spec in R1. cbn [fst] in R1.
    exists res. split; [exact R1|]. split; [exact R2|]. split; [exact R3|].
    assert (Epl : payload C vc (r_body r') = concat_bytes (encode_pieces C vc (b_codec (r_body r')) (r_sent_pieces r))).
    { unfold payload, coded, r_sent_pieces. rewrite Hpi. reflexivity. }
    split; [rewrite R4, Epl; reflexivity|]. intros Eb. rewrite Eb in *. unfold body_matches in Hbm. rewrite <- Epl.
    destruct fr; [exact (proj2 Hbm) | exact (proj2 Hbm) | exact I].
  - intros Hne Eb. exact (proj1 (proj2 (Hb1 Eb)) Hne).
Qed.

End Main.

(* without content coding the framed payload is the content supplied *)
Lemma encode_none C vc ps : concat_bytes (encode_pieces C vc None ps) = concat_bytes ps.
Proof. reflexivity. Qed.

(* finding D29 on the pinned tree: a HEAD response prepared with chunked framing still emits the last-chunk *)
Definition C_plain : ccallees := {| cc_comp := fun _ d => d; cc_lsplit := fun _ v => [v]; cc_ce := fun _ => None |}.
Definition D29_response : response :=
  {| r_version := (1, 1); r_code := 200; r_reason := X "4f4b"; r_rmethod := M_HEAD;
     r_hdrs := [(H_TE, TE_CHUNKED)];
     r_body := {| b_src := SBytesIO (X "68656c6c6f") 0; b_chunked := true; b_codec := None; b_ctype := X "746578742f706c61696e"; b_trailer := [] |} |}.
Definition D29_now : bytes := X "5468752c203031204a616e20313937302030303a31363a343020474d54".

Lemma lsplit_clean_plain : lsplit_clean C_plain.
Proof. intros k v H. cbn. rewrite H. reflexivity. Qed.

Lemma head_chunked_refuted :
  resp_ok AsFound D29_response = true /\
  exists r', r_prepare C_plain AsFound AsFound D29_now D29_response = Some r' /\
             forall pl, ~ wf_http1 false true (fst (r_compose C_plain AsFound r')) pl.
Proof.
  split; [vm_compute; reflexivity|]. eexists. split; [vm_compute; reflexivity|].
  intros pl [res [H _]]. vm_compute in H. discriminate.
Qed.
Lemma head_chunked_repaired_example :
  exists r', r_prepare C_plain AsFound Repaired D29_now D29_response = Some r' /\ wf_http1 false true (fst (r_compose C_plain AsFound r')) [].
Proof. eexists. split; [vm_compute; reflexivity|]. eexists. split; vm_compute; reflexivity. Qed.

(* finding D59 on the tree as found: the Body object of a response that was prepared once with Content-Encoding: gzip still carries
   the codec; the caller replaced the headers (no Content-Encoding) and the content (b'second').  prepare announces the length of the
   content and compose sends the coded octets: not one well-formed message.  [C_mark]: a coder whose output differs from its input. *)
Definition C_mark : ccallees := {| cc_comp := fun _ d => X "1f8b" ++ d; cc_lsplit := fun _ v => [v]; cc_ce := fun _ => None |}.
Definition D59_response : response :=
  {| r_version := (1, 1); r_code := 200; r_reason := X "4f4b"; r_rmethod := X "474554";
     r_hdrs := [(X "582d41", X "76")];
     r_body := {| b_src := SBytesIO (X "7365636f6e64") 0; b_chunked := false; b_codec := Some 1; b_ctype := X "746578742f706c61696e"; b_trailer := [] |} |}.

Lemma stale_coding_refuted :
  resp_ok Repaired D59_response = true /\ resp_ok AsFound D59_response = false /\
  exists r', r_prepare C_mark AsFound Repaired D29_now D59_response = Some r' /\
             hget H_CL (r_hdrs r') = Some (X "36") /\ hget H_CE (r_hdrs r') = None /\ b_codec (r_body r') = Some 1 /\
             forall pl, ~ wf_http1 false false (fst (r_compose C_mark AsFound r')) pl.
Proof.
  split; [vm_compute; reflexivity|]. split; [vm_compute; reflexivity|]. eexists. split; [vm_compute; reflexivity|].
  split; [vm_compute; reflexivity|]. split; [vm_compute; reflexivity|]. split; [vm_compute; reflexivity|].
  intros pl [res [H _]]. vm_compute in H. discriminate.
Qed.
Lemma stale_coding_repaired_example :
  exists r', r_prepare C_mark Repaired Repaired D29_now D59_response = Some r' /\ b_codec (r_body r') = None /\
             wf_http1 false false (fst (r_compose C_mark AsFound r')) (X "7365636f6e64").
Proof. eexists. split; [vm_compute; reflexivity|]. split; [vm_compute; reflexivity|]. eexists. split; vm_compute; reflexivity. Qed.

Lemma hframing_never_both h fr : hframing h fr ->
  (fr = FChunked -> hget H_CL h = None) /\ (forall n, fr = FLength n -> hget H_TE h = None).
Proof. intros [Ht Hc | n Ht Hc | Ht Hc]; split; try discriminate; intros; assumption. Qed.

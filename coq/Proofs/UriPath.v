(* Lemmas about Model/UriPath.v: str.split / join algebra, slash collapsing, the stack loop of abspath,
   the literal RFC 3986 5.2.4 algorithm and their agreement at the level of segment lists. *)
From Httoop Require Import Lib.Bytes Model.UriPath.
Local Open Scope nat_scope.

(* ---------- octet constants ---------- *)
Lemma beq_SL_DT : beq SL DT = false. Proof. reflexivity. Qed.
Lemma beq_DT_SL : beq DT SL = false. Proof. reflexivity. Qed.
Lemma beq_SL_SL : beq SL SL = true. Proof. reflexivity. Qed.
Lemma beq_DT_DT : beq DT DT = true. Proof. reflexivity. Qed.

Definition slashfree (s : bytes) : bool := forallb (fun c => negb (beq c SL)) s.
Definition nondot (s : bytes) : bool := negb (is_dot s || is_dotdot s).

Lemma slashfree_cons c s : slashfree (c :: s) = negb (beq c SL) && slashfree s.
Proof. reflexivity. Qed.
Lemma slashfree_app a b : slashfree (a ++ b) = slashfree a && slashfree b.
Proof. unfold slashfree. apply forallb_app. Qed.
Lemma slashfree_rev a : slashfree (rev a) = slashfree a.
Proof.
  induction a as [|c a IH]; [reflexivity|]. cbn [rev]. rewrite slashfree_app, IH, slashfree_cons.
  cbn [slashfree forallb]. rewrite andb_true_r. apply andb_comm.
Qed.

Lemma is_dot_eq s : is_dot s = true -> s = [DT].
Proof.
  destruct s as [|c [|d s]]; cbn [is_dot]; try discriminate. intros H. apply beq_eq in H. congruence.
Qed.
Lemma is_dotdot_eq s : is_dotdot s = true -> s = [DT; DT].
Proof.
  destruct s as [|c [|d [|e s]]]; cbn [is_dotdot]; try discriminate. intros H.
  apply andb_true_iff in H as [H1 H2]. apply beq_eq in H1. apply beq_eq in H2. congruence.
Qed.
Lemma is_dot_DT : is_dot [DT] = true. Proof. reflexivity. Qed.
Lemma is_dotdot_DTDT : is_dotdot [DT; DT] = true. Proof. reflexivity. Qed.
Lemma is_dot_dotdot s : is_dot s = true -> is_dotdot s = false.
Proof. intros H. apply is_dot_eq in H. subst. reflexivity. Qed.
Lemma nondot_nil : nondot [] = true. Proof. reflexivity. Qed.
Lemma slashfree_dot : slashfree [DT] = true. Proof. reflexivity. Qed.
Lemma slashfree_dotdot : slashfree [DT; DT] = true. Proof. reflexivity. Qed.

(* ---------- split / join ---------- *)
Lemma psplit_nonnil l : psplit l <> [].
Proof.
  destruct l as [|c r]; cbn [psplit]; [congruence|]. destruct (beq c SL); [congruence|].
  destruct (psplit r); congruence.
Qed.

Lemma psplit_slash r : psplit (SL :: r) = [] :: psplit r.
Proof. cbn [psplit]. rewrite beq_SL_SL. reflexivity. Qed.

Lemma psplit_other c r : beq c SL = false ->
  exists h t, psplit r = h :: t /\ psplit (c :: r) = (c :: h) :: t.
Proof.
  intros Hc. cbn [psplit]. rewrite Hc. destruct (psplit r) as [|h t] eqn:E.
  - exfalso. eapply psplit_nonnil; eauto.
  - eauto.
Qed.

Lemma pjoin_cons2 x y r : pjoin (x :: y :: r) = x ++ SL :: pjoin (y :: r).
Proof. reflexivity. Qed.
Lemma pjoin_one x : pjoin [x] = x.
Proof. reflexivity. Qed.

Lemma pjoin_psplit l : pjoin (psplit l) = l.
Proof.
  induction l as [|c r IH]; [reflexivity|].
  destruct (beq c SL) eqn:Hc.
  - apply beq_eq in Hc. subst c. rewrite psplit_slash.
    destruct (psplit r) as [|h t] eqn:E; [exfalso; eapply psplit_nonnil; eauto|].
    rewrite pjoin_cons2, IH. reflexivity.
  - destruct (psplit_other c r Hc) as (h & t & E1 & E2). rewrite E2. rewrite E1 in IH.
    destruct t as [|y t].
    + cbn [pjoin] in *. congruence.
    + rewrite pjoin_cons2 in *. cbn [app]. congruence.
Qed.

Lemma psplit_slashfree_all l : forallb slashfree (psplit l) = true.
Proof.
  induction l as [|c r IH]; [reflexivity|].
  destruct (beq c SL) eqn:Hc.
  - apply beq_eq in Hc. subst c. rewrite psplit_slash. cbn [forallb]. exact IH.
  - destruct (psplit_other c r Hc) as (h & t & E1 & E2). rewrite E2. rewrite E1 in IH.
    cbn [forallb] in *. rewrite slashfree_cons, Hc. exact IH.
Qed.

Lemma psplit_seg s : slashfree s = true -> psplit s = [s].
Proof.
  induction s as [|c s IH]; [reflexivity|]. rewrite slashfree_cons. intros H.
  apply andb_true_iff in H as [H1 H2]. apply negb_true_iff in H1.
  cbn [psplit]. rewrite H1, (IH H2). reflexivity.
Qed.

Lemma psplit_seg_slash s r : slashfree s = true -> psplit (s ++ SL :: r) = s :: psplit r.
Proof.
  induction s as [|c s IH]; intros H.
  - cbn [app]. apply psplit_slash.
  - rewrite slashfree_cons in H. apply andb_true_iff in H as [H1 H2]. apply negb_true_iff in H1.
    cbn [app psplit]. rewrite H1, (IH H2). reflexivity.
Qed.

Lemma psplit_pjoin ss : ss <> [] -> forallb slashfree ss = true -> psplit (pjoin ss) = ss.
Proof.
  induction ss as [|s ss IH]; [congruence|]. intros _ H. cbn [forallb] in H.
  apply andb_true_iff in H as [H1 H2]. destruct ss as [|y ss].
  - cbn [pjoin]. apply psplit_seg, H1.
  - rewrite pjoin_cons2, psplit_seg_slash by exact H1. f_equal. apply IH; [congruence | exact H2].
Qed.

Lemma pjoin_snoc l x : l <> [] -> pjoin (l ++ [x]) = pjoin l ++ SL :: x.
Proof.
  induction l as [|a l IH]; [congruence|]. intros _. destruct l as [|b l].
  - reflexivity.
  - cbn [app]. rewrite !pjoin_cons2. cbn [app] in IH. rewrite IH by congruence.
    rewrite <- app_assoc. reflexivity.
Qed.

(* "/" ++ s1 ++ "/" ++ s2 ... : the shape of an absolute path *)
Definition render (ss : list bytes) : bytes := flat_map (fun s => SL :: s) ss.

Lemma render_cons s ss : render (s :: ss) = SL :: s ++ render ss.
Proof. reflexivity. Qed.
Lemma render_app a b : render (a ++ b) = render a ++ render b.
Proof. unfold render. apply flat_map_app. Qed.
Lemma render_snoc a s : render (a ++ [s]) = render a ++ SL :: s.
Proof. rewrite render_app. cbn. rewrite app_nil_r. reflexivity. Qed.
Lemma render_pjoin ss : ss <> [] -> render ss = SL :: pjoin ss.
Proof.
  induction ss as [|s ss IH]; [congruence|]. intros _. rewrite render_cons. destruct ss as [|y ss].
  - cbn. rewrite app_nil_r. reflexivity.
  - rewrite pjoin_cons2, IH by congruence. reflexivity.
Qed.
Lemma render_nil_or_slash ss : render ss = [] \/ starts_slash (render ss) = true.
Proof. destruct ss; [left; reflexivity | right; reflexivity]. Qed.
Lemma nonnil_render ss : nonnil (render ss) = match ss with [] => false | _ => true end.
Proof. destruct ss; reflexivity. Qed.
Lemma psplit_render ss : ss <> [] -> forallb slashfree ss = true -> psplit (render ss) = [] :: ss.
Proof. intros H1 H2. rewrite render_pjoin by exact H1. rewrite psplit_slash, psplit_pjoin; auto. Qed.

(* every absolute path is the rendering of its segments *)
Lemma render_psplit q : render (psplit q) = SL :: q.
Proof. rewrite render_pjoin by apply psplit_nonnil. rewrite pjoin_psplit. reflexivity. Qed.

(* ---------- slash runs ---------- *)
Fixpoint abl_nonnil (ss : list bytes) : bool :=   (* all but the last segment are non-empty *)
  match ss with
  | [] => true
  | s :: r => match r with [] => true | _ => nonnil s && abl_nonnil r end
  end.

Lemma abl_cons2 s y r : abl_nonnil (s :: y :: r) = nonnil s && abl_nonnil (y :: r).
Proof. reflexivity. Qed.

Lemma no_dslash_cons c r : no_dslash (c :: r) = negb (beq c SL && starts_slash r) && no_dslash r.
Proof. reflexivity. Qed.

Lemma collapse_aux n : forall p, length p <= n ->
  no_dslash (collapse p) = true /\ starts_slash (collapse p) = starts_slash p.
Proof.
  induction n as [|n IH]; intros q Hq.
  - destruct q; [split; reflexivity | cbn in Hq; lia].
  - destruct q as [|c r]; [split; reflexivity|]. cbn [length] in Hq.
    destruct (IH r ltac:(lia)) as [I1 I2].
    cbn [collapse]. destruct (beq c SL) eqn:Hc.
    + destruct r as [|d r'].
      * cbn [no_dslash starts_slash]. rewrite Hc. split; reflexivity.
      * destruct (beq d SL) eqn:Hd.
        -- split; [exact I1|]. rewrite I2. cbn [starts_slash]. rewrite Hc, Hd. reflexivity.
        -- rewrite no_dslash_cons, I1, I2. cbn [starts_slash]. rewrite Hd, Hc. split; reflexivity.
    + rewrite no_dslash_cons, I1, Hc. cbn [starts_slash]. rewrite Hc. split; reflexivity.
Qed.

Lemma collapse_no_dslash p : no_dslash (collapse p) = true.
Proof. apply (collapse_aux (length p) p). lia. Qed.

Lemma collapse_starts p : starts_slash (collapse p) = starts_slash p.
Proof. apply (collapse_aux (length p) p). lia. Qed.

Lemma collapse_id p : no_dslash p = true -> collapse p = p.
Proof.
  induction p as [|c r IH]; [reflexivity|]. rewrite no_dslash_cons. intros H.
  apply andb_true_iff in H as [H1 H2]. cbn [collapse]. destruct (beq c SL) eqn:Hc.
  - destruct r as [|d r']; [reflexivity|]. cbn [starts_slash andb negb] in H1.
    apply negb_true_iff in H1. rewrite H1. f_equal. apply IH, H2.
  - f_equal. apply IH, H2.
Qed.

Lemma collapse_nil p : collapse p = [] -> p = [].
Proof.
  destruct p as [|c r]; [reflexivity|]. intros H. exfalso.
  assert (G : forall n q, length q <= n -> q <> [] -> collapse q <> []).
  { induction n as [|n IH]; intros q Hq Hne.
    - destruct q; [congruence | cbn in Hq; lia].
    - destruct q as [|a q]; [congruence|]. cbn [collapse]. destruct (beq a SL).
      + destruct q as [|b q]; [congruence|]. destruct (beq b SL); [|congruence].
        apply IH; [cbn [length] in *; lia | congruence].
      + congruence. }
  apply (G (length (c :: r)) (c :: r)); [lia | congruence | exact H].
Qed.

(* no "//" in an absolute path = every segment but the last is non-empty *)
Lemma no_dslash_seg s R : slashfree s = true -> no_dslash (s ++ SL :: R) = no_dslash (SL :: R).
Proof.
  induction s as [|c s IH]; [reflexivity|]. rewrite slashfree_cons. intros H.
  apply andb_true_iff in H as [H1 H2]. apply negb_true_iff in H1.
  cbn [app]. rewrite no_dslash_cons, H1. cbn [andb negb]. apply IH, H2.
Qed.

Lemma no_dslash_slashfree s : slashfree s = true -> no_dslash s = true.
Proof.
  induction s as [|c s IH]; [reflexivity|]. rewrite slashfree_cons. intros H.
  apply andb_true_iff in H as [H1 H2]. apply negb_true_iff in H1.
  rewrite no_dslash_cons, H1. cbn [andb negb]. apply IH, H2.
Qed.

Lemma no_dslash_pjoin ss : forallb slashfree ss = true ->
  no_dslash (SL :: pjoin ss) = true -> abl_nonnil ss = true.
Proof.
  induction ss as [|s ss IH]; [reflexivity|]. intros S H. cbn [forallb] in S.
  apply andb_true_iff in S as [S1 S2]. destruct ss as [|y ss]; [reflexivity|].
  rewrite abl_cons2. rewrite pjoin_cons2 in H. rewrite no_dslash_cons, beq_SL_SL in H.
  cbn [andb] in H. apply andb_true_iff in H as [H1 H2]. apply negb_true_iff in H1.
  rewrite no_dslash_seg in H2 by exact S1. rewrite (IH S2 H2), andb_true_r.
  destruct s; [cbn [app starts_slash] in H1; rewrite beq_SL_SL in H1; discriminate | reflexivity].
Qed.

Lemma no_dslash_segments q : no_dslash (SL :: q) = true -> abl_nonnil (psplit q) = true.
Proof.
  intros H. apply no_dslash_pjoin; [apply psplit_slashfree_all|]. rewrite pjoin_psplit. exact H.
Qed.

(* ---------- the stack loop ---------- *)
Definition run (ss : list bytes) (st : list bytes * bool) : list bytes * bool := fold_left pstep ss st.
(* final stack (top first) of the loop started on stack [stk] *)
Definition seg_rds (stk : list bytes) (ss : list bytes) : list bytes := pfinal (run ss (stk, false)).

Lemma run_cons s ss st : run (s :: ss) st = run ss (pstep st s).
Proof. reflexivity. Qed.
Lemma run_app a b st : run (a ++ b) st = run b (run a st).
Proof. unfold run. apply fold_left_app. Qed.

Lemma pstep_dot stk d : pstep (stk, d) [DT] = (stk, true).
Proof. reflexivity. Qed.
Lemma pstep_dotdot stk d : pstep (stk, d) [DT; DT] = (tl stk, true).
Proof. reflexivity. Qed.
Lemma pstep_push stk d s : nondot s = true -> pstep (stk, d) s = (s :: stk, false).
Proof.
  unfold nondot, pstep. intros H. apply negb_true_iff, orb_false_iff in H as [H1 H2].
  rewrite H1, H2. reflexivity.
Qed.
Lemma pstep_dir_irrel stk d1 d2 s : pstep (stk, d1) s = pstep (stk, d2) s.
Proof. reflexivity. Qed.
Lemma run_dir_irrel ss stk d1 d2 : ss <> [] -> run ss (stk, d1) = run ss (stk, d2).
Proof. destruct ss as [|s ss]; [congruence|]. intros _. rewrite !run_cons. reflexivity. Qed.

Lemma run_push ss : forallb nondot ss = true -> forall stk d,
  run ss (stk, d) = (rev ss ++ stk, match ss with [] => d | _ => false end).
Proof.
  induction ss as [|s ss IH]; intros H stk d; [reflexivity|]. cbn [forallb] in H.
  apply andb_true_iff in H as [H1 H2]. rewrite run_cons, (pstep_push _ _ _ H1), (IH H2).
  cbn [rev]. rewrite <- app_assoc. cbn [app]. destruct ss; reflexivity.
Qed.

Lemma run_nonnil_final ss stk d : ss <> [] -> pfinal (run ss (stk, d)) <> [].
Proof.
  revert stk d. induction ss as [|s ss IH]; [congruence|]. intros stk d _. rewrite run_cons.
  destruct ss as [|y ss].
  - unfold run, fold_left, pstep, pfinal. cbn [fst snd].
    destruct (is_dotdot s); [cbn; congruence|]. destruct (is_dot s); cbn; congruence.
  - destruct (pstep (stk, d) s) as [stk' d']. apply IH. congruence.
Qed.

(* ---------- RFC 3986 5.2.4 on rendered segment lists ---------- *)
(* R is empty or begins with "/" *)
Definition seg_end (R : bytes) : Prop := R = [] \/ starts_slash R = true.

Lemma seg_end_render ss : seg_end (render ss).
Proof. apply render_nil_or_slash. Qed.

Lemma nonnil_seg_end R : seg_end R -> nonnil R = starts_slash R.
Proof. intros [-> | H]; [reflexivity|]. destruct R; [discriminate | rewrite H; reflexivity]. Qed.

Ltac sf_step H :=
  rewrite slashfree_cons in H; apply andb_true_iff in H;
  let H1 := fresh "Hc" in let H2 := fresh "Hs" in destruct H as [H1 H2]; apply negb_true_iff in H1.

Ltac bfin := cbn [andb negb orb]; rewrite ?andb_true_r, ?andb_false_r; cbn [andb negb orb]; try reflexivity.

(* case analysis on what follows the segment: nothing, or "/" ++ R' *)
Ltac seg_end_cases E R :=
  destruct E as [-> | E];
  [ | destruct R as [|?r0 R]; [discriminate E|]; cbn [starts_slash] in E; apply beq_eq in E; subst ].

Lemma starts_dot_slash s R : slashfree s = true -> seg_end R ->
  starts P_D_S (s ++ R) = is_dot s && nonnil R.
Proof.
  intros S E. unfold P_D_S.
  destruct s as [|c1 [|c2 s]].
  - seg_end_cases E R; cbn [app is_dot starts nonnil]; rewrite ?beq_SL_DT; bfin.
  - seg_end_cases E R; cbn [app is_dot starts nonnil]; rewrite ?beq_SL_SL; bfin.
  - sf_step S. sf_step Hs. cbn [app is_dot starts]. rewrite Hc0. bfin.
Qed.

Lemma starts_dotdot_slash s R : slashfree s = true -> seg_end R ->
  starts P_DD_S (s ++ R) = is_dotdot s && nonnil R.
Proof.
  intros S E. unfold P_DD_S.
  destruct s as [|c1 [|c2 [|c3 s]]].
  - seg_end_cases E R; cbn [app is_dotdot starts nonnil]; rewrite ?beq_SL_DT; bfin.
  - seg_end_cases E R; cbn [app is_dotdot starts nonnil]; rewrite ?beq_SL_DT; bfin.
  - seg_end_cases E R; cbn [app is_dotdot starts nonnil]; rewrite ?beq_SL_SL; bfin.
  - sf_step S. sf_step Hs. sf_step Hs0. cbn [app is_dotdot starts]. rewrite Hc1. bfin.
Qed.

Lemma eqb_dot s R : slashfree s = true -> seg_end R ->
  bytes_eqb (s ++ R) [DT] = is_dot s && negb (nonnil R).
Proof.
  intros S E.
  destruct s as [|c1 [|c2 s]].
  - seg_end_cases E R; cbn [app is_dot bytes_eqb nonnil]; rewrite ?beq_SL_DT; bfin.
  - seg_end_cases E R; cbn [app is_dot bytes_eqb nonnil]; bfin.
  - cbn [app is_dot bytes_eqb]. bfin.
Qed.

Lemma eqb_dotdot s R : slashfree s = true -> seg_end R ->
  bytes_eqb (s ++ R) [DT; DT] = is_dotdot s && negb (nonnil R).
Proof.
  intros S E.
  destruct s as [|c1 [|c2 [|c3 s]]].
  - seg_end_cases E R; cbn [app is_dotdot bytes_eqb nonnil]; rewrite ?beq_SL_DT; bfin.
  - seg_end_cases E R; cbn [app is_dotdot bytes_eqb nonnil]; rewrite ?beq_SL_DT; bfin.
  - seg_end_cases E R; cbn [app is_dotdot bytes_eqb nonnil]; bfin.
  - cbn [app is_dotdot bytes_eqb]. bfin.
Qed.

Lemma until_slash_seg s R : slashfree s = true -> seg_end R -> until_slash (s ++ R) = s.
Proof.
  intros S E. induction s as [|c s IH].
  - cbn [app]. destruct E as [-> | E]; [reflexivity|]. destruct R as [|r0 R]; [discriminate|].
    cbn [starts_slash] in E. cbn [until_slash]. rewrite E. reflexivity.
  - sf_step S. cbn [app until_slash]. rewrite Hc, (IH Hs). reflexivity.
Qed.

Lemma skipn_app_len {A} (a b : list A) : skipn (length a) (a ++ b) = b.
Proof. induction a; [reflexivity | exact IHa]. Qed.

Lemma after_slash_seg s Y : slashfree s = true -> after_slash (s ++ SL :: Y) = Y.
Proof.
  intros S. induction s as [|c s IH].
  - cbn [app after_slash]. rewrite beq_SL_SL. reflexivity.
  - sf_step S. cbn [app after_slash]. rewrite Hc. apply IH, Hs.
Qed.

Lemma remove_last_snoc Y s : slashfree s = true -> remove_last_segment (Y ++ SL :: s) = Y.
Proof.
  intros S. unfold remove_last_segment. rewrite rev_app_distr. cbn [rev]. rewrite <- app_assoc. cbn [app].
  rewrite after_slash_seg by (rewrite slashfree_rev; exact S). apply rev_involutive.
Qed.

Lemma remove_last_render stk : forallb slashfree stk = true ->
  remove_last_segment (render (rev stk)) = render (rev (tl stk)).
Proof.
  destruct stk as [|s stk]; [reflexivity|]. intros H. cbn [forallb] in H. apply andb_true_iff in H as [H1 _].
  cbn [rev tl]. rewrite render_snoc. apply remove_last_snoc, H1.
Qed.

(* one turn of the loop on "/" alone: rule E moves it to the output *)
Lemma rds_slash f out : rds (S (S f)) [SL] out = Some (out ++ [SL]).
Proof. reflexivity. Qed.

Lemma rds_nil f out : rds (S f) [] out = Some out.
Proof. reflexivity. Qed.

(* the cascade of rules on "/" ++ s ++ R *)
Lemma rds_step f s R out : slashfree s = true -> seg_end R ->
  rds (S f) (SL :: s ++ R) out =
    if is_dot s then (if nonnil R then rds f R out else rds f [SL] out)
    else if is_dotdot s then (if nonnil R then rds f R (remove_last_segment out) else rds f [SL] (remove_last_segment out))
    else rds f R (out ++ SL :: s).
Proof.
  intros S E. cbn [rds].
  assert (T1 : starts P_DD_S (SL :: s ++ R) = false) by (cbn [starts P_DD_S]; rewrite beq_SL_DT; reflexivity).
  assert (T2 : starts P_D_S (SL :: s ++ R) = false) by (cbn [starts P_D_S]; rewrite beq_SL_DT; reflexivity).
  assert (T3 : starts P_S_D_S (SL :: s ++ R) = is_dot s && nonnil R).
  { unfold P_S_D_S. cbn [starts]. rewrite beq_SL_SL. cbn [andb]. apply (starts_dot_slash s R S E). }
  assert (T4 : bytes_eqb (SL :: s ++ R) P_S_D = is_dot s && negb (nonnil R)).
  { unfold P_S_D. cbn [bytes_eqb]. rewrite beq_SL_SL. cbn [andb]. apply (eqb_dot s R S E). }
  assert (T5 : starts P_S_DD_S (SL :: s ++ R) = is_dotdot s && nonnil R).
  { unfold P_S_DD_S. cbn [starts]. rewrite beq_SL_SL. cbn [andb]. apply (starts_dotdot_slash s R S E). }
  assert (T6 : bytes_eqb (SL :: s ++ R) P_S_DD = is_dotdot s && negb (nonnil R)).
  { unfold P_S_DD. cbn [bytes_eqb]. rewrite beq_SL_SL. cbn [andb]. apply (eqb_dotdot s R S E). }
  assert (T7 : bytes_eqb (SL :: s ++ R) [DT] || bytes_eqb (SL :: s ++ R) [DT; DT] = false).
  { cbn [bytes_eqb]. rewrite beq_SL_DT. reflexivity. }
  rewrite T1, T2, T3, T4, T5, T6, T7.
  destruct (is_dot s) eqn:D1.
  - apply is_dot_eq in D1. subst s. cbn [andb]. destruct (nonnil R) eqn:NR; cbn [negb]; [|reflexivity].
    (* "/./..." : "/" ++ drop 3 = R *)
    destruct E as [-> | E]; [discriminate|]. destruct R as [|r0 R]; [discriminate|].
    cbn [starts_slash] in E. apply beq_eq in E. subst r0. reflexivity.
  - cbn [andb]. destruct (is_dotdot s) eqn:D2.
    + apply is_dotdot_eq in D2. subst s. cbn [andb]. destruct (nonnil R) eqn:NR; cbn [negb]; [|reflexivity].
      destruct E as [-> | E]; [discriminate|]. destruct R as [|r0 R]; [discriminate|].
      cbn [starts_slash] in E. apply beq_eq in E. subst r0. reflexivity.
    + cbn [andb]. unfold first_segment. rewrite beq_SL_SL. rewrite (until_slash_seg s R S E).
      change (SL :: s ++ R) with ((SL :: s) ++ R). rewrite skipn_app_len. reflexivity.
Qed.

Lemma length_render_cons s ss : length (render (s :: ss)) = S (length s + length (render ss)).
Proof. rewrite render_cons. cbn [length]. rewrite app_length. reflexivity. Qed.

(* (M) the literal algorithm on a rendered segment list = the stack loop *)
Lemma rds_render ss : forallb slashfree ss = true -> forall stk fuel,
  forallb slashfree stk = true -> length (render ss) < fuel ->
  rds fuel (render ss) (render (rev stk)) = Some (render (rev (seg_rds stk ss))).
Proof.
  unfold seg_rds.
  induction ss as [|s ss IH]; intros Sss stk fuel Sstk Hf.
  - destruct fuel; [lia|]. reflexivity.
  - cbn [forallb] in Sss. apply andb_true_iff in Sss as [Ss Sss].
    rewrite length_render_cons in Hf. destruct fuel as [|f]; [lia|].
    rewrite render_cons, (rds_step f s (render ss) _ Ss (seg_end_render ss)).
    rewrite nonnil_render, run_cons.
    destruct (is_dot s) eqn:D1.
    { apply is_dot_eq in D1. subst s. rewrite pstep_dot. destruct ss as [|y ss].
      - destruct f as [|[|f]]; [cbn in Hf; lia | cbn in Hf; lia|]. rewrite rds_slash.
        cbn [run fold_left pfinal snd fst rev]. rewrite render_snoc. reflexivity.
      - rewrite (run_dir_irrel (y :: ss) stk true false) by congruence.
        apply IH; [exact Sss | exact Sstk | cbn [length] in Hf; lia]. }
    destruct (is_dotdot s) eqn:D2.
    { apply is_dotdot_eq in D2. subst s. rewrite pstep_dotdot.
      rewrite (remove_last_render stk Sstk).
      assert (Stl : forallb slashfree (tl stk) = true).
      { destruct stk; [reflexivity|]. cbn [forallb tl] in *. apply andb_true_iff in Sstk. tauto. }
      destruct ss as [|y ss].
      - destruct f as [|[|f]]; [cbn in Hf; lia | cbn in Hf; lia|]. rewrite rds_slash.
        cbn [run fold_left pfinal snd fst rev]. rewrite render_snoc. reflexivity.
      - rewrite (run_dir_irrel (y :: ss) (tl stk) true false) by congruence.
        apply IH; [exact Sss | exact Stl | cbn [length] in Hf; lia]. }
    assert (ND : nondot s = true) by (unfold nondot; rewrite D1, D2; reflexivity).
    rewrite (pstep_push _ _ _ ND).
    replace (render (rev stk) ++ SL :: s) with (render (rev (s :: stk))) by (cbn [rev]; apply render_snoc).
    apply IH; [exact Sss | cbn [forallb]; rewrite Ss, Sstk; reflexivity | lia].
Qed.

Lemma rfc_rds_render ss : forallb slashfree ss = true ->
  rfc_rds (render ss) = Some (render (rev (seg_rds [] ss))).
Proof.
  intros H. unfold rfc_rds. apply (rds_render ss H [] _ eq_refl). lia.
Qed.

(* ---------- the fuel never runs out ---------- *)
Lemma starts_length pre l : starts pre l = true -> length pre <= length l.
Proof.
  revert l. induction pre as [|a pre IH]; intros l H; [cbn; lia|].
  destruct l as [|b l]; [discriminate|]. cbn [starts] in H. apply andb_true_iff in H as [_ H].
  apply IH in H. cbn [length]. lia.
Qed.

Lemma until_slash_length l : length (until_slash l) <= length l.
Proof. induction l as [|c l IH]; [reflexivity|]. cbn [until_slash]. destruct (beq c SL); cbn [length]; lia. Qed.

Lemma first_segment_pos inp : inp <> [] -> 1 <= length (first_segment inp) <= length inp.
Proof.
  destruct inp as [|c r]; [congruence|]. intros _. unfold first_segment.
  destruct (beq c SL) eqn:Hc.
  - cbn [length]. pose proof (until_slash_length r). lia.
  - cbn [until_slash]. rewrite Hc. cbn [length]. pose proof (until_slash_length r). lia.
Qed.

Lemma rds_total_fuel fuel : forall inp out, length inp < fuel -> rds fuel inp out <> None.
Proof.
  induction fuel as [|f IH]; intros inp out Hf; [lia|].
  cbn [rds]. destruct inp as [|c r] eqn:Ei; [congruence|]. rewrite <- Ei in *.
  assert (Hne : inp <> []) by (rewrite Ei; congruence).
  destruct (starts P_DD_S inp) eqn:T1.
  { apply starts_length in T1. cbn [length P_DD_S] in T1. apply IH. rewrite skipn_length. lia. }
  destruct (starts P_D_S inp) eqn:T2.
  { apply starts_length in T2. cbn [length P_D_S] in T2. apply IH. rewrite skipn_length. lia. }
  destruct (starts P_S_D_S inp) eqn:T3.
  { apply starts_length in T3. cbn [length P_S_D_S] in T3. apply IH. cbn [length]. rewrite skipn_length. lia. }
  destruct (bytes_eqb inp P_S_D) eqn:T4.
  { apply bytes_eqb_eq in T4. rewrite T4 in Hf. cbn [length P_S_D] in Hf. apply IH. cbn [length]. lia. }
  destruct (starts P_S_DD_S inp) eqn:T5.
  { apply starts_length in T5. cbn [length P_S_DD_S] in T5. apply IH. cbn [length]. rewrite skipn_length. lia. }
  destruct (bytes_eqb inp P_S_DD) eqn:T6.
  { apply bytes_eqb_eq in T6. rewrite T6 in Hf. cbn [length P_S_DD] in Hf. apply IH. cbn [length]. lia. }
  destruct (bytes_eqb inp [DT] || bytes_eqb inp [DT; DT]) eqn:T7.
  { apply IH. rewrite Ei in Hf. cbn [length] in *. lia. }
  apply IH. rewrite skipn_length. pose proof (first_segment_pos inp Hne). lia.
Qed.

Lemma rfc_rds_total p : exists o, rfc_rds p = Some o.
Proof.
  unfold rfc_rds. destruct (rds (S (length p)) p []) eqn:E; [eauto|].
  exfalso. revert E. apply rds_total_fuel. lia.
Qed.

Lemma remove_dot_segments_spec p o : rfc_rds p = Some o -> remove_dot_segments p = o.
Proof. unfold remove_dot_segments. intros ->. reflexivity. Qed.

(* ---------- abspath against the stack loop without root marker ---------- *)
(* abspath keeps the leading empty item of split("/") on its stack as a root marker, until a ".." pops it *)
Definition root_rel (A R : list bytes) : Prop := A = R ++ [[]] \/ A = R.

Lemma root_rel_step A R d s : root_rel A R ->
  root_rel (fst (pstep (A, d) s)) (fst (pstep (R, d) s)) /\ snd (pstep (A, d) s) = snd (pstep (R, d) s).
Proof.
  intros H. unfold pstep. cbn [fst snd]. destruct (is_dotdot s).
  - cbn [fst snd]. split; [|reflexivity]. destruct H as [-> | ->]; [|right; reflexivity].
    destruct R as [|x R]; [right; reflexivity | left; reflexivity].
  - destruct (is_dot s); cbn [fst snd negb]; (split; [|reflexivity]).
    + exact H.
    + destruct H as [-> | ->]; [left | right]; reflexivity.
Qed.

Lemma root_rel_run ss : forall A R d, root_rel A R ->
  root_rel (fst (run ss (A, d))) (fst (run ss (R, d))) /\ snd (run ss (A, d)) = snd (run ss (R, d)).
Proof.
  induction ss as [|s ss IH]; intros A R d H; [split; [exact H | reflexivity]|].
  rewrite !run_cons. destruct (root_rel_step A R d s H) as [H1 H2].
  destruct (pstep (A, d) s) as [A' d1]. destruct (pstep (R, d) s) as [R' d2]. cbn [fst snd] in *. subst d2.
  apply IH, H1.
Qed.

Lemma root_rel_final A R d : root_rel A R -> root_rel (pfinal (A, d)) (pfinal (R, d)).
Proof.
  unfold pfinal. cbn [fst snd]. destruct d; [|tauto]. intros [-> | ->]; [left | right]; reflexivity.
Qed.

(* stack invariant: everything above the bottom item is non-empty *)
Fixpoint above_nonnil (stk : list bytes) : bool :=
  match stk with
  | [] => true
  | x :: r => match r with [] => true | _ => nonnil x && above_nonnil r end
  end.

Lemma above_nonnil_tl stk : above_nonnil stk = true -> above_nonnil (tl stk) = true.
Proof.
  destruct stk as [|x [|y r]]; try reflexivity. cbn [tl]. intros H.
  change (nonnil x && above_nonnil (y :: r) = true) in H. apply andb_true_iff in H. tauto.
Qed.

Lemma above_nonnil_push s stk : nonnil s = true -> above_nonnil stk = true -> above_nonnil (s :: stk) = true.
Proof.
  intros H1 H2. destruct stk as [|y r]; [reflexivity|].
  change (nonnil s && above_nonnil (y :: r) = true). rewrite H1, H2. reflexivity.
Qed.

Lemma all_nonnil_above stk : forallb nonnil stk = true -> above_nonnil stk = true.
Proof.
  induction stk as [|x r IH]; [reflexivity|]. cbn [forallb]. intros H. apply andb_true_iff in H as [H1 H2].
  apply above_nonnil_push; auto.
Qed.

(* running the loop over segments of which all but the last are non-empty: below the top everything stays fine *)
Lemma run_above ss : abl_nonnil ss = true -> forall stk d, above_nonnil stk = true ->
  above_nonnil (tl (pfinal (run ss (stk, d)))) = true /\
  (ss = [] \/ snd (run ss (stk, d)) = true -> above_nonnil (fst (run ss (stk, d))) = true).
Proof.
  induction ss as [|s ss IH]; intros Hss stk d Hstk.
  - cbn [run fold_left]. split; [|intros _; exact Hstk].
    unfold pfinal. cbn [fst snd]. destruct d; [exact Hstk | apply above_nonnil_tl, Hstk].
  - rewrite run_cons. destruct ss as [|y ss].
    + (* last segment: may be empty *)
      cbn [run fold_left]. unfold pstep, pfinal. cbn [fst snd].
      destruct (is_dotdot s); [cbn [fst snd tl]; split; [|intros _]; apply above_nonnil_tl, Hstk|].
      destruct (is_dot s); cbn [negb fst snd tl]; (split; [exact Hstk|]).
      * intros _. exact Hstk.
      * intros [H | H]; discriminate.
    + rewrite abl_cons2 in Hss. apply andb_true_iff in Hss as [Hs Hss].
      assert (G : above_nonnil (fst (pstep (stk, d) s)) = true).
      { unfold pstep. cbn [fst snd]. destruct (is_dotdot s); [apply above_nonnil_tl, Hstk|].
        destruct (is_dot s); cbn [negb fst]; [exact Hstk | apply above_nonnil_push; assumption]. }
      destruct (pstep (stk, d) s) as [stk' d']. cbn [fst] in G.
      destruct (IH Hss stk' d' G) as [I1 I2]. split; [exact I1|].
      intros [H | H]; [discriminate|]. apply I2. right. exact H.
Qed.

Lemma run_slashfree ss : forallb slashfree ss = true -> forall stk d, forallb slashfree stk = true ->
  forallb slashfree (pfinal (run ss (stk, d))) = true.
Proof.
  induction ss as [|s ss IH]; intros Hss stk d Hstk.
  - cbn [run fold_left]. unfold pfinal. cbn [fst snd]. destruct d; [cbn [forallb] |]; exact Hstk.
  - cbn [forallb] in Hss. apply andb_true_iff in Hss as [Hs Hss]. rewrite run_cons.
    assert (G : forallb slashfree (fst (pstep (stk, d) s)) = true).
    { unfold pstep. cbn [fst snd]. destruct (is_dotdot s).
      - destruct stk; [reflexivity|]. cbn [forallb tl fst] in *. apply andb_true_iff in Hstk. tauto.
      - destruct (is_dot s); cbn [negb fst forallb]; [exact Hstk | rewrite Hs, Hstk; reflexivity]. }
    destruct (pstep (stk, d) s) as [stk' d']. apply IH; assumption.
Qed.

Lemma run_nondot ss : forall stk d, forallb nondot stk = true ->
  forallb nondot (pfinal (run ss (stk, d))) = true.
Proof.
  induction ss as [|s ss IH]; intros stk d Hstk.
  - cbn [run fold_left]. unfold pfinal. cbn [fst snd]. destruct d; [cbn [forallb]; rewrite nondot_nil|]; exact Hstk.
  - rewrite run_cons.
    assert (G : forallb nondot (fst (pstep (stk, d) s)) = true).
    { unfold pstep. cbn [fst snd]. destruct (is_dotdot s) eqn:D2.
      - destruct stk; [reflexivity|]. cbn [forallb tl fst] in *. apply andb_true_iff in Hstk. tauto.
      - destruct (is_dot s) eqn:D1; cbn [negb fst forallb]; [exact Hstk|].
        unfold nondot at 1. rewrite D1, D2, Hstk. reflexivity. }
    destruct (pstep (stk, d) s) as [stk' d']. apply IH; assumption.
Qed.

(* ---------- the joined stack has no "//", no dot segment ---------- *)
Lemma starts_slash_app a b : a <> [] -> starts_slash (a ++ b) = starts_slash a.
Proof. destruct a; [congruence | reflexivity]. Qed.

Lemma starts_slash_slashfree x : slashfree x = true -> starts_slash x = false.
Proof. destruct x as [|c x]; [reflexivity|]. rewrite slashfree_cons. intros H. apply andb_true_iff in H as [H _]. apply negb_true_iff in H. exact H. Qed.

Lemma ends_slash_slashfree x : slashfree x = true -> ends_slash x = false.
Proof. intros H. unfold ends_slash. apply starts_slash_slashfree. rewrite slashfree_rev. exact H. Qed.

Lemma ends_slash_snoc_seg Y x : slashfree x = true -> nonnil x = true -> ends_slash (Y ++ SL :: x) = false.
Proof.
  intros S N. unfold ends_slash. rewrite rev_app_distr. cbn [rev]. rewrite <- app_assoc.
  rewrite starts_slash_app.
  - apply starts_slash_slashfree. rewrite slashfree_rev. exact S.
  - destruct x; [discriminate|]. cbn [rev]. intros E. apply app_eq_nil in E as [_ E]. discriminate.
Qed.

Lemma ends_slash_cons c Y : Y <> [] -> ends_slash (c :: Y) = ends_slash Y.
Proof.
  intros H. unfold ends_slash. cbn [rev]. apply starts_slash_app.
  intros E. apply (f_equal (@rev byte)) in E. rewrite rev_involutive in E. cbn in E. congruence.
Qed.

Lemma no_dslash_snoc Y x : no_dslash Y = true -> ends_slash Y = false -> slashfree x = true ->
  no_dslash (Y ++ SL :: x) = true.
Proof.
  intros H1 H2 S. induction Y as [|c Y IH].
  - cbn [app]. rewrite no_dslash_cons, (starts_slash_slashfree x S), andb_false_r. cbn [negb andb].
    apply no_dslash_slashfree, S.
  - cbn [app]. rewrite no_dslash_cons in *. apply andb_true_iff in H1 as [H1 H3].
    destruct Y as [|d Y].
    + cbn [app starts_slash]. rewrite beq_SL_SL, andb_true_r.
      unfold ends_slash in H2. cbn [rev app starts_slash] in H2. rewrite H2. cbn [negb andb].
      apply IH; [exact H3 | reflexivity].
    + rewrite ends_slash_cons in H2 by congruence. rewrite (IH H3 H2), andb_true_r.
      cbn [app starts_slash] in *. exact H1.
Qed.

Definition J (stk : list bytes) : bytes := pjoin (rev stk).

Lemma J_cons x r : r <> [] -> J (x :: r) = J r ++ SL :: x.
Proof.
  intros H. unfold J. cbn [rev]. apply pjoin_snoc. intros E. apply (f_equal (@rev bytes)) in E.
  rewrite rev_involutive in E. cbn in E. congruence.
Qed.

Lemma J_ok stk : above_nonnil stk = true -> forallb slashfree stk = true ->
  no_dslash (J stk) = true /\ ends_slash (J stk) = false.
Proof.
  induction stk as [|x r IH]; intros A S; [split; reflexivity|].
  cbn [forallb] in S. apply andb_true_iff in S as [Sx Sr]. destruct r as [|y r].
  - unfold J. cbn [rev app pjoin]. split; [apply no_dslash_slashfree | apply ends_slash_slashfree]; exact Sx.
  - change (nonnil x && above_nonnil (y :: r) = true) in A. apply andb_true_iff in A as [Nx Ar].
    destruct (IH Ar Sr) as [I1 I2]. rewrite J_cons by congruence. split.
    + apply no_dslash_snoc; assumption.
    + apply ends_slash_snoc_seg; assumption.
Qed.

Lemma forallb_rev {A} (f : A -> bool) l : forallb f (rev l) = forallb f l.
Proof.
  induction l as [|a l IH]; [reflexivity|]. cbn [rev]. rewrite forallb_app, IH. cbn [forallb].
  rewrite andb_true_r. apply andb_comm.
Qed.

Lemma rev_nonnil {A} (l : list A) : l <> [] -> rev l <> [].
Proof. intros H E. apply (f_equal (@rev A)) in E. rewrite rev_involutive in E. cbn in E. congruence. Qed.

Definition or_slash (r : bytes) : bytes := match r with [] => [SL] | _ => r end.   (* x or u'/' *)

Lemma or_slash_nonnil r : nonnil r = true -> or_slash r = r.
Proof. destruct r; [discriminate | reflexivity]. Qed.

Lemma pfinish_J st : pfinish st = or_slash (J (pfinal st)).
Proof. unfold pfinish, or_slash, J. destruct (pjoin (rev (pfinal st))); reflexivity. Qed.

Lemma out_ok F : F <> [] -> above_nonnil (tl F) = true -> forallb slashfree F = true -> forallb nondot F = true ->
  no_dslash (or_slash (J F)) = true /\ no_dot_seg (or_slash (J F)) = true /\ or_slash (J F) <> [].
Proof.
  intros Hne A S N. destruct F as [|top below]; [congruence|]. cbn [tl] in A.
  cbn [forallb] in S. apply andb_true_iff in S as [St Sb].
  assert (D : no_dslash (J (top :: below)) = true).
  { destruct below as [|y below].
    - unfold J. cbn [rev app pjoin]. apply no_dslash_slashfree, St.
    - rewrite J_cons by congruence. destruct (J_ok _ A Sb) as [I1 I2]. apply no_dslash_snoc; assumption. }
  assert (P : psplit (J (top :: below)) = rev (top :: below)).
  { unfold J. apply psplit_pjoin; [apply rev_nonnil; congruence|]. rewrite forallb_rev. cbn [forallb]. rewrite St, Sb. reflexivity. }
  destruct (J (top :: below)) as [|c r] eqn:EJ.
  - cbn [or_slash]. repeat split; try reflexivity. congruence.
  - cbn [or_slash]. split; [exact D|]. split; [|congruence].
    unfold no_dot_seg. rewrite P. change (fun s => negb (is_dot s || is_dotdot s)) with nondot.
    rewrite forallb_rev. exact N.
Qed.

(* the two starting situations of the loop: rooted ("/" ++ q') and rootless input *)
Lemma abspath_core_shape q : q <> [] -> no_dslash q = true ->
  exists stk0 ss, ss <> [] /\ abl_nonnil ss = true /\ forallb slashfree ss = true /\
    (stk0 = [[]] \/ stk0 = []) /\ abspath_core q = pfinish (run ss (stk0, false)) /\
    (starts_slash q = true -> stk0 = [[]] /\ q = render ss) /\
    (starts_slash q = false -> stk0 = [] /\ ss = psplit q).
Proof.
  intros Hne D. destruct q as [|c q']; [congruence|]. destruct (beq c SL) eqn:Hc.
  - apply beq_eq in Hc. subst c. exists [[]], (psplit q'). split; [apply psplit_nonnil|].
    split; [apply no_dslash_segments, D|]. split; [apply psplit_slashfree_all|]. split; [left; reflexivity|].
    split; [unfold abspath_core; rewrite psplit_slash; reflexivity|]. split.
    + intros _. split; [reflexivity|]. symmetry. apply render_psplit.
    + cbn [starts_slash]. rewrite beq_SL_SL. discriminate.
  - exists [], (psplit (c :: q')). split; [apply psplit_nonnil|]. split.
    + apply no_dslash_segments. rewrite no_dslash_cons. cbn [starts_slash]. rewrite Hc, beq_SL_SL. exact D.
    + split; [apply psplit_slashfree_all|]. split; [right; reflexivity|]. split; [reflexivity|]. split.
      * cbn [starts_slash]. rewrite Hc. discriminate.
      * intros _. split; reflexivity.
Qed.

Lemma abspath_core_ok q : q <> [] -> no_dslash q = true ->
  no_dslash (abspath_core q) = true /\ no_dot_seg (abspath_core q) = true /\ abspath_core q <> [].
Proof.
  intros Hne D. destruct (abspath_core_shape q Hne D) as (stk0 & ss & Hss & Habl & Hsf & Hstk & E & _ & _).
  rewrite E, pfinish_J. apply out_ok.
  - apply run_nonnil_final, Hss.
  - apply run_above; [exact Habl|]. destruct Hstk as [-> | ->]; reflexivity.
  - apply run_slashfree; [exact Hsf|]. destruct Hstk as [-> | ->]; reflexivity.
  - apply run_nondot. destruct Hstk as [-> | ->]; reflexivity.
Qed.

Lemma abspath_unfold p : abspath p = match collapse p with [] => p | _ :: _ => abspath_core (collapse p) end.
Proof. unfold abspath. destruct (collapse p); reflexivity. Qed.

Lemma abspath_ok p : no_dslash (abspath p) = true /\ no_dot_seg (abspath p) = true /\ (p <> [] -> abspath p <> []).
Proof.
  rewrite abspath_unfold. destruct (collapse p) as [|c r] eqn:E.
  - apply collapse_nil in E. subst p. repeat split; try reflexivity. congruence.
  - rewrite <- E. destruct (abspath_core_ok (collapse p)) as (H1 & H2 & H3); [congruence | apply collapse_no_dslash|].
    auto.
Qed.

Lemma no_dot_seg_slash a : no_dot_seg (SL :: a) = no_dot_seg a.
Proof. unfold no_dot_seg. rewrite psplit_slash. reflexivity. Qed.

(* C11: a normalised path has no dot segment and no slash run -- for EVERY input path and flag combination *)
Theorem normalize_path_ok h s p :
  no_dot_seg (normalize_path h s p) = true /\ no_dslash (normalize_path h s p) = true.
Proof.
  unfold normalize_path. destruct (abspath_ok p) as (H1 & H2 & _).
  destruct (negb (starts_slash (abspath p)) && h && s && nonnil (abspath p)) eqn:C.
  - rewrite no_dot_seg_slash, no_dslash_cons, beq_SL_SL. cbn [andb].
    apply andb_true_iff in C as [C _]. apply andb_true_iff in C as [C _]. apply andb_true_iff in C as [C _].
    rewrite C, H1, H2. split; reflexivity.
  - split; assumption.
Qed.

(* a non-empty path without dot segments and slash runs is left alone by abspath *)
Lemma abspath_fixed q : q <> [] -> no_dot_seg q = true -> no_dslash q = true -> abspath q = q.
Proof.
  intros Hne N D. rewrite abspath_unfold, (collapse_id q D). destruct q as [|c r]; [congruence|].
  unfold abspath_core. change (fold_left pstep) with run. unfold no_dot_seg in N.
  change (fun s => negb (is_dot s || is_dotdot s)) with nondot in N.
  rewrite (run_push _ N). rewrite pfinish_J. unfold pfinal. cbn [fst snd].
  destruct (psplit (c :: r)) as [|x l] eqn:E; [exfalso; eapply psplit_nonnil; eauto|].
  rewrite <- E. unfold J. rewrite app_nil_r, rev_involutive, pjoin_psplit. reflexivity.
Qed.

Theorem normalize_path_idem h s p : normalize_path h s (normalize_path h s p) = normalize_path h s p.
Proof.
  destruct (normalize_path_ok h s p) as [N D].
  destruct p as [|c r]; [destruct h, s; reflexivity|].
  assert (Hne : normalize_path h s (c :: r) <> []).
  { unfold normalize_path. destruct (abspath_ok (c :: r)) as (_ & _ & H). specialize (H ltac:(congruence)).
    destruct (negb _ && h && s && nonnil _); [congruence | exact H]. }
  unfold normalize_path at 1. rewrite (abspath_fixed _ Hne N D).
  unfold normalize_path in *. destruct (abspath (c :: r)) as [|a o] eqn:E; [destruct h, s; reflexivity|].
  destruct (negb (starts_slash (a :: o)) && h && s && nonnil (a :: o)) eqn:C.
  - cbn [starts_slash]. rewrite beq_SL_SL. reflexivity.
  - rewrite C. reflexivity.
Qed.

Lemma normalize_path_fixed_ok h s p : normalize_path h s p = p -> no_dot_seg p = true /\ no_dslash p = true.
Proof. intros E. rewrite <- E. apply normalize_path_ok. Qed.

(* ---------- (A) abspath + the "/" prefix of normalize = the stack loop without root marker, rendered ---------- *)
Lemma run_allnonnil ss : abl_nonnil ss = true -> forall stk d, forallb nonnil stk = true ->
  forallb nonnil (tl (pfinal (run ss (stk, d)))) = true /\
  (ss = [] \/ snd (run ss (stk, d)) = true -> forallb nonnil (fst (run ss (stk, d))) = true).
Proof.
  assert (TL : forall stk, forallb nonnil stk = true -> forallb nonnil (tl stk) = true).
  { intros [|x r]; [reflexivity|]. cbn [forallb tl]. intros H. apply andb_true_iff in H. tauto. }
  induction ss as [|s ss IH]; intros Hss stk d Hstk.
  - cbn [run fold_left]. split; [|intros _; exact Hstk].
    unfold pfinal. cbn [fst snd]. destruct d; [exact Hstk | apply TL, Hstk].
  - rewrite run_cons. destruct ss as [|y ss].
    + cbn [run fold_left]. unfold pstep, pfinal. cbn [fst snd].
      destruct (is_dotdot s); [cbn [fst snd tl]; split; [|intros _]; apply TL, Hstk|].
      destruct (is_dot s); cbn [negb fst snd tl]; (split; [exact Hstk|]).
      * intros _. exact Hstk.
      * intros [H | H]; discriminate.
    + rewrite abl_cons2 in Hss. apply andb_true_iff in Hss as [Hs Hss].
      assert (G : forallb nonnil (fst (pstep (stk, d) s)) = true).
      { unfold pstep. cbn [fst snd]. destruct (is_dotdot s); [apply TL, Hstk|].
        destruct (is_dot s); cbn [negb fst forallb]; [exact Hstk | rewrite Hs, Hstk; reflexivity]. }
      destruct (pstep (stk, d) s) as [stk' d']. cbn [fst] in G.
      destruct (IH Hss stk' d' G) as [I1 I2]. split; [exact I1|].
      intros [H | H]; [discriminate|]. apply I2. right. exact H.
Qed.

Lemma pjoin_hd x l : nonnil x = true -> slashfree x = true ->
  starts_slash (pjoin (x :: l)) = false /\ nonnil (pjoin (x :: l)) = true.
Proof.
  intros N S. destruct x as [|c x]; [discriminate|]. sf_step S.
  destruct l as [|y l]; cbn [pjoin app starts_slash nonnil]; rewrite Hc; split; reflexivity.
Qed.

(* the "/" prefix step of normalize, with host and scheme present *)
Definition add_root (a : bytes) : bytes := if negb (starts_slash a) && true && true && nonnil a then SL :: a else a.

Lemma final_render FA FR : root_rel FA FR -> FR <> [] -> forallb nonnil (tl FR) = true ->
  forallb slashfree FR = true -> add_root (or_slash (J FA)) = render (rev FR).
Proof.
  intros Rel Hne N S. unfold add_root. destruct Rel as [-> | ->].
  - unfold J. rewrite rev_app_distr. cbn [rev app].
    pose proof (rev_nonnil FR Hne) as Hr. destruct (rev FR) as [|y l] eqn:E; [congruence|].
    rewrite pjoin_cons2. cbn [app or_slash starts_slash]. rewrite beq_SL_SL. cbn [negb andb].
    rewrite render_pjoin by congruence. reflexivity.
  - destruct FR as [|top below]; [congruence|]. cbn [tl] in N. cbn [forallb] in S.
    apply andb_true_iff in S as [St Sb]. destruct below as [|y below].
    + unfold J. cbn [rev app pjoin]. destruct top as [|c top].
      * reflexivity.
      * cbn [or_slash]. sf_step St. cbn [starts_slash nonnil]. rewrite Hc. cbn [negb andb].
        rewrite render_cons. cbn [render flat_map]. rewrite app_nil_r. reflexivity.
    + unfold J. cbn [rev].
      assert (Hb : rev (y :: below) <> []) by (apply rev_nonnil; congruence).
      cbn [rev] in Hb. destruct (rev below ++ [y]) as [|x l] eqn:E; [congruence|].
      assert (Hx : nonnil x = true /\ slashfree x = true).
      { assert (I : In x (rev (y :: below))) by (cbn [rev]; rewrite E; left; reflexivity).
        apply in_rev in I. rewrite forallb_forall in N, Sb. split; [apply N | apply Sb]; exact I. }
      destruct Hx as [Nx Sx]. cbn [app].
      destruct (pjoin_hd x (l ++ [top]) Nx Sx) as [P1 P2].
      rewrite (or_slash_nonnil _ P2), P1, P2. cbn [negb andb].
      rewrite render_pjoin by congruence. reflexivity.
Qed.

Lemma normalize_path_add_root p : normalize_path true true p = add_root (abspath p).
Proof. reflexivity. Qed.

Lemma no_dslash_render ss : abl_nonnil ss = true -> forallb slashfree ss = true -> no_dslash (render ss) = true.
Proof.
  induction ss as [|s ss IH]; [reflexivity|]. intros A S. cbn [forallb] in S. apply andb_true_iff in S as [Ss Sr].
  rewrite render_cons, no_dslash_cons, beq_SL_SL. cbn [andb]. destruct ss as [|y ss].
  - cbn [render flat_map]. rewrite app_nil_r, (starts_slash_slashfree s Ss), (no_dslash_slashfree s Ss). reflexivity.
  - rewrite abl_cons2 in A. apply andb_true_iff in A as [Ns A].
    rewrite starts_slash_app by (destruct s; [discriminate | congruence]).
    rewrite (starts_slash_slashfree s Ss). cbn [negb andb].
    rewrite render_cons. rewrite no_dslash_seg by exact Ss. rewrite <- render_cons. apply IH; assumption.
Qed.

(* for a collapsed absolute path, given by its segments *)
Lemma abspath_render ss : ss <> [] -> abl_nonnil ss = true -> forallb slashfree ss = true ->
  abspath (render ss) = pfinish (run ss ([[]], false)).
Proof.
  intros Hne A S. rewrite abspath_unfold, (collapse_id _ (no_dslash_render ss A S)).
  destruct (render ss) as [|c r] eqn:E; [destruct ss; [congruence | discriminate]|]. rewrite <- E.
  unfold abspath_core. rewrite (psplit_render ss Hne S). reflexivity.
Qed.

Lemma normalize_render ss : ss <> [] -> abl_nonnil ss = true -> forallb slashfree ss = true ->
  normalize_path true true (render ss) = render (rev (seg_rds [] ss)).
Proof.
  intros Hne A S. rewrite normalize_path_add_root, (abspath_render ss Hne A S), pfinish_J. unfold seg_rds.
  assert (Rel : root_rel [[]] []) by (left; reflexivity).
  destruct (root_rel_run ss [[]] [] false Rel) as [R1 R2].
  apply final_render.
  - destruct (run ss ([[]], false)) as [a1 d1]. destruct (run ss ([], false)) as [a2 d2].
    cbn [fst snd] in *. subst d2. apply root_rel_final, R1.
  - apply run_nonnil_final, Hne.
  - apply run_allnonnil; [exact A | reflexivity].
  - apply run_slashfree; [exact S | reflexivity].
Qed.

(* C11: on an absolute URI whose path starts with "/", the normalised path IS the RFC 3986 5.2.4 result
   on the slash-collapsed path *)
Theorem normalize_path_rfc p : starts_slash p = true ->
  rfc_rds (collapse p) = Some (normalize_path true true p).
Proof.
  intros H.
  assert (Hq : starts_slash (collapse p) = true) by (rewrite collapse_starts; exact H).
  pose proof (collapse_no_dslash p) as D.
  destruct (collapse p) as [|c q] eqn:E; [discriminate|].
  cbn [starts_slash] in Hq. apply beq_eq in Hq. subst c.
  pose proof (render_psplit q) as Er.
  assert (A : abl_nonnil (psplit q) = true) by (apply no_dslash_segments, D).
  pose proof (psplit_slashfree_all q) as S. pose proof (psplit_nonnil q) as Hne.
  rewrite <- Er. rewrite (rfc_rds_render _ S). f_equal.
  rewrite <- (normalize_render _ Hne A S), Er.
  (* normalize_path p = normalize_path (collapse p): abspath collapses first *)
  unfold normalize_path. rewrite !abspath_unfold, E.
  rewrite (collapse_id (SL :: q) D). reflexivity.
Qed.

(* ---------- (D) remove_dot_segments leaves a path without dot segments alone ---------- *)
Lemma until_slash_decomp l :
  l = until_slash l ++ skipn (length (until_slash l)) l /\ slashfree (until_slash l) = true /\
  seg_end (skipn (length (until_slash l)) l).
Proof.
  induction l as [|c l (I1 & I2 & I3)]; [repeat split; left; reflexivity|].
  cbn [until_slash]. destruct (beq c SL) eqn:Hc.
  - cbn [length skipn app]. repeat split. right. cbn [starts_slash]. exact Hc.
  - cbn [length skipn app]. split; [f_equal; exact I1|]. split; [|exact I3].
    rewrite slashfree_cons, Hc, I2. reflexivity.
Qed.

Lemma no_dot_seg_seg s R : slashfree s = true -> seg_end R -> no_dot_seg (s ++ R) = nondot s && no_dot_seg R.
Proof.
  intros S E. unfold no_dot_seg. change (fun s => negb (is_dot s || is_dotdot s)) with nondot.
  seg_end_cases E R.
  - rewrite app_nil_r, (psplit_seg s S). cbn [forallb psplit]. rewrite nondot_nil. bfin.
  - rewrite (psplit_seg_slash s R S), psplit_slash. cbn [forallb]. rewrite nondot_nil. reflexivity.
Qed.

Lemma rds_step_rootless f s R out : slashfree s = true -> nonnil s = true -> nondot s = true -> seg_end R ->
  rds (S f) (s ++ R) out = rds f R (out ++ s).
Proof.
  intros S N ND E. unfold nondot in ND. apply negb_true_iff, orb_false_iff in ND as [D1 D2].
  destruct s as [|c s']; [discriminate|]. pose proof S as S'. sf_step S'.
  set (inp := (c :: s') ++ R). cbn [rds]. change ((c :: s') ++ R) with inp. 
  assert (T1 : starts P_DD_S inp = false) by (unfold inp; rewrite (starts_dotdot_slash _ R S E), D2; reflexivity).
  assert (T2 : starts P_D_S inp = false) by (unfold inp; rewrite (starts_dot_slash _ R S E), D1; reflexivity).
  assert (T3 : starts P_S_D_S inp = false) by (unfold inp, P_S_D_S; cbn [app starts]; rewrite Hc; reflexivity).
  assert (T4 : bytes_eqb inp P_S_D = false) by (unfold inp, P_S_D; cbn [app bytes_eqb]; rewrite Hc; reflexivity).
  assert (T5 : starts P_S_DD_S inp = false) by (unfold inp, P_S_DD_S; cbn [app starts]; rewrite Hc; reflexivity).
  assert (T6 : bytes_eqb inp P_S_DD = false) by (unfold inp, P_S_DD; cbn [app bytes_eqb]; rewrite Hc; reflexivity).
  assert (T7 : bytes_eqb inp [DT] || bytes_eqb inp [DT; DT] = false).
  { unfold inp. rewrite (eqb_dot _ R S E), (eqb_dotdot _ R S E), D1, D2. reflexivity. }
  assert (Ei : inp = c :: (s' ++ R)) by reflexivity.
  rewrite Ei at 1. rewrite T1, T2, T3, T4, T5, T6, T7.
  assert (F : first_segment inp = c :: s').
  { unfold first_segment. rewrite Ei. rewrite Hc. rewrite <- Ei. unfold inp. apply until_slash_seg; assumption. }
  rewrite F. unfold inp. rewrite skipn_app_len. reflexivity.
Qed.

Lemma rds_dotfree n : forall inp out fuel, length inp <= n -> length inp < fuel -> no_dot_seg inp = true ->
  rds fuel inp out = Some (out ++ inp).
Proof.
  induction n as [|n IH]; intros inp out fuel Hn Hf ND.
  - destruct inp; [|cbn in Hn; lia]. destruct fuel; [lia|]. cbn [rds]. rewrite app_nil_r. reflexivity.
  - destruct inp as [|c rest]; [destruct fuel; [lia|]; cbn [rds]; rewrite app_nil_r; reflexivity|].
    destruct fuel as [|f]; [lia|]. cbn [length] in Hn, Hf.
    destruct (beq c SL) eqn:Hc.
    + apply beq_eq in Hc. subst c.
      destruct (until_slash_decomp rest) as (E1 & E2 & E3).
      set (s := until_slash rest) in *. set (R := skipn (length s) rest) in *.
      rewrite no_dot_seg_slash in ND. rewrite E1 in ND. rewrite (no_dot_seg_seg s R E2 E3) in ND.
      apply andb_true_iff in ND as [ND1 ND2]. unfold nondot in ND1. apply negb_true_iff, orb_false_iff in ND1 as [D1 D2].
      rewrite E1 at 1. rewrite (rds_step f s R out E2 E3), D1, D2.
      rewrite IH; [rewrite <- app_assoc; cbn [app]; rewrite <- E1; reflexivity | | | exact ND2].
      * assert (length rest = length s + length R) by (rewrite E1 at 1; apply app_length). lia.
      * assert (length rest = length s + length R) by (rewrite E1 at 1; apply app_length). lia.
    + destruct (until_slash_decomp (c :: rest)) as (E1 & E2 & E3).
      set (s := until_slash (c :: rest)) in *. set (R := skipn (length s) (c :: rest)) in *.
      assert (Ns : nonnil s = true) by (unfold s; cbn [until_slash]; rewrite Hc; reflexivity).
      rewrite E1 in ND. rewrite (no_dot_seg_seg s R E2 E3) in ND. apply andb_true_iff in ND as [ND1 ND2].
      rewrite E1 at 1. rewrite (rds_step_rootless f s R out E2 Ns ND1 E3).
      assert (L : length (c :: rest) = length s + length R) by (rewrite E1 at 1; apply app_length).
      assert (Ls : 1 <= length s) by (destruct s; [discriminate | cbn [length]; lia]).
      cbn [length] in L.
      rewrite IH; [rewrite <- app_assoc, <- E1; reflexivity | lia | lia | exact ND2].
Qed.

Lemma remove_dot_segments_dotfree p : no_dot_seg p = true -> remove_dot_segments p = p.
Proof.
  intros H. apply remove_dot_segments_spec. unfold rfc_rds.
  rewrite (rds_dotfree (length p) p [] (S (length p))); auto.
Qed.

(* ---------- (L1) dot removal before normalisation changes nothing on an absolute path without slash runs ---------- *)
Lemma remove_dot_segments_nil : remove_dot_segments [] = [].
Proof. reflexivity. Qed.

Lemma normalize_rds_abs p : starts_slash p = true -> no_dslash p = true ->
  normalize_path true true (remove_dot_segments p) = normalize_path true true p.
Proof.
  intros H D. pose proof (normalize_path_rfc p H) as E. rewrite (collapse_id p D) in E.
  rewrite (remove_dot_segments_spec _ _ E). apply normalize_path_idem.
Qed.

(* ---------- (L2) the "/../" concatenation trick of URI.join against RFC 3986 5.2.3 merge + 5.2.4 ---------- *)
Definition path_normal (p : bytes) : bool :=
  (negb (nonnil p) || starts_slash p) && no_dot_seg p && no_dslash p.

Lemma abl_app a b : forallb nonnil a = true -> abl_nonnil b = true -> abl_nonnil (a ++ b) = true.
Proof.
  induction a as [|x a IH]; intros Ha Hb; [exact Hb|]. cbn [forallb] in Ha. apply andb_true_iff in Ha as [Hx Ha].
  cbn [app]. destruct (a ++ b) as [|y l] eqn:E; [reflexivity|]. rewrite abl_cons2, Hx. cbn [andb]. apply IH; assumption.
Qed.

Lemma abl_snoc_all a s : abl_nonnil (a ++ [s]) = true -> forallb nonnil a = true.
Proof.
  induction a as [|x a IH]; [reflexivity|]. cbn [app]. destruct (a ++ [s]) as [|y l] eqn:E.
  - destruct a; discriminate.
  - rewrite abl_cons2. intros H. apply andb_true_iff in H as [Hx H]. cbn [forallb]. rewrite Hx. apply IH, H.
Qed.

Lemma ends_slash_snoc_nil Y : ends_slash (Y ++ [SL]) = true.
Proof. unfold ends_slash. rewrite rev_app_distr. cbn [rev app starts_slash]. apply beq_SL_SL. Qed.

Lemma from_slash_seg s Y : slashfree s = true -> from_slash (s ++ SL :: Y) = SL :: Y.
Proof.
  intros S. induction s as [|c s IH].
  - cbn [app from_slash]. rewrite beq_SL_SL. reflexivity.
  - sf_step S. cbn [app from_slash]. rewrite Hc. apply IH, Hs.
Qed.

Lemma upto_last_slash_snoc Y s : slashfree s = true -> upto_last_slash (Y ++ SL :: s) = Y ++ [SL].
Proof.
  intros S. unfold upto_last_slash. rewrite rev_app_distr. cbn [rev]. rewrite <- app_assoc. cbn [app].
  rewrite from_slash_seg by (rewrite slashfree_rev; exact S).
  cbn [rev]. rewrite rev_involutive. reflexivity.
Qed.

Lemma remove_dot_segments_render ss : forallb slashfree ss = true ->
  remove_dot_segments (render ss) = render (rev (seg_rds [] ss)).
Proof. intros S. apply remove_dot_segments_spec, rfc_rds_render, S. Qed.

Lemma norm_rds_render ss : ss <> [] -> abl_nonnil ss = true -> forallb slashfree ss = true ->
  normalize_path true true (remove_dot_segments (render ss)) = render (rev (seg_rds [] ss)).
Proof.
  intros Hne A S. rewrite (remove_dot_segments_render ss S), <- (normalize_render ss Hne A S).
  apply normalize_path_idem.
Qed.

(* the relative reference as a segment list *)
Lemma rel_segments rp : nonnil rp = true -> starts_slash rp = false -> no_dslash rp = true ->
  exists rs, rs <> [] /\ abl_nonnil rs = true /\ forallb slashfree rs = true /\ render rs = SL :: rp.
Proof.
  intros N R D. exists (psplit rp). split; [apply psplit_nonnil|]. split.
  - apply no_dslash_segments. rewrite no_dslash_cons, R, D. bfin.
  - split; [apply psplit_slashfree_all | apply render_psplit].
Qed.

Lemma seg_rds_up pre s rs : forallb nondot pre = true -> nondot s = true -> rs <> [] ->
  seg_rds [] (pre ++ s :: [DT; DT] :: rs) = seg_rds [] (pre ++ rs).
Proof.
  intros Np Ns Hrs. unfold seg_rds. rewrite !run_app, (run_push pre Np). rewrite !run_cons.
  rewrite (pstep_push _ _ _ Ns), pstep_dotdot. cbn [tl]. f_equal. apply run_dir_irrel, Hrs.
Qed.

Theorem join_path_merge bp rp : path_normal bp = true ->
  nonnil rp = true -> starts_slash rp = false -> no_dslash rp = true ->
  normalize_path true true (bp ++ (if ends_slash bp then [] else P_S_DD_S) ++ rp) =
  normalize_path true true (remove_dot_segments (merge true bp rp)).
Proof.
  intros PN N R D. unfold path_normal in PN. apply andb_true_iff in PN as [PN Db]. apply andb_true_iff in PN as [Hs Nb].
  destruct (rel_segments rp N R D) as (rs & Hrs & Ars & Srs & Ers).
  destruct bp as [|c b'].
  - (* base path empty: "/../" ++ rp  against  "/" ++ rp *)
    cbn [app]. unfold merge. cbn [nonnil negb andb]. change (ends_slash []) with false. cbn iota.
    replace (P_S_DD_S ++ rp) with (render ([DT; DT] :: rs)) by (rewrite render_cons, Ers; reflexivity).
    rewrite <- Ers.
    rewrite normalize_render; [| congruence | exact (abl_app [[DT; DT]] rs eq_refl Ars) | cbn [forallb]; rewrite Srs; reflexivity].
    rewrite (norm_rds_render rs Hrs Ars Srs). do 2 f_equal.
    unfold seg_rds. rewrite run_cons, pstep_dotdot. cbn [tl]. f_equal. apply run_dir_irrel, Hrs.
  - cbn [nonnil negb orb] in Hs. cbn [starts_slash] in Hs. apply beq_eq in Hs. subst c.
    (* base path "/" ++ b' = render bs with bs = bs' ++ [s] *)
    pose proof (render_psplit b') as Eb.
    assert (Abs : abl_nonnil (psplit b') = true) by (apply no_dslash_segments, Db).
    pose proof (psplit_slashfree_all b') as Sbs.
    assert (Nbs : forallb nondot (psplit b') = true).
    { rewrite no_dot_seg_slash in Nb. exact Nb. }
    destruct (exists_last (psplit_nonnil b')) as (bs' & s & Ebs). rewrite Ebs in *.
    rewrite forallb_app in Sbs, Nbs. cbn [forallb] in Sbs, Nbs. rewrite !andb_true_r in *.
    apply andb_true_iff in Sbs as [Sb' Ss]. apply andb_true_iff in Nbs as [Nb' Ns].
    pose proof (abl_snoc_all _ _ Abs) as Ab'.
    rewrite <- Eb. rewrite render_snoc.
    assert (Em : merge true (render bs' ++ SL :: s) rp = render (bs' ++ rs)).
    { unfold merge. replace (nonnil (render bs' ++ SL :: s)) with true by (destruct (render bs'); reflexivity).
      cbn [negb andb]. rewrite (upto_last_slash_snoc _ _ Ss), <- app_assoc. cbn [app]. rewrite <- Ers, render_app. reflexivity. }
    rewrite Em.
    assert (HY : bs' ++ rs <> []) by (destruct bs'; [exact Hrs | discriminate]).
    assert (AY : abl_nonnil (bs' ++ rs) = true) by (apply abl_app; assumption).
    assert (SY : forallb slashfree (bs' ++ rs) = true) by (rewrite forallb_app, Sb', Srs; reflexivity).
    rewrite (norm_rds_render _ HY AY SY).
    destruct s as [|c s'].
    + (* trailing slash: plain concatenation *)
      rewrite ends_slash_snoc_nil. cbn [app]. rewrite <- app_assoc. cbn [app]. rewrite <- Ers, <- render_app.
      apply normalize_render; assumption.
    + rewrite (ends_slash_snoc_seg _ _ Ss eq_refl).
      replace ((render bs' ++ SL :: c :: s') ++ P_S_DD_S ++ rp) with (render (bs' ++ (c :: s') :: [DT; DT] :: rs)).
      * rewrite normalize_render.
        -- do 2 f_equal. apply seg_rds_up; assumption.
        -- destruct bs'; discriminate.
        -- apply abl_app; [exact Ab'|]. exact (abl_app [c :: s'; [DT; DT]] rs eq_refl Ars).
        -- rewrite forallb_app, Sb'. cbn [forallb]. rewrite Ss, Srs. reflexivity.
      * rewrite render_app, !render_cons, Ers, <- !app_assoc. reflexivity.
Qed.

From Httoop Require Import Lib.Bytes Gen.PercentT Model.Percent.
Local Open Scope N_scope.

(* ---------- table lemmas (re-checked against the regenerated HEX_MAP on every run) ---------- *)

Definition hexd (c : byte) : option N :=
  let n := bN c in
  if (48 <=? n) && (n <=? 57) then Some (n - 48)
  else if (65 <=? n) && (n <=? 70) then Some (n - 55)
  else if (97 <=? n) && (n <=? 102) then Some (n - 87)
  else None.

Definition hex_spec (a b : byte) : option byte :=
  match hexd a, hexd b with
  | Some x, Some y => Some (Nb (16 * x + y))
  | _, _ => None
  end.

(* HEX_MAP is exactly the two-hex-digit decoding, in both letter cases *)
Lemma hex_lookup_is_two_hex_digits a b : hex_lookup a b = hex_spec a b.
Proof.
  apply opt_beq_eq. revert a b. apply forall_byte2. vm_compute. reflexivity.
Qed.

Lemma hex_lookup_esc c : hex_lookup (hexU (bN c / 16)) (hexU (bN c mod 16)) = Some c.
Proof.
  apply opt_beq_eq. revert c. apply forall_byte. vm_compute. reflexivity.
Qed.

Lemma hex_lookup_pct_l b : hex_lookup PCT b = None.
Proof. rewrite hex_lookup_is_two_hex_digits. reflexivity. Qed.

Lemma hex_lookup_pct_r a : hex_lookup a PCT = None.
Proof. rewrite hex_lookup_is_two_hex_digits. unfold hex_spec. destruct (hexd a); reflexivity. Qed.

Definition is_upper_hex (c : byte) : bool :=
  let n := bN c in ((48 <=? n) && (n <=? 57)) || ((65 <=? n) && (n <=? 70)).

Lemma hexU_hi c : is_upper_hex (hexU (bN c / 16)) = true.
Proof. revert c. apply forall_byte. vm_compute. reflexivity. Qed.
Lemma hexU_lo c : is_upper_hex (hexU (bN c mod 16)) = true.
Proof. revert c. apply forall_byte. vm_compute. reflexivity. Qed.

Lemma upper_hex_not_pct c : is_upper_hex c = true -> beq c PCT = false.
Proof.
  intros H. assert (G : implb (is_upper_hex c) (negb (beq c PCT)) = true).
  { revert c H. intros c _. revert c. apply forall_byte. vm_compute. reflexivity. }
  rewrite H in G. cbn in G. apply negb_true_iff in G. exact G.
Qed.

(* ---------- unquote: characterising recursion ---------- *)

Fixpoint unq (l : bytes) : bytes :=
  match l with
  | [] => []
  | c :: r =>
      if beq c PCT then
        match r with
        | a :: b :: r' =>
            match hex_lookup a b with
            | Some x => x :: unq r'
            | None => PCT :: unq r
            end
        | _ => PCT :: unq r
        end
      else c :: unq r
  end.

Lemma split1_nonnil sep l : split1 sep l <> [].
Proof. destruct l as [|c r]; cbn; [congruence|]. destruct (beq c sep); [congruence|]. destruct (split1 sep r); congruence. Qed.

Definition U (d : bytes) : bytes :=
  match split1 PCT d with [] => [] | h :: t => h ++ flat_map dec_item t end.

Lemma U_cons_other c r : beq c PCT = false -> U (c :: r) = c :: U r.
Proof.
  intros Hc. unfold U. cbn [split1]. rewrite Hc.
  destruct (split1 PCT r) as [|h t] eqn:E; [exfalso; eapply split1_nonnil; eauto|]. reflexivity.
Qed.

Lemma U_pct r : U (PCT :: r) = flat_map dec_item (split1 PCT r).
Proof. unfold U. cbn [split1]. rewrite beq_refl. reflexivity. Qed.

Lemma split1_cons_other c r : beq c PCT = false ->
  exists h t, split1 PCT r = h :: t /\ split1 PCT (c :: r) = (c :: h) :: t.
Proof.
  intros Hc. cbn [split1]. rewrite Hc.
  destruct (split1 PCT r) as [|h t] eqn:E; [exfalso; eapply split1_nonnil; eauto|]. eauto.
Qed.

Lemma flat_split_U r h t : split1 PCT r = h :: t -> h ++ flat_map dec_item t = U r.
Proof. intros E. unfold U. rewrite E. reflexivity. Qed.

Lemma unquote_unq_len n : forall d, (length d <= n)%nat -> unquote d = unq d.
Proof.
  change unquote with U.
  induction n as [|n IH]; intros d Hn.
  - destruct d; [reflexivity | cbn in Hn; lia].
  - destruct d as [|c r]; [reflexivity|].
    cbn [length] in Hn. cbn [unq].
    destruct (beq c PCT) eqn:Hc.
    + apply beq_eq in Hc. subst c. rewrite U_pct.
      destruct r as [|a [|b r']].
      * reflexivity.
      * cbn [split1 unq]. destruct (beq a PCT) eqn:Ha; cbn; [|reflexivity].
        reflexivity.
      * destruct (hex_lookup a b) as [x|] eqn:Hl.
        -- assert (Ha : beq a PCT = false).
           { destruct (beq a PCT) eqn:Ha; [|reflexivity]. apply beq_eq in Ha; subst a.
             rewrite hex_lookup_pct_l in Hl. discriminate. }
           assert (Hb : beq b PCT = false).
           { destruct (beq b PCT) eqn:Hb; [|reflexivity]. apply beq_eq in Hb; subst b.
             rewrite hex_lookup_pct_r in Hl. discriminate. }
           destruct (split1_cons_other b r' Hb) as (h & t & E1 & E2).
           destruct (split1_cons_other a (b :: r') Ha) as (h2 & t2 & E3 & E4).
           rewrite E2 in E3. injection E3 as <- <-.
           rewrite E4. cbn [flat_map dec_item]. rewrite Hl. cbn [app].
           f_equal. rewrite (flat_split_U _ _ _ E1). apply IH. cbn [length] in Hn. lia.
        -- (* KeyError: '%' + item; then the rest *)
           rewrite <- (IH (a :: b :: r')) by (cbn [length] in *; lia).
           destruct (beq a PCT) eqn:Ha.
           { apply beq_eq in Ha; subst a. rewrite U_pct. cbn [split1]. rewrite beq_refl.
             reflexivity. }
           destruct (beq b PCT) eqn:Hb.
           { apply beq_eq in Hb; subst b. rewrite (U_cons_other a _ Ha). rewrite U_pct.
             cbn [split1]. rewrite Ha, beq_refl. reflexivity. }
           destruct (split1_cons_other b r' Hb) as (h & t & E1 & E2).
           destruct (split1_cons_other a (b :: r') Ha) as (h2 & t2 & E3 & E4).
           rewrite E2 in E3. injection E3 as <- <-.
           rewrite E4. cbn [flat_map dec_item]. rewrite Hl.
           rewrite <- (flat_split_U _ _ _ E4). reflexivity.
    + rewrite (U_cons_other c r Hc). f_equal. apply IH. lia.
Qed.

Lemma unquote_unq d : unquote d = unq d.
Proof. apply (unquote_unq_len (length d)). lia. Qed.

(* ---------- quote then unquote ---------- *)

Lemma eff_safe_not_pct safe c : eff_safe safe c = true -> beq c PCT = false.
Proof. unfold eff_safe. intros H. apply andb_true_iff in H as [_ H]. apply negb_true_iff in H. exact H. Qed.

Lemma pct_never_safe safe : eff_safe safe PCT = false.
Proof. unfold eff_safe. rewrite beq_refl. apply andb_false_r. Qed.

Lemma unq_quote1 safe c rest : unq (quote1 Repaired safe c ++ rest) = c :: unq rest.
Proof.
  unfold quote1. destruct (eff_safe safe c) eqn:Hs.
  - cbn [app unq]. rewrite (eff_safe_not_pct _ _ Hs). reflexivity.
  - cbn [esc app unq]. rewrite beq_refl, hex_lookup_esc. reflexivity.
Qed.

Lemma quote_cons v safe c d : quote v safe (c :: d) = quote1 v safe c ++ quote v safe d.
Proof. reflexivity. Qed.

Lemma quote_app v safe a b : quote v safe (a ++ b) = quote v safe a ++ quote v safe b.
Proof. unfold quote. apply flat_map_app. Qed.

Lemma unq_quote_app safe d rest : unq (quote Repaired safe d ++ rest) = d ++ unq rest.
Proof.
  induction d as [|c d IH]; [reflexivity|].
  rewrite quote_cons, <- app_assoc, unq_quote1, IH. reflexivity.
Qed.

Theorem unquote_quote safe d : unquote (quote Repaired safe d) = d.
Proof.
  rewrite unquote_unq. rewrite <- (app_nil_r (quote _ _ _)), unq_quote_app. cbn. apply app_nil_r.
Qed.

(* the encoded string: safe octets and well-formed two-digit (upper-case) escapes only *)
Inductive wf_enc (safe : N) : bytes -> Prop :=
| wf_nil : wf_enc safe []
| wf_safe c l : eff_safe safe c = true -> wf_enc safe l -> wf_enc safe (c :: l)
| wf_esc a b l : is_upper_hex a = true -> is_upper_hex b = true -> wf_enc safe l ->
                 wf_enc safe (PCT :: a :: b :: l).

Theorem quote_wf safe d : wf_enc safe (quote Repaired safe d).
Proof.
  induction d as [|c d IH]; [constructor|]. rewrite quote_cons. unfold quote1.
  destruct (eff_safe safe c) eqn:Hs; cbn [app esc].
  - constructor; assumption.
  - constructor; [apply hexU_hi | apply hexU_lo | assumption].
Qed.

(* no '%' survives inside the safe set, whatever set is passed *)
Lemma wf_enc_pct_starts_escape safe l1 l2 :
  wf_enc safe (l1 ++ PCT :: l2) -> True.
Proof. trivial. Qed.

(* ---------- the pinned tree's "%X" ---------- *)

Definition no_low_unsafe (safe : N) (d : bytes) : bool :=
  forallb (fun c => eff_safe safe c || (16 <=? bN c)) d.

Lemma quote_asfound_eq safe d : no_low_unsafe safe d = true -> quote AsFound safe d = quote Repaired safe d.
Proof.
  induction d as [|c d IH]; [reflexivity|]. cbn [no_low_unsafe forallb]. intros H.
  apply andb_true_iff in H as [Hc Hd]. rewrite !quote_cons, (IH Hd). f_equal.
  unfold quote1. destruct (eff_safe safe c); [reflexivity|]. cbn [orb] in Hc.
  unfold esc. apply N.leb_le in Hc. destruct (bN c <? 16) eqn:E; [apply N.ltb_lt in E; lia | reflexivity].
Qed.

Theorem unquote_quote_asfound safe d : no_low_unsafe safe d = true -> unquote (quote AsFound safe d) = d.
Proof. intros H. rewrite (quote_asfound_eq _ _ H). apply unquote_quote. Qed.

Theorem unquote_quote_asfound_refuted : exists safe d, unquote (quote AsFound safe d) <> d.
Proof. exists PCT_UNRESERVED, [x01]. vm_compute. discriminate. Qed.

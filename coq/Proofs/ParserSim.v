(* C01 on the parser model, part B: the machine that parses complete header lines as they arrive
   ([eager_reference], what the implementation does) simulates the reference machine that waits for the
   whole header section: same messages, same errors -- except that it may refuse an invalid header line
   (400) while the reference machine is still waiting inside that unfinished header section (finding D34). *)
From Coq Require Import ZArith.
From Httoop Require Import Model.Parser Proofs.SplitP Proofs.HeadersP Proofs.ParserEsc Proofs.ParserFuel Proofs.ParserFraming Proofs.ParserFrag.
Local Open Scope N_scope.

Notation CRLF2 := (CRLF ++ CRLF).

(* what the eager machine has already consumed of a header section, seen from the lazy buffer X *)
Definition hdr_rel (he : hdrs) (x X : bytes) : Prop :=
  (he = [] /\ X = x) \/
  (exists HS, X = HS ++ CRLF ++ x /\ HS <> [] /\ hparse [] HS = Some he /\ x <> [] /\ starts_ws x = false /\
              cut CRLF2 (HS ++ CRLF) = None /\ prefixb CRLF X = false).

Lemma hdr_rel_app he x X d : hdr_rel he x X -> hdr_rel he (x ++ d) (X ++ d).
Proof.
  intros [[-> ->] | (HS & -> & H1 & H2 & H3 & H4 & H5 & H6)]; [left; auto|].
  right. exists HS. repeat split; auto.
  - rewrite <- !app_assoc. reflexivity.
  - destruct x; [congruence | discriminate].
  - rewrite starts_ws_app by exact H3. exact H4.
  - rewrite prefixb_app_long; [exact H6|]. rewrite !app_length. destruct HS; [congruence|]. cbn. lia.
Qed.

(* ---- _parse_single_headers, abstractly: it consumes some prefix hs that ends right before a CRLF
        and is followed by a line that is known not to be a continuation ---- *)
Lemma single_spec he x : prefixb CRLF x = false -> cut CRLF2 x = None ->
  match parse_headers eager_reference LE_CRLF he x with
  | Need he' x' => (he' = he /\ x' = x) \/
                   (exists hs, x = hs ++ CRLF ++ x' /\ hs <> [] /\ x' <> [] /\ starts_ws x' = false /\ hparse he hs = Some he')
  | Fail e => e = EHttp 400 /\ exists hs x', x = hs ++ CRLF ++ x' /\ hs <> [] /\ x' <> [] /\ starts_ws x' = false /\ hparse he hs = None
  | Done _ _ => False
  end.
Proof.
  intros P Cu. unfold parse_headers. cbn [le_bytes eager_reference eager_hdr negb]. rewrite P, Cu.
  set (parts := if suffixb CRLF x then match rcut CRLF (firstn (length x - length CRLF) x) with Some (hs, rest) => Some (hs, rest ++ CRLF) | None => None end else rcut CRLF x).
  assert (Hparts : forall hs rest, parts = Some (hs, rest) -> x = hs ++ CRLF ++ rest).
  { intros hs rest. subst parts. destruct (suffixb CRLF x) eqn:S.
    - apply suffixb_spec in S as (z & Hz & Hf). rewrite Hf.
      destruct (rcut CRLF z) as [[a b]|] eqn:R; [|discriminate]. intros H. injection H as <- <-.
      apply rcut_some in R; [|exact CRLF_ne]. rewrite Hz, R, <- !app_assoc. reflexivity.
    - intros R. apply rcut_some in R; [exact R | exact CRLF_ne]. }
  destruct parts as [[hs rest]|]; [|left; auto].
  specialize (Hparts hs rest eq_refl).
  destruct (nonempty_b hs && negb match rest with [] => true | c :: _ => beq c SP || beq c HT end) eqn:Cond; [|left; auto].
  apply andb_true_iff in Cond as [C1 C2]. apply negb_true_iff in C2.
  assert (Hhs : hs <> []) by (destruct hs; [discriminate | congruence]).
  assert (Hrest : rest <> [] /\ starts_ws rest = false) by (destruct rest; [discriminate | split; [congruence | exact C2]]).
  unfold parse_block. rewrite C1. destruct (hparse he hs) as [h'|] eqn:HP.
  - right. exists hs. repeat split; try tauto.
  - split; [reflexivity|]. exists hs, rest. repeat split; try tauto.
Qed.

Lemma parse_block_nonempty h blk : blk <> [] -> parse_block h blk = hparse h blk.
Proof. destruct blk; [congruence | reflexivity]. Qed.

(* ---- the header phase of the two machines, from related buffers ---- *)
Lemma ph_lazy_eq h X : parse_headers reference LE_CRLF h X =
  if prefixb CRLF X then Done h (skipn 2 X)
  else match cut CRLF2 X with
       | Some (blk, r) => match parse_block h blk with Some h' => Done h' r | None => Fail (EHttp 400) end
       | None => Need h X
       end.
Proof. reflexivity. Qed.

Lemma ph_eager_prefix he x : prefixb CRLF x = true -> parse_headers eager_reference LE_CRLF he x = Done he (skipn 2 x).
Proof. intros P. unfold parse_headers. cbn [le_bytes]. rewrite P. reflexivity. Qed.

Lemma ph_eager_cut he x blk r : prefixb CRLF x = false -> cut CRLF2 x = Some (blk, r) ->
  parse_headers eager_reference LE_CRLF he x = match parse_block he blk with Some h' => Done h' r | None => Fail (EHttp 400) end.
Proof. intros P Cu. unfold parse_headers. cbn [le_bytes]. rewrite P, Cu. reflexivity. Qed.

Lemma hdr_sim he x X : hdr_rel he x X ->
  match parse_headers reference LE_CRLF [] X with
  | Done hl rl => parse_headers eager_reference LE_CRLF he x = Done hl rl
  | Fail e => parse_headers eager_reference LE_CRLF he x = Fail e
  | Need _ _ =>
      match parse_headers eager_reference LE_CRLF he x with
      | Need he' x' => hdr_rel he' x' X
      | Fail e => e = EHttp 400 /\ exists HS' x', X = HS' ++ CRLF ++ x' /\ hparse [] HS' = None /\ cut CRLF2 (HS' ++ CRLF) = None /\ prefixb CRLF X = false
      | Done _ _ => False
      end
  end.
Proof.
  intros [[-> ->] | (HS & -> & H1 & H2 & H3 & H4 & H5 & H6)].
  - (* nothing consumed yet: same buffer *)
    rewrite ph_lazy_eq.
    destruct (prefixb CRLF x) eqn:P; [rewrite ph_eager_prefix by exact P; reflexivity|].
    destruct (cut CRLF2 x) as [[blk r]|] eqn:Cu.
    { rewrite (ph_eager_cut [] x blk r P Cu). destruct (parse_block [] blk); reflexivity. }
    pose proof (single_spec [] x P Cu) as SS.
    destruct (parse_headers eager_reference LE_CRLF [] x) as [he' x'|hd rd|e]; [| exact SS |].
    + destruct SS as [[-> ->] | (hs & -> & A1 & A2 & A3 & A4)]; [left; auto|].
      right. exists hs. repeat split; auto.
      replace (hs ++ CRLF ++ x') with ((hs ++ CRLF) ++ x') in Cu by (rewrite <- app_assoc; reflexivity).
      exact (cut_app_none _ _ _ Cu).
    + destruct SS as [-> (hs & x' & -> & A1 & A2 & A3 & A4)]. split; [reflexivity|].
      exists hs, x'. repeat split; auto.
      replace (hs ++ CRLF ++ x') with ((hs ++ CRLF) ++ x') in Cu by (rewrite <- app_assoc; reflexivity).
      exact (cut_app_none _ _ _ Cu).
  - (* HS already consumed by the eager machine *)
    rewrite ph_lazy_eq, H6, (cut_CRLF2_app HS x H5).
    destruct (prefixb CRLF x) eqn:P.
    + rewrite parse_block_nonempty by exact H1. rewrite H2. apply ph_eager_prefix, P.
    + destruct (cut CRLF2 x) as [[b1 b2]|] eqn:Cu.
      * assert (Hb1 : b1 <> [] /\ starts_ws b1 = false).
        { pose proof Cu as Cu'. apply cut_some in Cu'; [|unfold CRLF; discriminate]. destruct b1 as [|c b1].
          - exfalso. rewrite Cu' in P. cbn [app] in P. unfold CRLF in P. cbn in P. discriminate.
          - split; [congruence|]. rewrite Cu' in H4. exact H4. }
        destruct Hb1 as [Hb1 Hb2].
        rewrite parse_block_nonempty by (destruct HS; [congruence | discriminate]).
        rewrite (hparse_app [] HS b1 Hb2), H2.
        rewrite (ph_eager_cut he x b1 b2 P Cu), parse_block_nonempty by exact Hb1.
        destruct (hparse he b1); reflexivity.
      * pose proof (single_spec he x P Cu) as SS.
        destruct (parse_headers eager_reference LE_CRLF he x) as [he' x'|hd rd|e]; [| exact SS |].
        -- destruct SS as [[-> ->] | (hs & -> & A1 & A2 & A3 & A4)].
           ++ right. exists HS. repeat split; auto.
           ++ right. exists (HS ++ CRLF ++ hs). repeat split; auto.
              ** rewrite <- !app_assoc. reflexivity.
              ** destruct HS; [congruence | discriminate].
              ** assert (Hws : starts_ws hs = false) by (rewrite starts_ws_app in H4 by exact A1; exact H4).
                 rewrite (hparse_app [] HS hs Hws), H2. exact A4.
              ** assert (Cu2 : cut CRLF2 (HS ++ CRLF ++ hs ++ CRLF ++ x') = None).
                 { rewrite (cut_CRLF2_app HS _ H5), P, Cu. reflexivity. }
                 replace (HS ++ CRLF ++ hs ++ CRLF ++ x') with (((HS ++ CRLF ++ hs) ++ CRLF) ++ x') in Cu2 by (rewrite <- !app_assoc; reflexivity).
                 exact (cut_app_none _ _ _ Cu2).
        -- destruct SS as [-> (hs & x' & -> & A1 & A2 & A3 & A4)]. split; [reflexivity|].
           exists (HS ++ CRLF ++ hs), x'. repeat split.
           ++ rewrite <- !app_assoc. reflexivity.
           ++ assert (Hws : starts_ws hs = false) by (rewrite starts_ws_app in H4 by exact A1; exact H4).
              rewrite (hparse_app [] HS hs Hws), H2. exact A4.
           ++ assert (Cu2 : cut CRLF2 (HS ++ CRLF ++ hs ++ CRLF ++ x') = None).
              { rewrite (cut_CRLF2_app HS _ H5), P, Cu. reflexivity. }
              replace (HS ++ CRLF ++ hs ++ CRLF ++ x') with (((HS ++ CRLF ++ hs) ++ CRLF) ++ x') in Cu2 by (rewrite <- !app_assoc; reflexivity).
              exact (cut_app_none _ _ _ Cu2).
Qed.

Section Sim.
Variable C : callees.
Variable k : kind.

Notation E := eager_reference.
Notation L := reference.

(* states of the two machines that stand for the same situation *)
Definition Rst (se sl : pstate) : Prop :=
  match cur se, cur sl with
  | None, None => buf se = buf sl
  | Some ie, Some il =>
      (i_phase ie = PBody /\ il = ie /\ buf se = buf sl) \/
      (i_phase ie = PHeaders /\ il = set_hdrs ie [] /\ i_le ie = LE_CRLF /\ hdr_rel (i_hdrs ie) (buf se) (buf sl))
  | _, _ => False
  end.

(* the lazy machine is waiting inside a header section that already contains a line the eager machine refused *)
Definition doomed (sl : pstate) : Prop :=
  exists il HS' x', cur sl = Some il /\ i_phase il = PHeaders /\ i_hdrs il = [] /\ i_le il = LE_CRLF /\
     buf sl = HS' ++ CRLF ++ x' /\ hparse [] HS' = None /\ cut CRLF2 (HS' ++ CRLF) = None /\ prefixb CRLF (buf sl) = false.

Lemma Rst_empty se sl : Rst se sl -> (buf se = [] <-> buf sl = []).
Proof.
  unfold Rst. destruct (cur se) as [ie|], (cur sl) as [il|]; try tauto.
  - intros [(_ & _ & ->) | (_ & _ & _ & [[_ ->] | (HS & -> & H1 & _ & H3 & _)])]; try tauto.
    split; [congruence|]. intros H. destruct HS; [congruence | discriminate].
  - intros ->. tauto.
Qed.

Lemma Rst_app se sl d : Rst se sl -> Rst (app_buf se d) (app_buf sl d).
Proof.
  unfold Rst, app_buf. cbn [cur buf]. destruct (cur se) as [ie|], (cur sl) as [il|]; try tauto.
  - intros [(A & B & ->) | (A & B & D & G)]; [left; auto | right; repeat split; auto using hdr_rel_app].
  - intros ->. reflexivity.
Qed.

Lemma after_headers_cfg i b : after_headers E C k i b = after_headers L C k i b.
Proof. reflexivity. Qed.
Lemma parse_startline_cfg b : parse_startline E C b = parse_startline L C b.
Proof. reflexivity. Qed.

(* after the header section is complete the two machines are in literally the same state *)
Lemma body_turn i b : i_phase i = PBody ->
  match after_headers L C k i b with
  | TMsg sl' m => exists se', after_headers E C k i b = TMsg se' m /\ Rst se' sl'
  | TErr e => after_headers E C k i b = TErr e
  | TBlocked sl' => exists se', after_headers E C k i b = TBlocked se' /\ Rst se' sl'
  end.
Proof.
  intros Hph. rewrite after_headers_cfg. rewrite (after_headers_eq L C k i b).
  pose proof (parse_body_phase C i b) as PP.
  destruct (parse_body C i b) as [i' b'|i' b'|e].
  - eexists; split; [reflexivity|]. unfold Rst; cbn. left. rewrite (PP _ _ eq_refl). auto.
  - destruct (on_body_complete L C k i' b'); [eexists; split; [reflexivity | reflexivity] | reflexivity].
  - reflexivity.
Qed.

Lemma hdr_turn ie x X : i_phase ie = PHeaders -> i_le ie = LE_CRLF -> hdr_rel (i_hdrs ie) x X ->
  match after_startline L C k (set_hdrs ie []) X with
  | TMsg sl' m => exists se', after_startline E C k ie x = TMsg se' m /\ Rst se' sl'
  | TErr e => after_startline E C k ie x = TErr e
  | TBlocked sl' => (exists se', after_startline E C k ie x = TBlocked se' /\ Rst se' sl') \/
                    (after_startline E C k ie x = TErr (EHttp 400) /\ doomed sl')
  end.
Proof.
  intros Hph Hle HR. rewrite (after_startline_eq L C k (set_hdrs ie []) X), (after_startline_eq E C k ie x).
  cbn [i_phase i_le i_hdrs set_hdrs]. rewrite Hph, Hle.
  pose proof (hdr_sim (i_hdrs ie) x X HR) as HS.
  destruct (parse_headers L LE_CRLF [] X) as [hl Xl|hl rl|e] eqn:PL.
  - (* the lazy machine waits *)
    destruct (parse_headers_lazy_need L eq_refl _ _ _ _ _ PL) as [-> ->].
    destruct (parse_headers E LE_CRLF (i_hdrs ie) x) as [he' x'|hd rd|e]; [| contradiction |].
    + left. eexists; split; [reflexivity|]. unfold Rst; cbn. right. repeat split; auto.
    + destruct HS as [-> (HS' & x' & EX & H1 & H2 & H3)]. right. split; [reflexivity|].
      exists (set_hdrs (set_hdrs ie []) []), HS', x'. cbn. repeat split; auto.
  - rewrite HS. cbn [set_hdrs set_phase].
    change (set_phase (set_hdrs (set_hdrs ie []) hl) PBody) with (set_phase (set_hdrs ie hl) PBody).
    destruct (on_headers_complete C k (set_phase (set_hdrs ie hl) PBody)) as [i2|e2] eqn:O; [|reflexivity].
    assert (Hph2 : i_phase i2 = PBody) by (apply on_headers_complete_spec in O; subst i2; reflexivity).
    pose proof (body_turn i2 rl Hph2) as BT.
    destruct (after_headers L C k i2 rl) as [s1|s1 m|e]; try exact BT. left. exact BT.
  - rewrite HS. reflexivity.
Qed.

Lemma turn_sim se sl : Rst se sl ->
  match turn_of L C k sl with
  | TMsg sl' m => exists se', turn_of E C k se = TMsg se' m /\ Rst se' sl'
  | TErr e => turn_of E C k se = TErr e
  | TBlocked sl' => (exists se', turn_of E C k se = TBlocked se' /\ Rst se' sl') \/
                    (turn_of E C k se = TErr (EHttp 400) /\ doomed sl')
  end.
Proof.
  unfold Rst. rewrite (turn_of_eq L C k sl), (turn_of_eq E C k se).
  destruct (cur se) as [ie|] eqn:Ce, (cur sl) as [il|] eqn:Cl; try tauto.
  - intros [(Hph & -> & Eb) | (Hph & -> & Hle & HR)].
    + rewrite Eb, (after_startline_eq L C k ie), (after_startline_eq E C k ie), Hph.
      pose proof (body_turn ie (buf sl) Hph) as BT.
      destruct (after_headers L C k ie (buf sl)) as [s1|s1 m|e]; try exact BT. left. exact BT.
    + apply hdr_turn; assumption.
  - intros Eb. rewrite Eb, parse_startline_cfg.
    destruct (parse_startline L C (buf sl)) as [a x'|[[line le] info] rest|e] eqn:PS.
    + left. exists se. split; [reflexivity|]. unfold Rst. rewrite Ce, Cl. exact Eb.
    + assert (Hle : le = LE_CRLF).
      { unfold parse_startline in PS. cbn [allow_lf reference andb] in PS.
        destruct (contains CRLF (buf sl)); [|discriminate]. repeat dmatch; try discriminate. injection PS as _ <- _ _. reflexivity. }
      subst le.
      set (i0 := {| i_line := line; i_le := LE_CRLF; i_info := info; i_phase := PHeaders; i_hdrs := []; i_ce := None;
                    i_len := None; i_chunked := false; i_trailer := false; i_body := [] |}).
      change i0 with (set_hdrs i0 []) at 1.
      apply (hdr_turn i0 rest rest eq_refl eq_refl). left. auto.
    + reflexivity.
Qed.

(* ---------- the loop ---------- *)
Lemma loop_sim F : forall se sl acc F2, Rst se sl -> wf_st se -> wf_st sl ->
  (length (buf sl) < F)%nat -> (length (buf se) < F2)%nat ->
  match loop L C k F sl acc with
  | (_, ms, Some e) => loop E C k F2 se acc = (init, ms, Some e)
  | (sl', ms, None) => (exists se', loop E C k F2 se acc = (se', ms, None) /\ Rst se' sl' /\ wf_st se' /\ wf_st sl') \/
                       (loop E C k F2 se acc = (init, ms, Some (EHttp 400)) /\ doomed sl')
  end.
Proof.
  induction F as [|f IH]; intros se sl acc F2 HR We Wl Hf Hf2; [lia|]. destruct F2 as [|f2]; [lia|].
  cbn [loop]. pose proof (Rst_empty se sl HR) as HE.
  destruct (buf sl) as [|bl ll] eqn:Bl.
  - rewrite (proj2 HE eq_refl). left. exists se. auto.
  - destruct (buf se) as [|be le] eqn:Be; [exfalso; destruct HE as [HE _]; specialize (HE eq_refl); discriminate|].
    pose proof (turn_sim se sl HR) as TS.
    pose proof (turn_ok L C k sl Wl) as TL. pose proof (turn_ok E C k se We) as TE.
    destruct (turn_of L C k sl) as [sl'|sl' m|e].
    + destruct TS as [(se' & TSe & HR') | [TSe HD]].
      * rewrite TSe in *. left. exists se'. auto.
      * rewrite TSe. right. auto.
    + destruct TS as (se' & TSe & HR'). rewrite TSe in *. destruct TL as [TL1 TL2]. destruct TE as [TE1 TE2].
      rewrite Bl in TL1. rewrite Be in TE1. cbn [length] in *.
      apply IH; auto; lia.
    + rewrite TS. reflexivity.
Qed.

Lemma parse_sim se sl d : Rst se sl -> wf_st se -> wf_st sl ->
  match parse L C k sl d with
  | (_, ms, Some e) => parse E C k se d = (init, ms, Some e)
  | (sl', ms, None) => (exists se', parse E C k se d = (se', ms, None) /\ Rst se' sl' /\ wf_st se' /\ wf_st sl') \/
                       (parse E C k se d = (init, ms, Some (EHttp 400)) /\ doomed sl')
  end.
Proof.
  intros HR We Wl. rewrite (parse_eq L C k sl d), (parse_eq E C k se d).
  apply loop_sim; auto using Rst_app; cbn [app_buf buf]; lia.
Qed.

(* ---------- a doomed header section can only end in 400 ---------- *)
Lemma doomed_parse sl d : doomed sl ->
  (exists sl', parse L C k sl d = (sl', [], None) /\ doomed sl') \/ parse L C k sl d = (init, [], Some (EHttp 400)).
Proof.
  intros (il & HS' & x' & Cu & Hph & Hh & Hle & Eb & HP & HC & HPre).
  rewrite (parse_eq L C k sl d).
  assert (HSne : HS' <> []).
  { intros ->. rewrite Eb in HPre. cbn [app] in HPre. rewrite prefixb_app in HPre. discriminate. }
  set (X := buf sl ++ d).
  assert (EX : X = HS' ++ CRLF ++ (x' ++ d)) by (subst X; rewrite Eb, <- !app_assoc; reflexivity).
  assert (HPre2 : prefixb CRLF X = false).
  { subst X. rewrite prefixb_app_long; [exact HPre|]. rewrite Eb, !app_length. destruct HS'; [congruence|]. cbn. lia. }
  assert (Xne : exists b0 l0, X = b0 :: l0).
  { rewrite EX. destruct HS'; [congruence|]. cbn. eauto. }
  destruct Xne as (b0 & l0 & Xne).
  change (buf sl ++ d) with X. cbn [loop app_buf buf]. fold X. rewrite Xne. rewrite <- Xne.
  rewrite (turn_of_eq L C k). cbn [cur buf app_buf]. rewrite Cu. fold X.
  rewrite (after_startline_eq L C k il X), Hph, Hle, Hh, ph_lazy_eq, HPre2, EX.
  rewrite (cut_CRLF2_app HS' (x' ++ d) HC).
  destruct (prefixb CRLF (x' ++ d)).
  - rewrite parse_block_nonempty by exact HSne. rewrite HP. right. reflexivity.
  - destruct (cut CRLF2 (x' ++ d)) as [[b1 b2]|].
    + rewrite parse_block_nonempty by (destruct HS'; [congruence | discriminate]).
      rewrite (hparse_fail_app [] HS' b1 HP). right. reflexivity.
    + left. eexists. split; [reflexivity|].
      exists (set_hdrs il []), HS', (x' ++ d). cbn [cur buf]. repeat split; auto.
      rewrite <- EX. exact HPre2.
Qed.

Lemma doomed_run frags : forall sl, doomed sl ->
  (exists sl', run_keep L C k sl frags = (sl', [], None) /\ doomed sl') \/ run_keep L C k sl frags = (init, [], Some (EHttp 400)).
Proof.
  induction frags as [|f fr IH]; intros sl HD; cbn [run_keep]; [left; eauto|].
  destruct (doomed_parse sl f HD) as [(sl' & -> & HD') | ->]; [|right; reflexivity].
  destruct (IH sl' HD') as [(sl2 & -> & HD2) | ->]; [left; eauto | right; reflexivity].
Qed.

(* ---------- whole runs: Theorem B ---------- *)
Theorem run_sim frags : forall se sl, Rst se sl -> wf_st se -> wf_st sl ->
  match run_keep L C k sl frags with
  | (_, ms, Some e) => run_keep E C k se frags = (init, ms, Some e)
  | (sl', ms, None) => (exists se', run_keep E C k se frags = (se', ms, None) /\ Rst se' sl') \/
                       (run_keep E C k se frags = (init, ms, Some (EHttp 400)) /\ doomed sl')
  end.
Proof.
  induction frags as [|f fr IH]; intros se sl HR We Wl; cbn [run_keep]; [left; eauto|].
  pose proof (parse_sim se sl f HR We Wl) as PS.
  destruct (parse L C k sl f) as [[sl1 m1] [e|]].
  - rewrite PS. reflexivity.
  - destruct PS as [(se1 & -> & HR1 & We1 & Wl1) | [-> HD]].
    + specialize (IH se1 sl1 HR1 We1 Wl1).
      destruct (run_keep L C k sl1 fr) as [[sl2 m2] [e|]].
      * rewrite IH. reflexivity.
      * destruct IH as [(se2 & -> & HR2) | [-> HD]]; [left; eauto | right; auto].
    + (* the eager machine has already refused; the lazy one can only wait or refuse the same way *)
      destruct (doomed_run fr sl1 HD) as [(sl2 & -> & HD2) | ->]; rewrite app_nil_r; [right; auto | reflexivity].
Qed.

End Sim.

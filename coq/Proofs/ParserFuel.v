(* Bounded work on the parser model: the explicit fuel of the chunk loop and of the message loop is
   never exhausted; every completed message consumes at least one octet. *)
From Coq Require Import ZArith.
From Httoop Require Import Model.Parser Proofs.SplitP Proofs.ParserEsc.
Local Open Scope N_scope.

Lemma le_bytes_nonnil le : le_bytes le <> [].
Proof. destruct le; unfold le_bytes, CRLF; discriminate. Qed.
Lemma le_bytes_len le : (1 <= length (le_bytes le))%nat.
Proof. destruct le; cbn; lia. Qed.
Lemma le2_nonnil le : le_bytes le ++ le_bytes le <> [].
Proof. destruct le; unfold le_bytes, CRLF; discriminate. Qed.

Lemma skipn_prefix_shorter p (b : bytes) : p <> [] -> prefixb p b = true -> (length (skipn (length p) b) < length b)%nat.
Proof.
  intros Hp H. apply prefixb_spec in H as [r ->]. rewrite skipn_app_exact, app_length.
  destruct p; [congruence | cbn; lia].
Qed.

Section Fuel.
Variable cfg : config.
Variable C : callees.
Variable k : kind.

(* ---- no phase reports EFuel when given enough fuel ---- *)
Lemma determine_nofuel i e : determine C i = inr e -> e <> EFuel.
Proof. unfold determine. intros H. repeat dmatch; try congruence; injection H as <-; congruence. Qed.

Lemma happend_nofuel h n v e : happend C h n v = inr e -> e <> EFuel.
Proof. unfold happend. intros H. repeat dmatch; try congruence; injection H as <-; congruence. Qed.

Lemma merge_nofuel ns : forall h tr e, merge_trailers C ns h tr = inr e -> e <> EFuel.
Proof.
  induction ns as [|n ns IH]; intros h tr e; cbn [merge_trailers]; [discriminate|].
  destruct (hget n tr) as [v|]; [|apply IH]. destruct (happend C h n v) eqn:E; [apply IH|].
  intros H. injection H as <-. eapply happend_nofuel; eauto.
Qed.

Lemma parse_trailers_nofuel i b e : parse_trailers C i b = Fail e -> e <> EFuel.
Proof.
  unfold parse_trailers. intros H.
  repeat dmatch; try congruence; try (injection H as <-; congruence);
  injection H as <-; eapply merge_nofuel; eauto.
Qed.

Lemma parse_trailers_done_shorter i b i' b' : parse_trailers C i b = Done i' b' -> (length b' < length b)%nat.
Proof.
  unfold parse_trailers. intros H.
  destruct (prefixb (le_bytes (i_le i)) b) eqn:P.
  - injection H as <- <-. apply skipn_prefix_shorter; [apply le_bytes_nonnil | exact P].
  - destruct (cut (le_bytes (i_le i) ++ le_bytes (i_le i)) b) as [[block rest]|] eqn:Cu; [|discriminate].
    pose proof (cut_rest_shorter _ _ _ _ (le2_nonnil _) Cu).
    repeat dmatch; try congruence; injection H as <- <-; assumption.
Qed.

Lemma parse_trailers_need i b i' b' : parse_trailers C i b = Need i' b' -> i' = i /\ b' = b.
Proof. unfold parse_trailers. intros H. repeat dmatch; try congruence. injection H as <- <-. auto. Qed.

Lemma length_skipn_le {A} n (l : list A) : (length (skipn n l) <= length l)%nat.
Proof. rewrite skipn_length. lia. Qed.

Lemma chunks_ok fuel : forall i b, (length b < fuel)%nat ->
  (forall e, chunks C fuel i b = Fail e -> e <> EFuel) /\
  (forall i' b', chunks C fuel i b = Done i' b' -> (length b' < length b)%nat) /\
  (forall i' b', chunks C fuel i b = Need i' b' -> (length b' <= length b)%nat /\ i_chunked i' = i_chunked i).
Proof.
  induction fuel as [|f IH]; intros i b Hf; [lia|].
  cbn [chunks]. destruct (i_trailer i) eqn:T.
  { repeat split.
    - apply parse_trailers_nofuel.
    - apply parse_trailers_done_shorter.
    - apply parse_trailers_need in H as [-> ->]. lia.
    - apply parse_trailers_need in H as [-> ->]. reflexivity. }
  destruct (cut (le_bytes (i_le i)) b) as [[line rest]|] eqn:Cu.
  2:{ repeat split; try discriminate; injection H as <- <-; [lia | reflexivity]. }
  pose proof (cut_rest_shorter _ _ _ _ (le_bytes_nonnil _) Cu) as Hrest.
  destruct (py_int16_bytes _) as [z|]; [|repeat split; try discriminate; intros e H; injection H as <-; congruence].
  destruct (z <? 0)%Z; [repeat split; try discriminate; intros e H; injection H as <-; congruence|].
  destruct (N.of_nat (length rest) <? _).
  { repeat split; try discriminate; injection H as <- <-; [lia | reflexivity]. }
  set (n := N.to_nat (Z.to_N z)). set (i1 := set_body i (i_body i ++ firstn n rest)).
  pose proof (length_skipn_le n rest) as Hs.
  destruct (Z.to_N z =? 0).
  { repeat split.
    - apply parse_trailers_nofuel.
    - intros i' b' H. apply parse_trailers_done_shorter in H. lia.
    - apply parse_trailers_need in H as [-> ->]. lia.
    - apply parse_trailers_need in H as [-> ->]. reflexivity. }
  destruct (prefixb (le_bytes (i_le i)) (skipn n rest)) eqn:P.
  2:{ repeat split; try discriminate; intros e H; injection H as <-; congruence. }
  pose proof (length_skipn_le (length (le_bytes (i_le i))) (skipn n rest)) as Hs2.
  assert (Hlt : (length (skipn (length (le_bytes (i_le i))) (skipn n rest)) < f)%nat) by lia.
  destruct (IH i1 _ Hlt) as (A & B & D). repeat split.
  - exact A.
  - intros i' b' H. apply B in H. lia.
  - apply D in H as [H _]. lia.
  - apply D in H as [_ H]. exact H.
Qed.

Lemma body_with_length_done i len b i' b' : 0 < len -> body_with_length i len b = Done i' b' -> (length b' < length b)%nat.
Proof.
  unfold body_with_length. intros Hl.
  set (n := N.to_nat (N.min len (N.of_nat (length b)))).
  destruct (N.of_nat (length (firstn n b)) <? len) eqn:E; [discriminate|].
  intros H. injection H as _ <-. apply N.ltb_ge in E. rewrite firstn_length in E.
  rewrite skipn_length. assert (0 < n)%nat by lia. destruct b; cbn [length] in *; lia.
Qed.

Lemma body_with_length_need i len b i' b' : body_with_length i len b = Need i' b' ->
  i_chunked i' = i_chunked i /\ exists r, i_len i' = Some r /\ 0 < r.
Proof.
  unfold body_with_length. set (n := N.to_nat (N.min len (N.of_nat (length b)))).
  destruct (N.of_nat (length (firstn n b)) <? len) eqn:E; [|discriminate].
  intros H. injection H as <- _. split; [reflexivity|]. cbn. apply N.ltb_lt in E. eexists; split; [reflexivity | lia].
Qed.

Lemma determine_chunked i i' : determine C i = inl i' ->
  (i_chunked i' = true) \/ (i_chunked i' = i_chunked i /\ exists r, i_len i' = Some r).
Proof. unfold determine. intros H. repeat dmatch; try congruence; injection H as <-; cbn; eauto. Qed.

(* states in which a message is blocked in its body: chunked, or a positive number of octets outstanding *)
Definition body_pending (i : inflight) : Prop :=
  i_phase i = PBody -> i_chunked i = true \/ exists r, i_len i = Some r /\ 0 < r.
Definition wf_state (s : pstate) : Prop := match cur s with Some i => body_pending i | None => True end.

Lemma parse_body_ok i b : body_pending i -> i_phase i = PBody ->
  (forall e, parse_body C i b = Fail e -> e <> EFuel) /\
  (forall i' b', parse_body C i b = Done i' b' -> (length b' < length b)%nat) /\
  (forall i' b', parse_body C i b = Need i' b' -> i_chunked i' = true \/ exists r, i_len i' = Some r /\ 0 < r).
Proof.
  intros Hp Hph. specialize (Hp Hph). unfold parse_body.
  assert (Hdet : (match i_len i, i_chunked i with None, false => determine C i | _, _ => inl i end) = inl i).
  { destruct Hp as [-> | (r & -> & _)]; [destruct (i_len i)|]; reflexivity. }
  rewrite Hdet. destruct (i_chunked i) eqn:Ch.
  - destruct (chunks_ok (S (length b)) i b (Nat.lt_succ_diag_r _)) as (A & B & D). repeat split; auto.
    intros i' b' H. apply D in H as [_ H]. left. congruence.
  - destruct Hp as [Hp | (r & Hr & Hpos)]; [discriminate|]. rewrite Hr.
    destruct r as [|p]; [lia|]. repeat split.
    + intros e H. unfold body_with_length in H. dmatch; discriminate.
    + intros i' b'. apply body_with_length_done. lia.
    + intros i' b' H. apply body_with_length_need in H as [_ H]. right. exact H.
Qed.

(* a message that has just finished its header section *)
Lemma parse_body_fresh i b : i_len i = None -> i_chunked i = false ->
  (forall e, parse_body C i b = Fail e -> e <> EFuel) /\
  (forall i' b', parse_body C i b = Done i' b' -> (length b' <= length b)%nat) /\
  (forall i' b', parse_body C i b = Need i' b' -> i_chunked i' = true \/ exists r, i_len i' = Some r /\ 0 < r).
Proof.
  intros Hl Hc. unfold parse_body. rewrite Hl, Hc.
  destruct (determine C i) as [i1|e1] eqn:D.
  2:{ repeat split; try discriminate. intros e H. injection H as <-. eapply determine_nofuel; eauto. }
  destruct (i_chunked i1) eqn:Ch.
  - destruct (chunks_ok (S (length b)) i1 b (Nat.lt_succ_diag_r _)) as (A & B & E). repeat split; auto.
    + intros i' b' H. apply B in H. lia.
    + intros i' b' H. apply E in H as [_ H]. left. congruence.
  - destruct (i_len i1) as [[|p]|] eqn:L.
    + repeat split; try discriminate. intros i' b' H. injection H as _ <-. lia.
    + repeat split.
      * intros e H. unfold body_with_length in H. dmatch; discriminate.
      * intros i' b' H. apply body_with_length_done in H; lia.
      * intros i' b' H. apply body_with_length_need in H as [_ H]. right. exact H.
    + repeat split; try discriminate. intros i' b' H. injection H as _ <-. lia.
Qed.

Lemma parse_headers_done le h b h' b' : parse_headers cfg le h b = Done h' b' -> (length b' < length b)%nat.
Proof.
  unfold parse_headers. intros H.
  destruct (prefixb (le_bytes le) b) eqn:P.
  - injection H as _ <-. apply skipn_prefix_shorter; [apply le_bytes_nonnil | exact P].
  - destruct (cut (le_bytes le ++ le_bytes le) b) as [[block rest]|] eqn:Cu.
    + pose proof (cut_rest_shorter _ _ _ _ (le2_nonnil _) Cu).
      destruct (parse_block h block); [|discriminate]. injection H as _ <-. assumption.
    + repeat dmatch; discriminate.
Qed.

Lemma parse_headers_nofuel le h b e : parse_headers cfg le h b = Fail e -> e <> EFuel.
Proof. unfold parse_headers. intros H. repeat dmatch; try congruence; injection H as <-; congruence. Qed.

Lemma on_headers_complete_props i i' : on_headers_complete C k i = inl i' ->
  i_phase i' = i_phase i /\ i_len i' = i_len i /\ i_chunked i' = i_chunked i.
Proof. unfold on_headers_complete. intros H. repeat dmatch; try congruence; injection H as <-; repeat split; reflexivity. Qed.

Lemma on_headers_complete_nofuel i e : on_headers_complete C k i = inr e -> e <> EFuel.
Proof. unfold on_headers_complete. intros H. repeat dmatch; try congruence; injection H as <-; congruence. Qed.

Lemma on_body_complete_nofuel i b e : on_body_complete cfg C k i b = inr e -> e <> EFuel.
Proof.
  unfold on_body_complete. intros H.
  repeat dmatch; try congruence; try (injection H as <-; congruence);
  repeat match goal with E : inr _ = inr _ |- _ => injection E as <- end; congruence.
Qed.

(* one turn of the loop, from a well-formed state whose buffer is [b]:
   - an error is never EFuel;  - a completed message consumed at least [d] octets;  - a blocked state is well formed *)
Lemma after_headers_pending i b : body_pending i -> i_phase i = PBody ->
  match after_headers cfg C k i b with
  | TErr e => e <> EFuel
  | TMsg s' _ => (length (buf s') < length b)%nat /\ wf_state s'
  | TBlocked s' => wf_state s'
  end.
Proof.
  intros Hp Hph. unfold after_headers. destruct (parse_body_ok i b Hp Hph) as (A & B & D).
  destruct (parse_body C i b) as [i' b'|i' b'|e] eqn:E.
  - unfold wf_state; cbn. intros _. eapply D; eauto.
  - destruct (on_body_complete cfg C k i' b') eqn:O.
    + split; [eapply B; eauto | exact I].
    + eapply on_body_complete_nofuel; eauto.
  - eapply A; eauto.
Qed.

Lemma after_headers_fresh i b : i_len i = None -> i_chunked i = false ->
  match after_headers cfg C k i b with
  | TErr e => e <> EFuel
  | TMsg s' _ => (length (buf s') <= length b)%nat /\ wf_state s'
  | TBlocked s' => wf_state s'
  end.
Proof.
  intros Hl Hc. unfold after_headers. destruct (parse_body_fresh i b Hl Hc) as (A & B & D).
  destruct (parse_body C i b) as [i' b'|i' b'|e] eqn:E.
  - unfold wf_state; cbn. intros _. eapply D; eauto.
  - destruct (on_body_complete cfg C k i' b') eqn:O.
    + split; [eapply B; eauto | exact I].
    + eapply on_body_complete_nofuel; eauto.
  - eapply A; eauto.
Qed.

(* ---- phase is never changed by the body phase ---- *)
Lemma parse_trailers_phase i b i' b' : parse_trailers C i b = Need i' b' -> i_phase i' = i_phase i.
Proof. intros H. apply parse_trailers_need in H as [-> _]. reflexivity. Qed.

Lemma chunks_phase fuel : forall i b i' b', chunks C fuel i b = Need i' b' -> i_phase i' = i_phase i.
Proof.
  induction fuel as [|f IH]; intros i b i' b'; cbn [chunks].
  - destruct (i_trailer i); [apply parse_trailers_phase | discriminate].
  - destruct (i_trailer i); [apply parse_trailers_phase|]. intros H.
    repeat dmatch; try discriminate; try (injection H as <- _; reflexivity);
    first [apply parse_trailers_phase in H; exact H | apply IH in H; exact H].
Qed.

Lemma determine_phase i i' : determine C i = inl i' -> i_phase i' = i_phase i.
Proof. unfold determine. intros H. repeat dmatch; try congruence; injection H as <-; reflexivity. Qed.

Lemma parse_body_phase i b i' b' : parse_body C i b = Need i' b' -> i_phase i' = i_phase i.
Proof.
  unfold parse_body. intros H.
  destruct (match i_len i, i_chunked i with None, false => determine C i | _, _ => inl i end) as [i1|e] eqn:D; [|discriminate].
  assert (P1 : i_phase i1 = i_phase i).
  { destruct (i_len i); [injection D as <-; reflexivity|]. destruct (i_chunked i); [injection D as <-; reflexivity|].
    eapply determine_phase; eauto. }
  rewrite <- P1. destruct (i_chunked i1).
  - eapply chunks_phase; eauto.
  - destruct (i_len i1) as [[|p]|]; try discriminate. unfold body_with_length in H.
    dmatch; [|discriminate]. injection H as <- _. reflexivity.
Qed.

(* ---- the state invariant ---- *)
Definition wf_inflight (i : inflight) : Prop :=
  match i_phase i with
  | PHeaders => i_len i = None /\ i_chunked i = false
  | PBody => i_chunked i = true \/ exists r, i_len i = Some r /\ 0 < r
  end.
Definition wf_st (s : pstate) : Prop := match cur s with Some i => wf_inflight i | None => True end.

Lemma after_headers_ok i b : i_phase i = PBody ->
  (body_pending i \/ (i_len i = None /\ i_chunked i = false)) ->
  match after_headers cfg C k i b with
  | TErr e => e <> EFuel
  | TMsg s' _ => (length (buf s') <= length b)%nat /\ (body_pending i -> (length (buf s') < length b)%nat) /\ wf_st s'
  | TBlocked s' => wf_st s'
  end.
Proof.
  intros Hph Hcase. unfold after_headers.
  assert (Hall : (forall e, parse_body C i b = Fail e -> e <> EFuel) /\
          (forall i' b', parse_body C i b = Done i' b' -> (length b' <= length b)%nat /\ (body_pending i -> (length b' < length b)%nat)) /\
          (forall i' b', parse_body C i b = Need i' b' -> i_chunked i' = true \/ exists r, i_len i' = Some r /\ 0 < r)).
  { destruct Hcase as [Hp | [Hl Hc]].
    - destruct (parse_body_ok i b Hp Hph) as (A & B & D). split; [exact A|]. split; [|exact D].
      intros i' b' H. pose proof (B _ _ H). split; [lia | intros _; assumption].
    - destruct (parse_body_fresh i b Hl Hc) as (A & B & D). split; [exact A|]. split; [|exact D].
      intros i' b' H. split; [eapply B; eauto|].
      intros Hp. specialize (Hp Hph). destruct Hp as [Hp | (r & Hr & _)]; congruence. }
  destruct Hall as (A & B & D).
  destruct (parse_body C i b) as [i' b'|i' b'|e] eqn:E.
  - unfold wf_st, wf_inflight; cbn. rewrite (parse_body_phase _ _ _ _ E), Hph. eapply D; eauto.
  - destruct (on_body_complete cfg C k i' b') eqn:O.
    + destruct (B _ _ eq_refl) as [B1 B2]. repeat split; auto.
    + eapply on_body_complete_nofuel; eauto.
  - eapply A; eauto.
Qed.

Lemma after_startline_ok i b : wf_inflight i ->
  match after_startline cfg C k i b with
  | TErr e => e <> EFuel
  | TMsg s' _ => (length (buf s') < length b)%nat /\ wf_st s'
  | TBlocked s' => wf_st s'
  end.
Proof.
  unfold wf_inflight, after_startline. destruct (i_phase i) eqn:Ph; intros Hw.
  - destruct Hw as [Hl Hc].
    destruct (parse_headers cfg (i_le i) (i_hdrs i) b) as [h b'|h b'|e] eqn:PH.
    + unfold wf_st, wf_inflight; cbn. rewrite Ph. auto.
    + pose proof (parse_headers_done _ _ _ _ _ PH) as Hlen.
      destruct (on_headers_complete C k _) as [i1|e1] eqn:O; [|eapply on_headers_complete_nofuel; eauto].
      apply on_headers_complete_props in O as (P1 & P2 & P3). cbn in P1, P2, P3.
      pose proof (after_headers_ok i1 b' P1 (or_intror (conj (eq_trans P2 Hl) (eq_trans P3 Hc)))) as AF.
      destruct (after_headers cfg C k i1 b') as [s'|s' m|e]; auto.
      destruct AF as (A1 & _ & A3). split; [lia | exact A3].
    + eapply parse_headers_nofuel; eauto.
  - assert (Hp : body_pending i) by (intros _; exact Hw).
    pose proof (after_headers_ok i b Ph (or_introl Hp)) as AF.
    destruct (after_headers cfg C k i b) as [s'|s' m|e]; auto.
    destruct AF as (_ & A2 & A3). split; [apply A2, Hp | exact A3].
Qed.

Lemma turn_ok s : wf_st s ->
  match turn_of cfg C k s with
  | TErr e => e <> EFuel
  | TMsg s' _ => (length (buf s') < length (buf s))%nat /\ wf_st s'
  | TBlocked s' => wf_st s'
  end.
Proof.
  unfold wf_st at 1, turn_of. destruct (cur s) as [i|] eqn:Cu; intros Hw.
  - apply after_startline_ok, Hw.
  - unfold parse_startline.
    destruct (if contains CRLF (buf s) then Some LE_CRLF else if allow_lf cfg && contains [LF] (buf s) then Some LE_LF else None) as [le|] eqn:Ele.
    2:{ unfold wf_st. rewrite Cu. exact I. }
    assert (Hc : contains (le_bytes le) (buf s) = true).
    { destruct (contains CRLF (buf s)) eqn:E1; [injection Ele as <-; exact E1|].
      destruct (allow_lf cfg && contains [LF] (buf s)) eqn:E2; [injection Ele as <-; apply andb_true_iff in E2 as [_ E2]; exact E2 | discriminate]. }
    unfold contains in Hc. destruct (cut (le_bytes le) (buf s)) as [[line rest]|] eqn:Cut; [|discriminate].
    pose proof (cut_rest_shorter _ _ _ _ (le_bytes_nonnil le) Cut) as Hlen.
    destruct (c_start C line) as [info|c| |]; try congruence.
    set (i0 := {| i_line := line; i_le := le; i_info := info; i_phase := PHeaders; i_hdrs := []; i_ce := None;
                  i_len := None; i_chunked := false; i_trailer := false; i_body := [] |}).
    assert (W0 : wf_inflight i0) by (unfold wf_inflight; cbn; auto).
    pose proof (after_startline_ok i0 rest W0) as AS.
    destruct (after_startline cfg C k i0 rest) as [s'|s' m|e]; auto.
    destruct AS as [A1 A2]. split; [lia | exact A2].
Qed.

Lemma loop_ok fuel : forall s acc, wf_st s -> (length (buf s) < fuel)%nat ->
  match loop cfg C k fuel s acc with (s', _, oe) => oe <> Some EFuel /\ wf_st s' end.
Proof.
  induction fuel as [|f IH]; intros s acc Hw Hf; [lia|].
  cbn [loop]. destruct (buf s) eqn:B; [split; [discriminate | exact Hw]|].
  pose proof (turn_ok s Hw) as T. destruct (turn_of cfg C k s) as [s'|s' m|e].
  - split; [discriminate | exact T].
  - destruct T as [T1 T2]. apply IH; [exact T2 | rewrite B in T1; cbn [length] in *; lia].
  - split; [congruence | exact I].
Qed.

(* every parse() call: fuel suffices, and the invariant is kept; hence for every fragmentation *)
Theorem parse_fuel_ok s data : wf_st s ->
  match parse cfg C k s data with (s', _, oe) => oe <> Some EFuel /\ wf_st s' end.
Proof.
  intros Hw. unfold parse. apply loop_ok; [exact Hw | cbn; lia].
Qed.

Fixpoint feed_all (s : pstate) (frags : list bytes) : pstate * list (list msg) * option err :=
  match frags with
  | [] => (s, [], None)
  | f :: fr =>
      match parse cfg C k s f with
      | (s', ms, None) => match feed_all s' fr with (s2, mss, oe) => (s2, ms :: mss, oe) end
      | (s', ms, Some e) => (s', [ms], Some e)
      end
  end.

Theorem feed_all_never_out_of_fuel frags : forall s, wf_st s ->
  match feed_all s frags with (_, _, oe) => oe <> Some EFuel end.
Proof.
  induction frags as [|f fr IH]; intros s Hw; cbn [feed_all]; [discriminate|].
  pose proof (parse_fuel_ok s f Hw) as P. destruct (parse cfg C k s f) as [[s' ms] [e|]].
  - exact (proj1 P).
  - specialize (IH s' (proj2 P)). destruct (feed_all s' fr) as [[s2 mss] oe]. exact IH.
Qed.

Lemma wf_init : wf_st init.
Proof. exact I. Qed.

(* the chunk loop is iterative: one turn per chunk, each consuming at least its line end *)
Theorem chunks_fuel_ok i b e : chunks C (S (length b)) i b = Fail e -> e <> EFuel.
Proof. apply (chunks_ok (S (length b)) i b (Nat.lt_succ_diag_r _)). Qed.

End Fuel.

(* str(n) then int(): the decimal rendering of Lib/Split.v read back by the int() model of Lib/PyInt.v *)
From Coq Require Import ZArith.
From Httoop Require Import Lib.Bytes Lib.Split Lib.PyInt Proofs.SplitP.
Local Open Scope N_scope.

Definition digit_byte (m : N) : byte := Nb (48 + m).

Lemma bN_digit m : m < 10 -> bN (digit_byte m) = 48 + m.
Proof. intros H. unfold digit_byte. apply bN_Nb. lia. Qed.

Lemma decdigit_val_digit m : m < 10 -> decdigit_val (digit_byte m) = Some m.
Proof.
  intros H. unfold decdigit_val. rewrite (bN_digit m H).
  assert (E1 : 48 <=? 48 + m = true) by (apply N.leb_le; lia).
  assert (E2 : 48 + m <=? 57 = true) by (apply N.leb_le; lia).
  rewrite E1, E2. cbn [andb]. f_equal. lia.
Qed.

Definition is_dig (c : byte) : bool := let n := bN c in (48 <=? n) && (n <=? 57).
Lemma is_dig_digit m : m < 10 -> is_dig (digit_byte m) = true.
Proof.
  intros H. unfold is_dig. rewrite (bN_digit m H). apply andb_true_iff. split; apply N.leb_le; lia.
Qed.

Lemma not_underscore_digit m : m < 10 -> beq (digit_byte m) UNDERSCORE = false.
Proof.
  intros H. apply beq_neq. intros E. apply (f_equal bN) in E. rewrite (bN_digit m H) in E.
  change (bN UNDERSCORE) with 95 in E. lia.
Qed.

Lemma scan_digit m rest a0 nd : m < 10 ->
  scan_digits decdigit_val 10 false (digit_byte m :: rest) a0 nd false = scan_digits decdigit_val 10 false rest (a0 * 10 + m) (nd + 1) false.
Proof. intros H. cbn [scan_digits]. rewrite (not_underscore_digit m H), (decdigit_val_digit m H). reflexivity. Qed.

Lemma digits_f_S f n acc : digits_f (S f) n acc =
  if n <? 10 then digit_byte (n mod 10) :: acc else digits_f f (n / 10) (digit_byte (n mod 10) :: acc).
Proof. reflexivity. Qed.

(* digits_f produces a non-empty run of digit octets whose value is n *)
Lemma digits_f_spec fuel : forall n acc, n < 10 ^ N.of_nat (S fuel) ->
  exists ds, digits_f (S fuel) n acc = ds ++ acc /\ ds <> [] /\ forallb is_dig ds = true /\
    forall rest a0 nd, scan_digits decdigit_val 10 false (ds ++ rest) a0 nd false =
                       scan_digits decdigit_val 10 false rest (a0 * 10 ^ N.of_nat (length ds) + n) (nd + N.of_nat (length ds)) false.
Proof.
  induction fuel as [|f IH]; intros n acc Hn.
  - assert (n < 10) by (change (10 ^ N.of_nat 1) with 10 in Hn; exact Hn).
    rewrite digits_f_S. assert (E : n <? 10 = true) by (apply N.ltb_lt; assumption). rewrite E.
    rewrite N.mod_small by assumption. exists [digit_byte n]. repeat split.
    + discriminate.
    + cbn. rewrite (is_dig_digit n) by assumption. reflexivity.
    + intros rest a0 nd. cbn [app length]. rewrite (scan_digit n rest a0 nd) by assumption. f_equal; lia.
  - rewrite digits_f_S. destruct (n <? 10) eqn:E.
    + apply N.ltb_lt in E. rewrite N.mod_small by assumption. exists [digit_byte n]. repeat split.
      * discriminate.
      * cbn. rewrite (is_dig_digit n) by assumption. reflexivity.
      * intros rest a0 nd. cbn [app length]. rewrite (scan_digit n rest a0 nd) by assumption. f_equal; lia.
    + apply N.ltb_ge in E.
      assert (Hm : n mod 10 < 10) by (apply N.mod_lt; lia).
      assert (Hq : n / 10 < 10 ^ N.of_nat (S f)).
      { apply N.div_lt_upper_bound; [lia|]. rewrite <- N.pow_succ_r'. replace (N.succ (N.of_nat (S f))) with (N.of_nat (S (S f))) by lia. exact Hn. }
      destruct (IH (n / 10) (digit_byte (n mod 10) :: acc) Hq) as (ds & E1 & E2 & E3 & E4).
      exists (ds ++ [digit_byte (n mod 10)]). repeat split.
      * rewrite E1, <- app_assoc. reflexivity.
      * destruct ds; discriminate.
      * rewrite forallb_app, E3. cbn. rewrite (is_dig_digit _ Hm). reflexivity.
      * intros rest a0 nd. rewrite <- app_assoc. rewrite E4. cbn [app]. rewrite (scan_digit _ rest _ _ Hm).
        rewrite app_length. cbn [length]. f_equal.
        -- replace (N.of_nat (length ds + 1)) with (N.succ (N.of_nat (length ds))) by lia. rewrite N.pow_succ_r'.
           pose proof (N.div_mod n 10). lia.
        -- lia.
Qed.

Lemma pow10_gt n : n < 10 ^ N.of_nat (S (N.to_nat (N.log2 n))).
Proof.
  destruct n as [|p]; [cbn; lia|].
  assert (H : N.pos p < 2 ^ N.succ (N.log2 (N.pos p))) by (apply N.log2_spec; lia).
  eapply N.lt_le_trans; [exact H|].
  replace (N.of_nat (S (N.to_nat (N.log2 (N.pos p))))) with (N.succ (N.log2 (N.pos p))) by lia.
  apply N.pow_le_mono_l. lia.
Qed.

Lemma dec_of_N_spec n : exists ds, dec_of_N n = ds /\ ds <> [] /\ forallb is_dig ds = true /\
  scan_digits decdigit_val 10 false ds 0 0 false = Some (n, N.of_nat (length ds)).
Proof.
  unfold dec_of_N. destruct (digits_f_spec (N.to_nat (N.log2 n)) n [] (pow10_gt n)) as (ds & E1 & E2 & E3 & E4).
  exists ds. rewrite E1, app_nil_r. repeat split; auto.
  specialize (E4 [] 0 0). rewrite app_nil_r in E4. rewrite E4. cbn [scan_digits].
  destruct (N.of_nat (length ds)) eqn:EL; [destruct ds; [congruence | discriminate]|].
  replace (0 + N.pos p =? 0) with false by (symmetry; apply N.eqb_neq; lia).
  assert (Ea : 0 * 10 ^ N.pos p + n = n) by lia. rewrite Ea. reflexivity.
Qed.

Lemma is_dig_props c : is_dig c = true -> is_uws_latin1 c = false /\ beq c x2b = false /\ beq c x2d = false /\ beq c x3d = false.
Proof.
  intros H. assert (G : implb (is_dig c) (negb (is_uws_latin1 c) && negb (beq c x2b) && negb (beq c x2d) && negb (beq c x3d)) = true).
  { clear H. revert c. apply forall_byte. vm_compute. reflexivity. }
  rewrite H in G. cbn [implb] in G. repeat (apply andb_true_iff in G as [G ?]).
  repeat split; apply negb_true_iff; assumption.
Qed.

Lemma lstrip_by_digits p ds : (forall c, is_dig c = true -> p c = false) -> forallb is_dig ds = true -> ds <> [] -> lstrip_by p ds = ds.
Proof. intros Hp Hd Hn. destruct ds as [|c ds]; [congruence|]. cbn in *. apply andb_true_iff in Hd as [Hc _]. rewrite (Hp c Hc). reflexivity. Qed.

Lemma forallb_rev {A} (f : A -> bool) l : forallb f (rev l) = forallb f l.
Proof. induction l as [|a l IH]; [reflexivity|]. cbn [rev]. rewrite forallb_app, IH. cbn. rewrite andb_true_r. apply andb_comm. Qed.

Lemma strip_by_digits p ds : (forall c, is_dig c = true -> p c = false) -> forallb is_dig ds = true -> ds <> [] -> strip_by p ds = ds.
Proof.
  intros Hp Hd Hn. unfold strip_by, rstrip_by. rewrite (lstrip_by_digits p ds Hp Hd Hn).
  rewrite (lstrip_by_digits p (rev ds) Hp); [apply rev_involutive | rewrite forallb_rev; exact Hd |].
  intros E. apply Hn. rewrite <- (rev_involutive ds), E. reflexivity.
Qed.

(* int(str(n)) == n  for every n whose decimal rendering is within the interpreter's digit limit *)
Theorem py_int10_dec_of_N maxd n : (maxd = 0 \/ N.of_nat (length (dec_of_N n)) <= maxd) ->
  py_int10_text maxd (dec_of_N n) = Some (Z.of_N n).
Proof.
  intros Hmax. destruct (dec_of_N_spec n) as (ds & E1 & E2 & E3 & E4). rewrite E1 in *.
  unfold py_int10_text. rewrite (strip_by_digits is_uws_latin1 ds); [| intros c Hc; apply (is_dig_props c Hc) | exact E3 | exact E2].
  unfold split_sign. destruct ds as [|c ds']; [congruence|].
  assert (Hc : is_dig c = true) by (cbn in E3; apply andb_true_iff in E3 as [Hc _]; exact Hc).
  destruct (is_dig_props c Hc) as (_ & P1 & P2 & _). rewrite P1, P2, E4.
  destruct Hmax as [-> | Hle].
  - cbn [N.eqb negb andb]. rewrite andb_false_r. reflexivity.
  - assert (E : maxd <? N.of_nat (length (c :: ds')) = false) by (apply N.ltb_ge; exact Hle). rewrite E. reflexivity.
Qed.

Lemma cut_first_in pat l a b : cut pat l = Some (a, b) -> forall p0 pr, pat = p0 :: pr -> In p0 l.
Proof.
  intros H p0 pr ->. apply cut_some in H; [|discriminate]. rewrite H. apply in_or_app. right. left. reflexivity.
Qed.

Theorem dec_of_N_no_2047 n : contains (X "3d3f") (dec_of_N n) = false.
Proof.
  destruct (dec_of_N_spec n) as (ds & E1 & _ & E3 & _). rewrite E1.
  unfold contains. destruct (cut (X "3d3f") ds) as [[a b]|] eqn:Cu; [|reflexivity]. exfalso.
  assert (Hin : In x3d ds) by (eapply cut_first_in; [exact Cu | reflexivity]).
  rewrite forallb_forall in E3. specialize (E3 x3d Hin). vm_compute in E3. discriminate.
Qed.

(* C12: URI.join against the literal RFC 3986 5.2.2 algorithm, after normalisation. *)
From Httoop Require Import Lib.Bytes Lib.Variant Gen.UriNormT Model.UriPath Model.UriNorm Proofs.UriPath Proofs.UriNorm.
Local Open Scope N_scope.

(* side conditions on the reference; each one is necessary (see the _refuted lemmas) *)
Definition ref_wf (r : ref5 auth) : bool :=
  match r_scheme r with Some s => nonnil s | None => true end &&
  match r_auth r with Some _ => negb (nonnil (r_path r)) || starts_slash (r_path r) | None => true end.
Definition cond_a (r : ref5 auth) : bool := no_dslash (r_path r).                      (* D20a *)
Definition cond_b (r : ref5 auth) : bool :=                                              (* D20b *)
  match r_auth r with Some a => nonnil (a_host a) | None => true end.
Definition cond_c (base : nuri) (r : ref5 auth) : bool :=                                (* D20c *)
  match r_scheme r, r_auth r, r_path r, r_query r with
  | None, None, [], Some [] => negb (nonnil (u_query base))
  | _, _, _, _ => true
  end.
Definition cond_d (r : ref5 auth) : bool :=                                              (* D20d *)
  match r_scheme r, r_auth r with
  | Some _, None => no_dot_seg (r_path r)
  | _, _ => true
  end.
Definition ref_ok (base : nuri) (r : ref5 auth) : bool :=
  ref_wf r && cond_a r && cond_b r && cond_c base r && cond_d r.

Section Lower.
Variable lower : bytes -> bytes.
Hypothesis lower_idem : forall s, lower (lower s) = lower s.
Hypothesis lower_nonnil : forall s, nonnil (lower s) = nonnil s.

(* "normalised absolute base URI" (and, as RFC 3986 5.2.1 demands of a base, without fragment) *)
Definition base_ok (v : variant) (base : nuri) : bool :=
  tuple_eqb (normalize lower v base) base && nonnil (u_scheme base) && nonnil (u_host base) && negb (nonnil (u_frag base)).

Lemma normalize_path_tt_root p : nonnil p = true -> starts_slash (normalize_path true true p) = true.
Proof.
  intros H. unfold normalize_path. destruct (abspath_ok p) as (_ & _ & Hne).
  specialize (Hne ltac:(destruct p; [discriminate | congruence])).
  destruct (abspath p) as [|c a]; [congruence|]. cbn [nonnil starts_slash andb]. rewrite !andb_true_r.
  destruct (beq c SL) eqn:Hc; cbn [negb starts_slash]; [exact Hc | apply beq_SL_SL].
Qed.

Lemma base_ok_facts v base : base_ok v base = true ->
  lower (u_scheme base) = u_scheme base /\ lower (u_host base) = u_host base /\
  nonnil (u_scheme base) = true /\ nonnil (u_host base) = true /\ u_frag base = [] /\
  path_normal (u_path base) = true.
Proof.
  unfold base_ok. intros H. apply andb_true_iff in H as [H HF]. apply andb_true_iff in H as [H HH].
  apply andb_true_iff in H as [H HS].
  apply tuple_eqb_eq in H. rewrite normalize_eq in H. unfold slots in H.
  cbn [u_scheme u_user u_pass u_host u_port u_path u_query u_frag] in H.
  injection H as E1 E2 E3 E4.
  repeat split; try assumption.
  - destruct (u_frag base); [reflexivity | discriminate].
  - rewrite E1, E2 in E4. rewrite HH, HS in E4.
    destruct (normalize_path_fixed_ok _ _ _ E4) as [N D]. unfold path_normal. rewrite N, D, !andb_true_r.
    destruct (u_path base) as [|c p] eqn:Ep; [reflexivity|]. rewrite <- E4.
    rewrite normalize_path_tt_root by reflexivity. apply orb_true_r.
Qed.

(* normalising X with path P and X with path P' agree when the normalised paths agree *)
Lemma normalize_path_cong v dp s us pw h po P P' q f :
  normalize_path (nonnil (lower h)) (nonnil (lower s)) P = normalize_path (nonnil (lower h)) (nonnil (lower s)) P' ->
  normalize lower v (U dp s us pw h po P q f) = normalize lower v (U dp s us pw h po P' q f).
Proof.
  intros E. rewrite !normalize_eq. unfold norm_dport.
  cbn [u_dport u_scheme u_user u_pass u_host u_port u_path u_query u_frag]. rewrite E. reflexivity.
Qed.

Lemma rds_path_ok hh hs P : (negb (nonnil P) || starts_slash P) = true -> no_dslash P = true -> hh = true -> hs = true ->
  normalize_path hh hs P = normalize_path hh hs (remove_dot_segments P).
Proof.
  intros H D -> ->. destruct P as [|c P']; [reflexivity|]. cbn [nonnil negb orb] in H.
  symmetry. apply normalize_rds_abs; assumption.
Qed.

Definition join_ns (self rel : nuri) : nuri :=
  let bh := nonnil (u_host rel) in let bp := nonnil (u_path rel) in
  let bq := nonnil (u_query rel) in let bf := nonnil (u_frag rel) in
  let cp := if nonnil (u_scheme self) then class_port (u_scheme self) else BASE_PORT in
  U cp (u_scheme self)
    (if bh then u_user rel else u_user self)
    (if bh then u_pass rel else u_pass self)
    (if bh then u_host rel else u_host self)
    (port_or (if bh then port_or (u_port rel) (u_dport rel) else port_or (port_or (u_port self) cp) cp) cp)
    (if bp && negb (starts_slash (u_path rel)) then u_path self ++ (if ends_slash (u_path self) then [] else P_UP) ++ u_path rel
     else if bp || bh then u_path rel else u_path self)
    (if bq || bp || bh then u_query rel else u_query self)
    (if bf || bq || bp || bh then u_frag rel else u_frag self).

Lemma join_noscheme v self rel : nonnil (u_scheme rel) = false ->
  join lower v self rel = normalize lower v (join_ns self rel).
Proof.
  destruct self as [sdp ss su sp sh spo sP sq sf]. destruct rel as [rdp rs ru rp rh rpo rP rq rf].
  unfold join, join_ns. cbn [u_dport u_scheme u_user u_pass u_host u_port u_path u_query u_frag].
  intros ->. rewrite !construct_eq. cbn [u_dport u_scheme u_user u_pass u_host u_port u_path u_query u_frag].
  unfold set_scheme, set_port, get_port, fresh.
  cbn [u_dport u_scheme u_user u_pass u_host u_port u_path u_query u_frag].
  destruct (nonnil rh), (nonnil rP), (nonnil rq), (nonnil rf); cbn [andb orb negb]; reflexivity.
Qed.

Theorem join_rfc v base r : base_ok v base = true -> ref_ok base r = true ->
  join lower v base (view r) = normalize lower v (view (rfc_resolve (base5 base) r)).
Proof.
  intros HB HR. destruct (base_ok_facts v base HB) as (Ls & Lh & Ns & Nh & Fr & PN).
  unfold ref_ok in HR. apply andb_true_iff in HR as [HR CD]. apply andb_true_iff in HR as [HR CC].
  apply andb_true_iff in HR as [HR CB]. apply andb_true_iff in HR as [HR CA].
  unfold ref_wf in HR. apply andb_true_iff in HR as [W1 W2].
  destruct r as [sch au P q f]. destruct base as [bdp bs bu bp bh bpo bP bq bf].
  cbn [u_dport u_scheme u_user u_pass u_host u_port u_path u_query u_frag r_scheme r_auth r_path r_query r_frag] in *.
  subst bf.
  destruct sch as [s'|].
  - (* reference with a scheme: the result is the normalised reference *)
    unfold join, view, rfc_resolve, construct, set_scheme, set_port, fresh.
    cbn [u_dport u_scheme u_user u_pass u_host u_port u_path u_query u_frag r_scheme r_auth r_path r_query r_frag odflt].
    rewrite W1. apply normalize_path_cong.
    destruct au as [a|].
    + unfold cond_b in CB. cbn [r_auth] in CB. cbn [a_host]. 
      apply rds_path_ok; [exact W2 | exact CA | rewrite lower_nonnil; exact CB | rewrite lower_nonnil; exact W1].
    + unfold cond_d in CD. cbn [r_scheme r_auth r_path] in CD. rewrite (remove_dot_segments_dotfree P CD). reflexivity.
  - set (cp := class_port bs).
    assert (PO : forall x, port_or (port_or (port_or x cp) cp) cp = port_or x cp) by (intros [n|]; destruct cp; reflexivity).
    assert (PN0 : forall x : option N, port_or x None = x) by (intros [n|]; reflexivity).
    rewrite join_noscheme by reflexivity.
    unfold cond_a, cond_b, cond_c, cond_d in *.
    cbn [u_dport u_scheme u_user u_pass u_host u_port u_path u_query u_frag r_scheme r_auth r_path r_query r_frag] in *.
    clear HB W1 CD.
    destruct au as [[[[uu pp] hh] apo]|].
    + cbn [a_host fst snd] in CB. destruct hh as [|hc hh']; [discriminate|].
      unfold join_ns, view, rfc_resolve, base5. rewrite !construct_eq.
      cbn [u_dport u_scheme u_user u_pass u_host u_port u_path u_query u_frag r_scheme r_auth r_path r_query r_frag a_host a_user a_pass a_port fst snd nonnil odflt].
      rewrite Ns. unfold BASE_PORT. rewrite !PN0, !orb_true_r. fold cp.
      assert (E : nonnil P && negb (starts_slash P) = false) by (destruct (nonnil P), (starts_slash P); try reflexivity; discriminate).
      rewrite E. apply normalize_path_cong.
      apply rds_path_ok; [exact W2 | exact CA | rewrite lower_nonnil; reflexivity | rewrite lower_nonnil; exact Ns].
    + unfold join_ns, view, rfc_resolve, base5. 
      cbn [r_scheme r_auth r_path r_query r_frag].
      destruct P as [|c P'].
      * (* same document / query only / fragment only *)
        rewrite !construct_eq.
        cbn [u_dport u_scheme u_user u_pass u_host u_port u_path u_query u_frag r_scheme r_auth r_path r_query r_frag a_host a_user a_pass a_port fst snd nonnil odflt no_auth].
        rewrite Ns. fold cp. rewrite PO. cbn [andb orb].
        destruct q as [[|qc q']|]; destruct f as [[|fc f']|]; cbn [odflt nonnil orb];
          try reflexivity.
        all: try (destruct bq; [reflexivity | discriminate CC]).
        all: destruct bq; reflexivity.
      * destruct (beq c SL) eqn:Hc.
        -- (* absolute-path reference *)
           rewrite !construct_eq.
           cbn [u_dport u_scheme u_user u_pass u_host u_port u_path u_query u_frag r_scheme r_auth r_path r_query r_frag a_host a_user a_pass a_port fst snd nonnil odflt no_auth starts_slash].
           rewrite Ns, Hc. fold cp. rewrite PO. cbn [andb orb negb]. rewrite !orb_true_r.
           apply normalize_path_cong.
           apply rds_path_ok; [cbn [nonnil negb orb starts_slash]; exact Hc | exact CA | rewrite lower_nonnil; exact Nh | rewrite lower_nonnil; exact Ns].
        -- (* relative-path reference: the "/../" trick against merge *)
           rewrite !construct_eq.
           cbn [u_dport u_scheme u_user u_pass u_host u_port u_path u_query u_frag r_scheme r_auth r_path r_query r_frag a_host a_user a_pass a_port fst snd nonnil odflt no_auth starts_slash is_some].
           rewrite Ns, Hc. fold cp. rewrite PO. cbn [andb orb negb]. rewrite !orb_true_r.
           apply normalize_path_cong. rewrite !lower_nonnil, Nh, Ns.
           apply (join_path_merge bP (c :: P') PN); [reflexivity | cbn [starts_slash]; exact Hc | exact CA].
Qed.
End Lower.

(* ---------- the side conditions are necessary: witnesses (replayed on the implementation as known findings D20a-d) ---------- *)
Definition wbase : nuri :=   (* http://a/b/c/d?q *)
  U (Some 80) [x68; x74; x74; x70] [] [] [x61] (Some 80) [SL; x62; SL; x63; SL; x64] [x71] [].
Definition disagrees (r : ref5 auth) : Prop :=
  forall v, join lower_ascii v wbase (view r) <> normalize lower_ascii v (view (rfc_resolve (base5 wbase) r)).

Lemma wbase_ok v : base_ok lower_ascii v wbase = true.
Proof. destruct v; vm_compute; reflexivity. Qed.

(* "g//.." *)
Definition w_a : ref5 auth := Ref5 None None [x67; SL; SL; DT; DT] None None.
Lemma join_refuted_a : (ref_wf w_a && cond_b w_a && cond_c wbase w_a && cond_d w_a = true /\ cond_a w_a = false) /\ disagrees w_a.
Proof. split; [split; vm_compute; reflexivity|]. intros [] H; vm_compute in H; discriminate. Qed.

(* "///g": authority defined but empty *)
Definition w_b : ref5 auth := Ref5 None (Some no_auth) [SL; x67] None None.
Lemma join_refuted_b : (ref_wf w_b && cond_a w_b && cond_c wbase w_b && cond_d w_b = true /\ cond_b w_b = false) /\ disagrees w_b.
Proof. split; [split; vm_compute; reflexivity|]. intros [] H; vm_compute in H; discriminate. Qed.

(* "?": query defined but empty *)
Definition w_c : ref5 auth := Ref5 None None [] (Some []) None.
Lemma join_refuted_c : (ref_wf w_c && cond_a w_c && cond_b w_c && cond_d w_c = true /\ cond_c wbase w_c = false) /\ disagrees w_c.
Proof. split; [split; vm_compute; reflexivity|]. intros [] H; vm_compute in H; discriminate. Qed.

(* "g:x/../y": scheme, no authority, dot segments *)
Definition w_d : ref5 auth := Ref5 (Some [x67]) None [x78; SL; DT; DT; SL; x79] None None.
Lemma join_refuted_d : (ref_wf w_d && cond_a w_d && cond_b w_d && cond_c wbase w_d = true /\ cond_d w_d = false) /\ disagrees w_d.
Proof. split; [split; vm_compute; reflexivity|]. intros [] H; vm_compute in H; discriminate. Qed.

(* the hypotheses are satisfiable: "../g/./h?y#s" against http://a/b/c/d?q *)
Definition w_ok : ref5 auth :=
  Ref5 None None [DT; DT; SL; x67; SL; DT; SL; x68] (Some [x79]) (Some [x73]).
Lemma join_hyp_nonvacuous : base_ok lower_ascii AsFound wbase = true /\ base_ok lower_ascii Repaired wbase = true /\ ref_ok wbase w_ok = true.
Proof. repeat split; vm_compute; reflexivity. Qed.

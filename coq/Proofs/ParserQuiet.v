(* When is a run of the machine as implemented QUIET (no LF-mode selection, no 411 peek)?

   C01 part C and the pipeline theorem for [real] carry the hypothesis [quiet_run].  This file discharges it
   for the client machine: on every fragmentation of a stream that the reference machine parses completely into
   messages whose start lines contain no LF, the client machine as implemented never takes a shortcut - so the
   fragmentation theorems hold for it without the hypothesis.  (The 411 peek exists on the server side only; for
   the server the hypothesis stays: whether the peek fires depends on whether the header block in flight carried
   a Content-Length, which the delivered message no longer shows.)

   The argument is semantic: the states of the reference machine along the run are tracked by what they still
   deliver ([Good]: "fed the rest of the stream, this state completes exactly these LF-free-line messages and ends
   idle"), which fragment independence (parse_app / turn_stable) preserves for free; the simulation relation of
   Proofs/ParserSim.v carries the fact over to the eager machine, the bridge of Proofs/ParserBridge.v to [real]. *)
From Coq Require Import ZArith Lia.
From Httoop Require Import Model.Parser Proofs.SplitP Proofs.HeadersP Proofs.ParserEsc Proofs.ParserFuel Proofs.ParserFraming
  Proofs.ParserFrag Proofs.ParserSim Proofs.ParserBridge Proofs.Http1ReaderP Proofs.ServerTargetParser.
Local Open Scope N_scope.

(* ---------- octets ---------- *)
Lemma contains_cons pat c l : contains pat l = true -> contains pat (c :: l) = true.
Proof.
  unfold contains. cbn [cut]. destruct (prefixb pat (c :: l)); [reflexivity|].
  destruct (cut pat l) as [[a b]|]; [reflexivity | discriminate].
Qed.

Lemma contains_LF_cons c l : beq c LF = false -> contains [LF] (c :: l) = contains [LF] l.
Proof.
  intros H. unfold contains. cbn [cut prefixb]. rewrite (beq_sym LF c), H. cbn [andb].
  destruct (cut [LF] l) as [[a b]|]; reflexivity.
Qed.

(* if a stream starts with an LF-free line and its CRLF, any prefix of it that contains an LF contains that CRLF *)
Lemma lf_in_prefix line : forall b rem r, b ++ rem = line ++ CRLF ++ r -> no_lf line = true ->
  contains [LF] b = true -> contains CRLF b = true.
Proof.
  induction line as [|a l IH]; intros b rem r E Hl Hb.
  - cbn [app] in E. unfold CRLF in E. cbn [app] in E.
    destruct b as [|c1 [|c2 b']].
    + discriminate.
    + cbn [app] in E. injection E as -> _. vm_compute in Hb. discriminate.
    + cbn [app] in E. injection E as -> -> _. reflexivity.
  - cbn [no_lf forallb] in Hl. apply andb_true_iff in Hl as [Ha Hl]. apply negb_true_iff in Ha.
    destruct b as [|c b']; [discriminate|]. cbn [app] in E. injection E as -> E.
    rewrite (contains_LF_cons a b' Ha) in Hb. apply contains_cons. exact (IH b' rem r E Hl Hb).
Qed.

Section QuietClient.
Variable C : callees.
Notation L := reference.
Notation E := eager_reference.

(* ---------- the line of a message completed in one turn from an idle state is the first line of the buffer ---------- *)
Lemma first_line k s s' m : cur s = None -> turn_of L C k s = TMsg s' m ->
  exists rest, cut CRLF (buf s) = Some (m_line m, rest).
Proof.
  intros Cu T. rewrite (turn_of_eq L C k s), Cu in T.
  unfold parse_startline in T. cbn [allow_lf reference andb] in T.
  destruct (contains CRLF (buf s)); [|discriminate]. cbn [le_bytes] in T.
  destruct (cut CRLF (buf s)) as [[line rest]|]; [|discriminate].
  destruct (c_start C line) as [info|c| |]; try discriminate.
  exists rest. f_equal. f_equal.
  rewrite (after_startline_eq L C k) in T. cbn [i_phase i_le i_hdrs] in T.
  destruct (parse_headers L LE_CRLF [] rest) as [h b'|h b'|e]; try discriminate.
  destruct (on_headers_complete C k _) as [i2|e2] eqn:O; [|discriminate].
  apply on_headers_complete_spec in O. rewrite (after_headers_eq L C k) in T.
  destruct (parse_body C i2 b') as [i' b''|i' b''|e] eqn:PB; try discriminate.
  destruct (on_body_complete L C k i' b'') as [m'|e] eqn:OB; [|discriminate].
  injection T as _ <-. apply on_body_complete_line in OB. rewrite OB.
  destruct (parse_body_meta C i2 b' i' b'' (or_intror PB)) as (A & _). rewrite A, O. reflexivity.
Qed.

(* ---------- what a reference-machine state still delivers ---------- *)
Definition Good k (sl : pstate) (rem : bytes) : Prop :=
  wf_st sl /\ crlf_st sl /\
  exists ms, parse L C k sl rem = (init, ms, None) /\ Forall (fun m => no_lf (m_line m) = true) ms.

Lemma blocked_not_init k s s1 : cur s = None -> buf s <> [] -> turn_of L C k s = TBlocked s1 -> s1 <> init.
Proof.
  intros Cu Hb T. rewrite (turn_of_eq L C k s), Cu in T.
  destruct (parse_startline L C (buf s)) as [a x|[[line le] info] rest|e]; try discriminate.
  - injection T as <-. intros E. rewrite E in Hb. apply Hb. reflexivity.
  - rewrite (after_startline_eq L C k) in T. cbn [i_phase i_le i_hdrs] in T.
    destruct (parse_headers L le [] rest) as [h b'|h b'|e]; try discriminate.
    + injection T as <-. intros E. discriminate.
    + destruct (on_headers_complete C k _) as [i2|e2]; [|discriminate].
      rewrite (after_headers_eq L C k) in T.
      destruct (parse_body C i2 b') as [i' b''|i' b''|e]; try discriminate.
      * injection T as <-. intros E. discriminate.
      * destruct (on_body_complete L C k i' b''); discriminate.
Qed.

Lemma loop_S cfg k F s acc : loop cfg C k (S F) s acc =
  match buf s with
  | [] => (s, rev acc, None)
  | _ :: _ => match turn_of cfg C k s with
              | TBlocked s' => (s', rev acc, None)
              | TMsg s' m => loop cfg C k F s' (m :: acc)
              | TErr e => (init, rev acc, Some e)
              end
  end.
Proof. reflexivity. Qed.

(* an idle state that still delivers LF-free-line messages never sees "LF but no CRLF" in its buffer *)
Lemma good_lf_safe k se sl rem : Rst se sl -> Good k sl rem -> lf_select se = false.
Proof.
  intros HR (Hw & Hc & ms & P & Hms). unfold lf_select. destruct (cur se) as [ie|] eqn:Ce; [reflexivity|].
  unfold Rst in HR. rewrite Ce in HR. destruct (cur sl) as [il|] eqn:Cl; [contradiction|]. rewrite HR.
  destruct (contains CRLF (buf sl)) eqn:HC; [reflexivity|]. cbn [negb andb].
  destruct (contains [LF] (buf sl)) eqn:HL; [exfalso|reflexivity].
  rewrite (parse_eq L C k sl rem) in P.
  set (s0 := app_buf sl rem) in *.
  assert (Cu0 : cur s0 = None) by exact Cl.
  assert (Hne : buf sl <> []) by (intros E0; rewrite E0 in HL; discriminate).
  destruct (buf s0) as [|c X] eqn:B0.
  { unfold s0, app_buf in B0. cbn [buf] in B0. apply app_eq_nil in B0 as [B0 _]. contradiction. }
  rewrite loop_S, B0 in P.
  destruct (turn_of L C k s0) as [s1|s1 m|e] eqn:T.
  - injection P as -> _. eapply (blocked_not_init k s0 init Cu0); [rewrite B0; discriminate | exact T | reflexivity].
  - rewrite (loop_acc L C k) in P. destruct (loop L C k (Datatypes.length (buf sl ++ rem)) s1 []) as [[s2 ms2] e2].
    cbn [rev app] in P. injection P as _ <- _. inversion Hms as [|m' ms' Hm _]; subst.
    destruct (first_line k s0 s1 m Cu0 T) as [rest Hcut].
    apply (cut_some CRLF _ _ _ CRLF_ne) in Hcut. unfold s0, app_buf in Hcut. cbn [buf] in Hcut.
    pose proof (lf_in_prefix (m_line m) (buf sl) rem rest Hcut Hm HL) as K. congruence.
  - discriminate.
Qed.

(* ---------- [Good] is preserved along the reference machine's own turns, and excludes errors ---------- *)
Lemma good_turn k s rem : Good k s rem -> buf s <> [] ->
  match turn_of L C k s with
  | TErr _ => False
  | TMsg s' m => Good k s' rem
  | TBlocked _ => True
  end.
Proof.
  intros (Hw & Hc & ms & P & Hms) Hb.
  pose proof (turn_stable reference C k eq_refl eq_refl eq_refl s rem Hc) as TS.
  pose proof (turn_ok L C k s Hw) as TO.
  rewrite (parse_eq L C k s rem), loop_S in P.
  assert (Hb2 : buf (app_buf s rem) <> []).
  { unfold app_buf. cbn [buf]. intros E0. apply app_eq_nil in E0 as [E0 _]. contradiction. }
  destruct (buf (app_buf s rem)) as [|c X] eqn:B0; [contradiction|].
  destruct (turn_of L C k s) as [s1|s' m|e].
  - exact I.
  - destruct TS as [TS Hc']. destruct TO as [Hlen Hw']. rewrite TS in P.
    rewrite (loop_acc L C k) in P.
    destruct (loop L C k (Datatypes.length (buf s ++ rem)) (app_buf s' rem) []) as [[s2 ms2] e2] eqn:LP.
    cbn [rev app] in P. injection P as -> <- ->. inversion Hms as [|m' ms' Hm Hms']; subst.
    split; [exact Hw'|]. split; [exact Hc'|]. exists ms2. split; [|exact Hms'].
    rewrite (parse_eq L C k s' rem).
    rewrite <- LP. apply (loop_fuel L C k); [exact Hw' | |]; unfold app_buf; cbn [buf]; rewrite !app_length in *; lia.
  - rewrite TS in P. discriminate.
Qed.


Lemma good_app k sl f rem : Good k sl (f ++ rem) -> Good k (app_buf sl f) rem.
Proof.
  intros (Hw & Hc & ms & P & Hms). split; [exact Hw|]. split; [exact Hc|]. exists ms. split; [|exact Hms].
  rewrite <- P, !(parse_eq L C k). unfold app_buf. cbn [buf cur]. rewrite <- !app_assoc. reflexivity.
Qed.

(* ---------- the general argument: an invariant [Fr] of the eager machine's states under which [real] takes the eager
   machine's turn whenever LF mode is not selected (i.e. the 411 peek does not fire) ---------- *)
Section General.
Variable k : kind.
Variable Fr : pstate -> Prop.
Hypothesis Fr_app : forall s d, Fr s -> Fr (app_buf s d).
Hypothesis Fr_real : forall s, Fr s -> lf_select s = false -> turn_of real C k s = turn_of E C k s.
Hypothesis Fr_turn : forall s, Fr s -> match turn_of E C k s with TMsg s' _ | TBlocked s' => Fr s' | TErr _ => True end.

Lemma quiet_loop_good F : forall se sl rem, Rst se sl -> wf_st se -> Fr se -> Good k sl rem ->
  quiet_loop C k F se = true.
Proof.
  induction F as [|f IH]; intros se sl rem HR We HF HG; cbn [quiet_loop]; [destruct (buf se); reflexivity|].
  destruct (buf se) as [|c x] eqn:Be; [reflexivity|].
  assert (Hbl : buf sl <> []).
  { intros E0. apply (Rst_empty se sl HR) in E0. rewrite Be in E0. discriminate. }
  pose proof (good_lf_safe k se sl rem HR HG) as Hlf.
  pose proof (good_turn k sl rem HG Hbl) as GT.
  pose proof (turn_sim C k se sl HR) as TS.
  pose proof (turn_ok E C k se We) as TO.
  pose proof (Fr_turn se HF) as FT.
  unfold quiet_turn. rewrite Hlf, (Fr_real se HF Hlf). cbn [negb andb].
  destruct (turn_of L C k sl) as [sl'|sl' m|e].
  - destruct TS as [(se' & Te & _) | (Te & _)]; rewrite Te; reflexivity.
  - destruct TS as (se' & Te & HR'). rewrite Te in *. cbn [is_peek negb andb].
    destruct TO as [_ We']. exact (IH se' sl' rem HR' We' FT GT).
  - contradiction.
Qed.

Lemma loop_Fr F : forall s acc, Fr s -> match loop E C k F s acc with (s', _, None) => Fr s' | _ => True end.
Proof.
  induction F as [|f IH]; intros s acc HF; cbn [loop].
  - destruct (buf s); [exact HF | exact I].
  - destruct (buf s); [exact HF|]. pose proof (Fr_turn s HF) as FT.
    destruct (turn_of E C k s) as [s'|s' m|e]; [exact FT | apply IH, FT | exact I].
Qed.

Lemma quiet_parse_good se sl f rem : Rst se sl -> wf_st se -> Fr se -> Good k sl (f ++ rem) ->
  quiet_parse C k se f = true.
Proof.
  intros HR We HF HG. unfold quiet_parse.
  change {| buf := buf se ++ f; cur := cur se |} with (app_buf se f).
  apply (quiet_loop_good _ (app_buf se f) (app_buf sl f) rem);
    [apply Rst_app, HR | exact We | apply Fr_app, HF | apply good_app, HG].
Qed.

Theorem quiet_run_good frags : forall se sl, Rst se sl -> wf_st se -> Fr se -> Good k sl (concat_bytes frags) ->
  quiet_run C k se frags = true.
Proof.
  induction frags as [|f fr IH]; intros se sl HR We HF HG; cbn [quiet_run concat_bytes] in *; [reflexivity|].
  pose proof (quiet_parse_good se sl f (concat_bytes fr) HR We HF HG) as QP. rewrite QP. cbn [andb].
  rewrite (parse_real C k se f QP).
  destruct HG as (Hw & Hc & ms & P & Hms).
  rewrite (parse_app reference C k eq_refl eq_refl eq_refl sl f (concat_bytes fr) Hw Hc) in P.
  pose proof (parse_sim C k se sl f HR We Hw) as PS.
  pose proof (loop_Fr (S (Datatypes.length (buf se ++ f))) (app_buf se f) [] (Fr_app se f HF)) as LF.
  rewrite <- (parse_eq E C k se f) in LF.
  destruct (parse L C k sl f) as [[sl1 m1] [e|]] eqn:PL; [discriminate|].
  destruct (parse L C k sl1 (concat_bytes fr)) as [[s2 m2] e2] eqn:P2. injection P as -> <- ->.
  destruct (parse_result reference C k eq_refl eq_refl eq_refl sl f sl1 m1 Hw Hc PL) as (_ & Hw1 & Hc1).
  destruct PS as [(se' & Pe & HR' & We' & _) | (Pe & _)]; rewrite Pe in *; [|reflexivity].
  apply (IH se' sl1 HR' We' LF). split; [exact Hw1|]. split; [exact Hc1|]. exists m2. split; [exact P2|].
  apply Forall_app in Hms. exact (proj2 Hms).
Qed.

End General.

(* ---------- the client machine has no 411 peek: [real] differs from the eager reference machine only by LF mode ---------- *)
Lemma obc_client cfg1 cfg2 i b : on_body_complete cfg1 C Client i b = on_body_complete cfg2 C Client i b.
Proof. reflexivity. Qed.

Lemma after_headers_client i b : after_headers real C Client i b = after_headers E C Client i b.
Proof.
  rewrite (after_headers_eq real C Client i b), (after_headers_eq E C Client i b).
  destruct (parse_body C i b) as [i' b'|i' b'|e]; reflexivity.
Qed.

Lemma after_startline_client i b : after_startline real C Client i b = after_startline E C Client i b.
Proof.
  rewrite (after_startline_eq real C Client i b), (after_startline_eq E C Client i b).
  destruct (i_phase i); [|apply after_headers_client].
  change (parse_headers real (i_le i) (i_hdrs i) b) with (parse_headers E (i_le i) (i_hdrs i) b).
  destruct (parse_headers E (i_le i) (i_hdrs i) b) as [h b'|h b'|e]; reflexivity.
Qed.

Lemma turn_real_client s : lf_select s = false -> turn_of real C Client s = turn_of E C Client s.
Proof.
  unfold lf_select. rewrite (turn_of_eq real C Client s), (turn_of_eq E C Client s).
  destruct (cur s) as [i|]; [intros _; apply after_startline_client|]. intros H1.
  assert (PS : parse_startline real C (buf s) = parse_startline E C (buf s)).
  { unfold parse_startline. cbn [allow_lf real eager_reference andb].
    destruct (contains CRLF (buf s)); [reflexivity|]. cbn [negb andb] in H1. rewrite H1. reflexivity. }
  rewrite PS. destruct (parse_startline E C (buf s)) as [a x'|[[line le] info] rest|e]; reflexivity.
Qed.


End QuietClient.

(* ---------- the server machine: the 411 peek cannot fire when every header section that the header hook accepts is framed ---------- *)
Section QuietServer.
Variable C : callees.
Notation E := eager_reference.

(* a header collection that frames its message: Content-Length, or Transfer-Encoding under HTTP/1.1 (then the machine
   either reads chunks or refuses the coding: it never falls back to "no body") *)
Definition framed_h (p : bool) (h : hdrs) : bool := hmem K_CL h || (p && hmem K_TE h).
Hypothesis Hfr : forall p h, c_hdrs C p h = HOk -> framed_h p h = true.

Definition framed0 (i : inflight) : Prop :=
  hmem K_CL (i_hdrs i) = true \/ i_chunked i = true \/
  (i_len i = None /\ p11 (i_info i) = true /\ hmem K_TE (i_hdrs i) = true).
Definition framed1 (i : inflight) : Prop := hmem K_CL (i_hdrs i) = true \/ i_chunked i = true.
Definition FrSt (s : pstate) : Prop :=
  match cur s with
  | Some i => match i_phase i with PBody => framed0 i | PHeaders => i_len i = None /\ i_chunked i = false end
  | None => True
  end.

Lemma obc_framed i b : framed1 i -> on_body_complete real C Server i b = on_body_complete E C Server i b.
Proof.
  intros H. unfold on_body_complete. cbn [peek411 real eager_reference andb].
  assert (Z : nonempty_b b && negb (hmem K_CL (i_hdrs i)) && negb (i_chunked i) = false).
  { destruct H as [H|H]; rewrite H; cbn [negb]; rewrite ?andb_false_r; reflexivity. }
  rewrite Z. reflexivity.
Qed.

Lemma parse_body_framed i b i' b' : framed0 i ->
  parse_body C i b = Need i' b' \/ parse_body C i b = Done i' b' -> framed1 i'.
Proof.
  intros H0. unfold parse_body.
  set (r := match i_len i, i_chunked i with None, false => determine C i | _, _ => inl i end).
  assert (R : match r with inl i1 => framed1 i1 | inr _ => True end).
  { unfold r. destruct (i_len i) as [n|] eqn:Ln.
    - destruct H0 as [H|[H|(H & _)]]; [left; exact H | right; exact H | congruence].
    - destruct (i_chunked i) eqn:Ch; [right; exact Ch|].
      destruct (determine C i) as [i1|e] eqn:D; [|exact I].
      destruct (determine_spec C i i1 Ch D) as (_ & _ & _ & Eh & _ & _ & _ & _ & Hc).
      destruct Hc as [Hc | (Hc & Hte & _)]; [right; exact Hc|].
      destruct H0 as [H|[H|(_ & Hp & Ht)]]; [left; rewrite Eh; exact H | congruence|].
      exfalso. unfold te_absent_or_10 in Hte. unfold hmem in Ht. destruct Hte as [Hte|Hte]; [rewrite Hte in Ht; discriminate | congruence]. }
  destruct r as [i1|e]; [|intros [H|H]; discriminate].
  destruct (i_chunked i1) eqn:Ch1.
  - intros H. right. destruct (chunks_meta C _ _ _ _ _ H) as (_ & _ & _ & _ & Ec & _). rewrite Ec. exact Ch1.
  - destruct R as [R|R]; [|congruence].
    destruct (i_len i1) as [[|p]|] eqn:L1.
    + intros [H|H]; [discriminate | injection H as <- _; left; exact R].
    + intros H. destruct (body_with_length_spec i1 (N.pos p) b ltac:(lia)) as [_ S2].
      destruct (S2 i' b' H) as (_ & _ & _ & Eh & _ & _). left. rewrite Eh. exact R.
    + intros [H|H]; [discriminate | injection H as <- _; left; exact R].
Qed.

Lemma framed1_0 i : framed1 i -> framed0 i.
Proof. intros [H|H]; [left | right; left]; exact H. Qed.

Lemma after_headers_Fr i b : framed0 i ->
  after_headers real C Server i b = after_headers E C Server i b /\
  (forall i' b', parse_body C i b = Need i' b' -> framed0 i').
Proof.
  intros H0. rewrite (after_headers_eq real C Server i b), (after_headers_eq E C Server i b). split.
  - destruct (parse_body C i b) as [i' b'|i' b'|e] eqn:PB; try reflexivity.
    rewrite (obc_framed i' b' (parse_body_framed i b i' b' H0 (or_intror PB))). reflexivity.
  - intros i' b' PB. apply framed1_0, (parse_body_framed i b i' b' H0 (or_introl PB)).
Qed.

Lemma after_headers_FrSt i b : i_phase i = PBody -> framed0 i ->
  match after_headers E C Server i b with TMsg s' _ | TBlocked s' => FrSt s' | TErr _ => True end.
Proof.
  intros Hp H0. rewrite (after_headers_eq E C Server i b).
  destruct (parse_body C i b) as [i' b'|i' b'|e] eqn:PB; [| |exact I].
  - unfold FrSt. cbn [cur]. destruct (parse_body_meta C i b i' b' (or_introl PB)) as (_ & _ & P). rewrite P, Hp.
    exact (proj2 (after_headers_Fr i b H0) i' b' PB).
  - destruct (on_body_complete E C Server i' b'); exact I.
Qed.

Definition FrI (i : inflight) : Prop :=
  match i_phase i with PBody => framed0 i | PHeaders => i_len i = None /\ i_chunked i = false end.

Lemma ohc_framed i i2 : i_len i = None -> i_chunked i = false -> on_headers_complete C Server i = inl i2 -> framed0 i2.
Proof.
  intros Ln Ch O. unfold on_headers_complete in O.
  destruct (p11 (i_info i) && negb (hmem K_HOST (i_hdrs i))); [discriminate|].
  destruct (c_hdrs C (p11 (i_info i)) (i_hdrs i)) eqn:HC; try discriminate.
  injection O as <-. pose proof (Hfr _ _ HC) as F. unfold framed_h in F.
  unfold framed0, set_ce, set_hdrs, hc_hdrs, connect_response. cbn [i_hdrs i_chunked i_len i_info].
  apply orb_true_iff in F as [F|F]; [left; exact F|]. apply andb_true_iff in F as [F1 F2].
  right. right. repeat split; assumption.
Qed.

Lemma after_startline_Fr i b : FrI i ->
  after_startline real C Server i b = after_startline E C Server i b /\
  match after_startline E C Server i b with TMsg s' _ | TBlocked s' => FrSt s' | TErr _ => True end.
Proof.
  unfold FrI. intros HI. rewrite (after_startline_eq real C Server i b), (after_startline_eq E C Server i b).
  destruct (i_phase i) eqn:Ph.
  - destruct HI as [Ln Ch].
    change (parse_headers real (i_le i) (i_hdrs i) b) with (parse_headers E (i_le i) (i_hdrs i) b).
    destruct (parse_headers E (i_le i) (i_hdrs i) b) as [h b'|h b'|e]; [| |split; [reflexivity | exact I]].
    + split; [reflexivity|]. unfold FrSt. cbn [cur set_hdrs i_phase i_len i_chunked]. rewrite Ph. split; assumption.
    + destruct (on_headers_complete C Server (set_phase (set_hdrs i h) PBody)) as [i2|e2] eqn:O; [|split; [reflexivity | exact I]].
      assert (F2 : framed0 i2) by (apply (ohc_framed _ i2) in O; [exact O | exact Ln | exact Ch]).
      assert (P2 : i_phase i2 = PBody) by (apply on_headers_complete_spec in O; subst i2; reflexivity).
      split; [exact (proj1 (after_headers_Fr i2 b' F2)) | exact (after_headers_FrSt i2 b' P2 F2)].
  - split; [exact (proj1 (after_headers_Fr i b HI)) | exact (after_headers_FrSt i b Ph HI)].
Qed.

Lemma FrSt_FrI s i : FrSt s -> cur s = Some i -> FrI i.
Proof. unfold FrSt, FrI. intros H Cu. rewrite Cu in H. exact H. Qed.

Lemma server_Fr_real s : FrSt s -> lf_select s = false -> turn_of real C Server s = turn_of E C Server s.
Proof.
  intros HF. unfold lf_select. rewrite (turn_of_eq real C Server s), (turn_of_eq E C Server s).
  destruct (cur s) as [i|] eqn:Cu; [intros _; exact (proj1 (after_startline_Fr i (buf s) (FrSt_FrI s i HF Cu)))|]. intros H1.
  assert (PS : parse_startline real C (buf s) = parse_startline E C (buf s)).
  { unfold parse_startline. cbn [allow_lf real eager_reference andb].
    destruct (contains CRLF (buf s)); [reflexivity|]. cbn [negb andb] in H1. rewrite H1. reflexivity. }
  rewrite PS. destruct (parse_startline E C (buf s)) as [a x'|[[line le] info] rest|e]; try reflexivity.
  match goal with |- after_startline real C Server ?i ?b = _ => apply (proj1 (after_startline_Fr i b (conj eq_refl eq_refl))) end.
Qed.

Lemma server_Fr_turn s : FrSt s ->
  match turn_of E C Server s with TMsg s' _ | TBlocked s' => FrSt s' | TErr _ => True end.
Proof.
  intros HF. rewrite (turn_of_eq E C Server s).
  destruct (cur s) as [i|] eqn:Cu; [exact (proj2 (after_startline_Fr i (buf s) (FrSt_FrI s i HF Cu)))|].
  destruct (parse_startline E C (buf s)) as [a x'|[[line le] info] rest|e]; [| |exact I].
  - unfold FrSt. rewrite Cu. exact I.
  - match goal with |- match after_startline E C Server ?i ?b with _ => _ end => exact (proj2 (after_startline_Fr i b (conj eq_refl eq_refl))) end.
Qed.

End QuietServer.

(* ---------- one message and nothing after it: the 411 peek needs octets BEHIND a completed message ---------- *)
Section Single.
Variable C : callees.
Variable k : kind.
Notation L := reference.
Notation E := eager_reference.

Lemma obc_last i : on_body_complete real C k i [] = on_body_complete E C k i [].
Proof. unfold on_body_complete. cbn [peek411 real eager_reference nonempty_b andb]. destruct k; reflexivity. Qed.

(* the eager machine blocks: the machine as implemented blocks in the same state (no message was completed, the peek was not reached) *)
Lemma after_headers_blocked i b s1 : after_headers E C k i b = TBlocked s1 -> after_headers real C k i b = TBlocked s1.
Proof.
  rewrite (after_headers_eq E C k i b), (after_headers_eq real C k i b).
  destruct (parse_body C i b) as [i' b'|i' b'|e]; [intros H; exact H | | discriminate].
  destruct (on_body_complete E C k i' b'); discriminate.
Qed.

Lemma after_headers_last i b s' m : after_headers E C k i b = TMsg s' m -> buf s' = [] -> after_headers real C k i b = TMsg s' m.
Proof.
  rewrite (after_headers_eq E C k i b), (after_headers_eq real C k i b).
  destruct (parse_body C i b) as [i' b'|i' b'|e]; try discriminate.
  destruct (on_body_complete E C k i' b') as [m0|e0] eqn:O; [|discriminate].
  intros H Hb. injection H as <- <-. cbn [buf] in Hb. subst b'. rewrite obc_last, O. reflexivity.
Qed.

Lemma after_startline_blocked i b s1 : after_startline E C k i b = TBlocked s1 -> after_startline real C k i b = TBlocked s1.
Proof.
  rewrite (after_startline_eq E C k i b), (after_startline_eq real C k i b).
  destruct (i_phase i); [|apply after_headers_blocked].
  change (parse_headers real (i_le i) (i_hdrs i) b) with (parse_headers E (i_le i) (i_hdrs i) b).
  destruct (parse_headers E (i_le i) (i_hdrs i) b) as [h b'|h b'|e]; [intros H; exact H | | discriminate].
  destruct (on_headers_complete C k (set_phase (set_hdrs i h) PBody)); [apply after_headers_blocked | discriminate].
Qed.

Lemma after_startline_last i b s' m : after_startline E C k i b = TMsg s' m -> buf s' = [] -> after_startline real C k i b = TMsg s' m.
Proof.
  rewrite (after_startline_eq E C k i b), (after_startline_eq real C k i b).
  destruct (i_phase i); [|apply after_headers_last].
  change (parse_headers real (i_le i) (i_hdrs i) b) with (parse_headers E (i_le i) (i_hdrs i) b).
  destruct (parse_headers E (i_le i) (i_hdrs i) b) as [h b'|h b'|e]; try discriminate.
  destruct (on_headers_complete C k (set_phase (set_hdrs i h) PBody)); [apply after_headers_last | discriminate].
Qed.

Lemma startline_same s : lf_select s = false -> cur s = None -> parse_startline real C (buf s) = parse_startline E C (buf s).
Proof.
  unfold lf_select. intros H1 Cu. rewrite Cu in H1. unfold parse_startline. cbn [allow_lf real eager_reference andb].
  destruct (contains CRLF (buf s)); [reflexivity|]. cbn [negb andb] in H1. rewrite H1. reflexivity.
Qed.

Lemma turn_blocked_same s s1 : lf_select s = false -> turn_of E C k s = TBlocked s1 -> turn_of real C k s = TBlocked s1.
Proof.
  intros Hlf. rewrite (turn_of_eq E C k s), (turn_of_eq real C k s).
  destruct (cur s) as [i|] eqn:Cu; [apply after_startline_blocked|].
  rewrite (startline_same s Hlf Cu).
  destruct (parse_startline E C (buf s)) as [a x'|[[line le] info] rest|e]; [intros H; exact H | apply after_startline_blocked | discriminate].
Qed.

Lemma turn_last_same s s' m : lf_select s = false -> turn_of E C k s = TMsg s' m -> buf s' = [] -> turn_of real C k s = TMsg s' m.
Proof.
  intros Hlf. rewrite (turn_of_eq E C k s), (turn_of_eq real C k s).
  destruct (cur s) as [i|] eqn:Cu; [apply after_startline_last|].
  rewrite (startline_same s Hlf Cu).
  destruct (parse_startline E C (buf s)) as [a x'|[[line le] info] rest|e]; [discriminate | apply after_startline_last | discriminate].
Qed.

(* ---- the reference machine's view: at most one message is still to come ---- *)
Definition Good1 (sl : pstate) (rem : bytes) : Prop :=
  wf_st sl /\ crlf_st sl /\
  exists ms, parse L C k sl rem = (init, ms, None) /\ Forall (fun m => no_lf (m_line m) = true) ms /\ (List.length ms <= 1)%nat.

Lemma good1_good sl rem : Good1 sl rem -> Good C k sl rem.
Proof. intros (Hw & Hc & ms & P & Hms & _). split; [exact Hw|]. split; [exact Hc|]. exists ms. split; assumption. Qed.

Lemma tmsg_idle s s' m : turn_of L C k s = TMsg s' m -> cur s' = None.
Proof.
  rewrite (turn_of_eq L C k s).
  assert (AH : forall i b, after_headers L C k i b = TMsg s' m -> cur s' = None).
  { intros i b. rewrite (after_headers_eq L C k i b). destruct (parse_body C i b) as [i' b'|i' b'|e]; try discriminate.
    destruct (on_body_complete L C k i' b'); [|discriminate]. intros H. injection H as <- _. reflexivity. }
  assert (AS : forall i b, after_startline L C k i b = TMsg s' m -> cur s' = None).
  { intros i b. rewrite (after_startline_eq L C k i b). destruct (i_phase i); [|apply AH].
    destruct (parse_headers L (i_le i) (i_hdrs i) b) as [h b'|h b'|e]; try discriminate.
    destruct (on_headers_complete C k (set_phase (set_hdrs i h) PBody)); [apply AH | discriminate]. }
  destruct (cur s) as [i|]; [apply AS|].
  destruct (parse_startline L C (buf s)) as [a x'|[[line le] info] rest|e]; [discriminate | apply AS | discriminate].
Qed.

Lemma nothing_left s rem : cur s = None -> parse L C k s rem = (init, [], None) -> buf s ++ rem = [].
Proof.
  intros Cu P. rewrite (parse_eq L C k s rem), loop_S in P.
  assert (Cu0 : cur (app_buf s rem) = None) by exact Cu.
  destruct (buf (app_buf s rem)) as [|c X] eqn:B0; [exact B0|]. exfalso.
  destruct (turn_of L C k (app_buf s rem)) as [s1|s1 m|e] eqn:T.
  - injection P as -> . eapply (blocked_not_init C k (app_buf s rem) init Cu0); [rewrite B0; discriminate | exact T | reflexivity].
  - rewrite (loop_acc L C k) in P. destruct (loop L C k _ s1 []) as [[s2 ms2] e2]. cbn [rev app] in P. discriminate.
  - discriminate.
Qed.

Lemma good1_turn s rem : Good1 s rem -> buf s <> [] ->
  match turn_of L C k s with
  | TErr _ => False
  | TMsg s' m => buf s' = []
  | TBlocked s1 => buf s1 <> [] -> exists ms, parse L C k s1 rem = (init, ms, None)
  end.
Proof.
  intros (Hw & Hc & ms & P & Hms & Hlen) Hb.
  pose proof (turn_stable reference C k eq_refl eq_refl eq_refl s rem Hc) as TS.
  pose proof (turn_ok L C k s Hw) as TO.
  pose proof (turn_ok L C k (app_buf s rem) Hw) as TO2.
  rewrite (parse_eq L C k s rem), loop_S in P.
  assert (Hb2 : buf (app_buf s rem) <> []).
  { unfold app_buf. cbn [buf]. intros E0. apply app_eq_nil in E0 as [E0 _]. contradiction. }
  destruct (buf (app_buf s rem)) as [|c X] eqn:B0; [contradiction|].
  destruct (turn_of L C k s) as [s1|s' m|e] eqn:T.
  - destruct TS as [TS Hc1]. intros Hb1. rewrite TS in P, TO2.
    rewrite (parse_eq L C k s1 rem), loop_S.
    assert (Hb3 : buf (app_buf s1 rem) <> []).
    { unfold app_buf. cbn [buf]. intros E0. apply app_eq_nil in E0 as [E0 _]. contradiction. }
    pose proof (turn_ok L C k (app_buf s1 rem) TO) as TO3.
    destruct (buf (app_buf s1 rem)) as [|c1 X1] eqn:B1; [contradiction|].
    destruct (turn_of L C k (app_buf s1 rem)) as [s2|s2 m2|e2].
    + exists ms. exact P.
    + exists ms. rewrite <- P. destruct TO2 as [L2 W2]. destruct TO3 as [L3 _].
      apply (loop_fuel L C k); [exact W2 | |]; unfold app_buf in *; cbn [buf] in *; rewrite ?B0, ?B1 in *; cbn [Datatypes.length] in *; lia.
    + discriminate.
  - destruct TS as [TS Hc']. rewrite TS in P. rewrite (loop_acc L C k) in P.
    destruct (loop L C k (Datatypes.length (buf s ++ rem)) (app_buf s' rem) []) as [[s2 ms2] e2] eqn:LP.
    cbn [rev app] in P. injection P as -> <- ->. cbn [Datatypes.length] in Hlen.
    assert (ms2 = []) by (destruct ms2; [reflexivity | cbn in Hlen; lia]). subst ms2.
    destruct TO as [Hlen' Hw'].
    assert (P' : parse L C k s' rem = (init, [], None)).
    { rewrite (parse_eq L C k s' rem), <- LP. apply (loop_fuel L C k); [exact Hw' | |]; unfold app_buf; cbn [buf]; rewrite !app_length in *; lia. }
    pose proof (nothing_left s' rem (tmsg_idle s s' m T) P') as N. apply app_eq_nil in N. exact (proj1 N).
  - rewrite TS in P. discriminate.
Qed.

Lemma doomed_nonempty sl : doomed sl -> buf sl <> [].
Proof. intros (il & HS' & x' & _ & _ & _ & _ & Eb & _). rewrite Eb. destruct HS'; discriminate. Qed.

Lemma quiet_loop_single F : forall se sl rem, Rst se sl -> wf_st se -> Good1 sl rem -> quiet_loop C k F se = true.
Proof.
  destruct F as [|f]; intros se sl rem HR We HG; cbn [quiet_loop]; [destruct (buf se); reflexivity|].
  destruct (buf se) as [|c x] eqn:Be; [reflexivity|].
  assert (Hbl : buf sl <> []).
  { intros E0. apply (Rst_empty se sl HR) in E0. rewrite Be in E0. discriminate. }
  pose proof (good_lf_safe C k se sl rem HR (good1_good sl rem HG)) as Hlf.
  pose proof (good1_turn sl rem HG Hbl) as GT.
  pose proof (turn_sim C k se sl HR) as TS.
  unfold quiet_turn. rewrite Hlf. cbn [negb andb].
  destruct (turn_of L C k sl) as [sl'|sl' m|e].
  - destruct TS as [(se' & Te & _) | (Te & HD)].
    + rewrite (turn_blocked_same se se' Hlf Te). reflexivity.
    + exfalso. destruct (GT (doomed_nonempty sl' HD)) as [ms P].
      destruct (doomed_parse C k sl' rem HD) as [(sl2 & P2 & HD2) | P2]; rewrite P in P2; [|discriminate].
      injection P2 as <- _. destruct HD2 as (il & _ & _ & Cu & _). discriminate.
  - destruct TS as (se' & Te & HR').
    assert (Hbe : buf se' = []) by (apply (Rst_empty se' sl' HR'); exact GT).
    rewrite (turn_last_same se se' m Hlf Te Hbe). cbn [is_peek negb andb].
    destruct f; cbn [quiet_loop]; rewrite Hbe; reflexivity.
  - contradiction.
Qed.

Lemma good1_app sl f rem : Good1 sl (f ++ rem) -> Good1 (app_buf sl f) rem.
Proof.
  intros (Hw & Hc & ms & P & Hms & Hl). split; [exact Hw|]. split; [exact Hc|]. exists ms. split; [|split; assumption].
  rewrite <- P, !(parse_eq L C k). unfold app_buf. cbn [buf cur]. rewrite <- !app_assoc. reflexivity.
Qed.

Lemma quiet_parse_single se sl f rem : Rst se sl -> wf_st se -> Good1 sl (f ++ rem) -> quiet_parse C k se f = true.
Proof.
  intros HR We HG. unfold quiet_parse.
  change {| buf := buf se ++ f; cur := cur se |} with (app_buf se f).
  apply (quiet_loop_single _ (app_buf se f) (app_buf sl f) rem); [apply Rst_app, HR | exact We | apply good1_app, HG].
Qed.

Theorem quiet_run_single frags : forall se sl, Rst se sl -> wf_st se -> Good1 sl (concat_bytes frags) ->
  quiet_run C k se frags = true.
Proof.
  induction frags as [|f fr IH]; intros se sl HR We HG; cbn [quiet_run concat_bytes] in *; [reflexivity|].
  pose proof (quiet_parse_single se sl f (concat_bytes fr) HR We HG) as QP. rewrite QP. cbn [andb].
  rewrite (parse_real C k se f QP).
  destruct HG as (Hw & Hc & ms & P & Hms & Hl).
  rewrite (parse_app reference C k eq_refl eq_refl eq_refl sl f (concat_bytes fr) Hw Hc) in P.
  pose proof (parse_sim C k se sl f HR We Hw) as PS.
  destruct (parse L C k sl f) as [[sl1 m1] [e|]] eqn:PL; [discriminate|].
  destruct (parse L C k sl1 (concat_bytes fr)) as [[s2 m2] e2] eqn:P2. injection P as -> <- ->.
  destruct (parse_result reference C k eq_refl eq_refl eq_refl sl f sl1 m1 Hw Hc PL) as (_ & Hw1 & Hc1).
  destruct PS as [(se' & Pe & HR' & We' & _) | (Pe & _)]; rewrite Pe; [|reflexivity].
  apply (IH se' sl1 HR' We'). split; [exact Hw1|]. split; [exact Hc1|]. exists m2. split; [exact P2|].
  apply Forall_app in Hms. split; [exact (proj2 Hms)|]. rewrite app_length in Hl. lia.
Qed.

End Single.

(* ---------- the fragmentation theorems for the client machine AS IMPLEMENTED, without the quiet-run hypothesis ---------- *)
Theorem client_quiet (C : callees) wire ms frags :
  parse reference C Client init wire = (init, ms, None) -> Forall (fun m => no_lf (m_line m) = true) ms ->
  concat_bytes frags = wire -> quiet_run C Client init frags = true.
Proof.
  intros P Hms Ec.
  assert (TT : forall s : pstate, True -> match turn_of eager_reference C Client s with TMsg s' _ | TBlocked s' => (fun _ : pstate => True) s' | TErr _ => True end)
    by (intros s _; destruct (turn_of eager_reference C Client s); exact I).
  apply (quiet_run_good C Client (fun _ => True) (fun _ _ _ => I) (fun s _ Hlf => turn_real_client C s Hlf) TT frags init init);
    [reflexivity | exact I | exact I |].
  split; [exact I|]. split; [exact I|]. exists ms. rewrite Ec. split; assumption.
Qed.

Theorem client_any_fragmentation (C : callees) wire ms frags :
  parse reference C Client init wire = (init, ms, None) -> Forall (fun m => no_lf (m_line m) = true) ms ->
  concat_bytes frags = wire -> run_keep real C Client init frags = (init, ms, None).
Proof.
  intros P Hms Ec. destruct (whole_call_any_fragmentation C Client wire ms frags P Ec) as [_ R].
  apply R. exact (client_quiet C wire ms frags P Hms Ec).
Qed.

(* ---------- ... and for the server machine when every header section its header hook accepts is framed ---------- *)
Theorem server_quiet (C : callees) wire ms frags :
  (forall p h, c_hdrs C p h = HOk -> framed_h p h = true) ->
  parse reference C Server init wire = (init, ms, None) -> Forall (fun m => no_lf (m_line m) = true) ms ->
  concat_bytes frags = wire -> quiet_run C Server init frags = true.
Proof.
  intros Hfr P Hms Ec.
  apply (quiet_run_good C Server FrSt (fun s d H => H) (server_Fr_real C Hfr) (server_Fr_turn C Hfr) frags init init);
    [reflexivity | exact I | exact I |].
  split; [exact I|]. split; [exact I|]. exists ms. rewrite Ec. split; assumption.
Qed.

Theorem server_any_fragmentation (C : callees) wire ms frags :
  (forall p h, c_hdrs C p h = HOk -> framed_h p h = true) ->
  parse reference C Server init wire = (init, ms, None) -> Forall (fun m => no_lf (m_line m) = true) ms ->
  concat_bytes frags = wire -> run_keep real C Server init frags = (init, ms, None).
Proof.
  intros Hfr P Hms Ec. destruct (whole_call_any_fragmentation C Server wire ms frags P Ec) as [_ R].
  apply R. exact (server_quiet C wire ms frags Hfr P Hms Ec).
Qed.

(* ---------- ... and for EITHER machine when the stream is ONE message with nothing behind it (the 411 peek needs octets behind a
   completed message): e.g. a composed request without body, which carries no Content-Length ---------- *)
Theorem single_message_any_fragmentation (C : callees) (k : kind) wire m frags :
  parse reference C k init wire = (init, [m], None) -> no_lf (m_line m) = true ->
  concat_bytes frags = wire -> run_keep real C k init frags = (init, [m], None).
Proof.
  intros P Hm Ec. destruct (whole_call_any_fragmentation C k wire [m] frags P Ec) as [_ R]. apply R.
  apply (quiet_run_single C k frags init init); [reflexivity | exact I |].
  split; [exact I|]. split; [exact I|]. exists [m]. rewrite Ec. split; [exact P|]. split; [constructor; [exact Hm | constructor] | cbn; lia].
Qed.


(* C02 on the parser model: pipelining / isolation / truncation from the step lemma of C01, and exact
   delivery of a Content-Length framed message given as start line, header block and body. *)
From Coq Require Import ZArith.
From Httoop Require Import Model.Parser Proofs.SplitP Proofs.HeadersP Proofs.ParserEsc Proofs.ParserFuel Proofs.ParserFraming Proofs.ParserFrag Proofs.DecimalP.
Local Open Scope N_scope.

Section Wf.
Variable C : callees.
Variable k : kind.
Notation L := reference.

(* Isolation: a stream [a] that parses into complete messages and leaves the machine idle, followed by
   any [b]: the deliveries of [b] are exactly those of [b] alone -- each message depends on its own octets only. *)
Theorem pipelining a b ms : parse L C k init a = (init, ms, None) ->
  parse L C k init (a ++ b) = let '(s2, m2, e) := parse L C k init b in (s2, ms ++ m2, e).
Proof.
  intros H. rewrite (parse_app L C k eq_refl eq_refl eq_refl init a b I I), H. reflexivity.
Qed.

(* Truncation: whatever the cut point, the prefix delivers a prefix of the messages and what follows is
   delivered from the retained state -- nothing is lost and nothing is delivered early. *)
Theorem truncation p q : 
  match parse L C k init p with
  | (s1, m1, None) => exists s2 m2 e, parse L C k s1 q = (s2, m2, e) /\ parse L C k init (p ++ q) = (s2, m1 ++ m2, e)
  | (_, m1, Some e) => parse L C k init (p ++ q) = (init, m1, Some e)
  end.
Proof.
  rewrite (parse_app L C k eq_refl eq_refl eq_refl init p q I I).
  destruct (parse L C k init p) as [[s1 m1] [e|]]; [reflexivity|].
  destruct (parse L C k s1 q) as [[s2 m2] e]. eauto.
Qed.

(* ---- a Content-Length framed message ---- *)
Lemma cut_CRLF2_none_app A B : cut (CRLF ++ CRLF) (A ++ CRLF) = None -> prefixb CRLF B = false \/ True ->
  cut (CRLF ++ CRLF) (A ++ CRLF ++ CRLF ++ B) = Some (A, B).
Proof.
  intros H _. rewrite (cut_CRLF2_app A (CRLF ++ B) H). rewrite prefixb_app. reflexivity.
Qed.

Lemma beq_LF_CR : beq LF CR = false. Proof. reflexivity. Qed.

Lemma prefixb_CRLF_block block z : block <> [] -> prefixb CRLF block = false -> prefixb CRLF (block ++ CRLF ++ z) = false.
Proof.
  intros Hne Hp. destruct block as [|c0 [|c1 block]]; [congruence| |].
  - cbn [app]. rewrite prefixb_CRLF_cons. unfold CRLF. cbn [app]. rewrite beq_LF_CR. apply andb_false_r.
  - rewrite prefixb_app_long; [exact Hp | cbn; lia].
Qed.

Definition fresh (line : bytes) (info : slinfo) : inflight :=
  {| i_line := line; i_le := LE_CRLF; i_info := info; i_phase := PHeaders; i_hdrs := []; i_ce := None;
     i_len := None; i_chunked := false; i_trailer := false; i_body := [] |}.

(* One message = start line CRLF header-block CRLF CRLF body, where the block parses to h, announces
   Content-Length = |body| (as decimal), has no Transfer-Encoding and no Content-Encoding; followed by [rest]. *)
Theorem content_length_message line info block h body rest :
  cut CRLF line = None ->
  c_start C line = SlOk info ->
  block <> [] -> prefixb CRLF block = false -> cut (CRLF ++ CRLF) (block ++ CRLF) = None ->
  hparse [] block = Some h ->
  (match k with Server => p11 info && negb (hmem K_HOST h) | Client => false end) = false ->
  c_hdrs C (p11 info) h = HOk -> connect_response C k line = false ->
  hget K_TE h = None -> hget K_CE h = None ->
  hget K_CL h = Some (dec_of_N (N.of_nat (length body))) ->
  triggers_2047 (dec_of_N (N.of_nat (length body))) = false ->
  py_int10_text INT_MAX_STR_DIGITS (dec_of_N (N.of_nat (length body))) = Some (Z.of_nat (length body)) ->
  (match k with Server => nobody info && nonempty_b body | Client => false end) = false ->
  turn_of L C k {| buf := line ++ CRLF ++ block ++ CRLF ++ CRLF ++ body ++ rest; cur := None |} =
  TMsg {| buf := rest; cur := None |} {| m_line := line; m_hdrs := h; m_body := body |}.
Proof.
  intros Hline Hstart Hbne Hbpre Hbcut Hparse Hhost Hhdrs Hnc Hte Hce Hcl Htrig Hint Hnobody.
  rewrite turn_of_eq. cbn [cur buf].
  (* start line *)
  unfold parse_startline. cbn [allow_lf reference andb].
  assert (Ecut : cut CRLF (line ++ CRLF ++ block ++ CRLF ++ CRLF ++ body ++ rest) = Some (line, block ++ CRLF ++ CRLF ++ body ++ rest)).
  { apply (cut_CRLF_none_app line _ Hline). }
  unfold contains. rewrite Ecut. cbn [le_bytes]. rewrite Ecut, Hstart.
  (* header section *)
  rewrite after_startline_eq. cbn [i_phase i_le i_hdrs].
  unfold parse_headers. cbn [le_bytes eager_hdr reference negb].
  pose proof (prefixb_CRLF_block block (CRLF ++ body ++ rest) Hbne Hbpre) as Epre.
  rewrite Epre, (cut_CRLF2_none_app block (body ++ rest) Hbcut (or_intror I)).
  unfold parse_block. destruct block as [|c0 block]; [congruence|]. cbn [nonempty_b]. rewrite Hparse.
  (* on_headers_complete *)
  unfold on_headers_complete. cbn [i_hdrs i_line set_phase set_hdrs i_info]. rewrite Hhost, Hhdrs, Hce, (hc_hdrs_plain C k line h Hnc).
  (* body *)
  rewrite after_headers_eq. unfold parse_body, set_ce, set_phase, set_hdrs.
  cbn [i_line i_le i_info i_phase i_hdrs i_ce i_len i_chunked i_trailer i_body].
  unfold determine. cbn [i_line i_le i_info i_phase i_hdrs i_ce i_len i_chunked i_trailer i_body].
  rewrite Hte, Hcl. unfold hgetitem. rewrite Htrig, Hint.
  assert (Ez : (Z.of_nat (length body) <? 0)%Z = false) by (apply Z.ltb_ge; lia). rewrite Ez.
  unfold set_len. cbn [i_line i_le i_info i_phase i_hdrs i_ce i_len i_chunked i_trailer i_body].
  assert (EN : Z.to_N (Z.of_nat (length body)) = N.of_nat (length body)) by (rewrite <- nat_N_Z, N2Z.id; reflexivity).
  rewrite EN.
  assert (Hobc : forall i b', i_line i = line -> i_hdrs i = h -> i_ce i = None -> i_chunked i = false -> i_body i = body -> i_info i = info ->
            on_body_complete L C k i b' = inl {| m_line := line; m_hdrs := h; m_body := body |}).
  { intros i b' E1 E2 E3 E4 E5 E6. unfold on_body_complete. cbn [peek411 reference andb].
    rewrite E1, E2, E3, E4, E5, E6, cl_variant_repaired.
    assert (Hm : hmem K_CL h = true) by (unfold hmem; rewrite Hcl; reflexivity). rewrite Hm. cbn [negb andb].
    destruct k; [rewrite Hnobody|]; reflexivity. }
  destruct (N.of_nat (length body)) as [|p] eqn:EL.
  - assert (body = []) by (destruct body; [reflexivity | discriminate]). subst body. cbn [app].
    rewrite Hobc by reflexivity. reflexivity.
  - unfold body_with_length. rewrite to_nat_min.
    cbn [i_line i_le i_info i_phase i_hdrs i_ce i_len i_chunked i_trailer i_body set_body set_len].
    assert (En : Nat.min (N.to_nat (N.pos p)) (length (body ++ rest)) = length body).
    { rewrite app_length. rewrite <- EL, Nat2N.id. lia. }
    rewrite En, firstn_app, Nat.sub_diag, firstn_all. cbn [firstn]. rewrite app_nil_r, skipn_app, Nat.sub_diag, skipn_all. cbn [skipn app].
    assert (Elt : N.of_nat (length body) <? N.pos p = false) by (apply N.ltb_ge; lia). rewrite Elt.
    rewrite Hobc by reflexivity. reflexivity.
Qed.

(* corollary for a whole parse() call: a Content-Length framed message followed by [rest] is delivered
   exactly, and [rest] is parsed as if it stood alone (with pipelining: by induction any sequence of them) *)
Theorem content_length_message_then line info block h body rest :
  cut CRLF line = None -> c_start C line = SlOk info ->
  block <> [] -> prefixb CRLF block = false -> cut (CRLF ++ CRLF) (block ++ CRLF) = None ->
  hparse [] block = Some h ->
  (match k with Server => p11 info && negb (hmem K_HOST h) | Client => false end) = false ->
  c_hdrs C (p11 info) h = HOk -> connect_response C k line = false -> hget K_TE h = None -> hget K_CE h = None ->
  hget K_CL h = Some (dec_of_N (N.of_nat (length body))) ->
  triggers_2047 (dec_of_N (N.of_nat (length body))) = false ->
  py_int10_text INT_MAX_STR_DIGITS (dec_of_N (N.of_nat (length body))) = Some (Z.of_nat (length body)) ->
  (match k with Server => nobody info && nonempty_b body | Client => false end) = false ->
  parse L C k init (line ++ CRLF ++ block ++ CRLF ++ CRLF ++ body ++ rest) =
  let '(s2, m2, e) := parse L C k init rest in (s2, {| m_line := line; m_hdrs := h; m_body := body |} :: m2, e).
Proof.
  intros A1 A2 A3 A4 A5 A6 A7 A8 A8c A9 A10 A11 A12 A13 A14.
  pose proof (content_length_message line info block h body rest A1 A2 A3 A4 A5 A6 A7 A8 A8c A9 A10 A11 A12 A13 A14) as T.
  set (S0 := line ++ CRLF ++ block ++ CRLF ++ CRLF ++ body ++ rest) in *.
  rewrite (parse_eq L C k init S0).
  change (app_buf init S0) with {| buf := S0; cur := None |}. change (buf init ++ S0) with S0.
  assert (Hlen : (length rest < length S0)%nat).
  { subst S0. rewrite !app_length. cbn [length CRLF]. lia. }
  destruct S0 as [|b0 l0] eqn:ES; [cbn in Hlen; lia|].
  cbn [loop buf]. rewrite T.
  rewrite (loop_acc L C k). rewrite (parse_eq L C k init rest).
  change (app_buf init rest) with {| buf := rest; cur := None |}. change (buf init ++ rest) with rest.
  rewrite (loop_fuel L C k (length (b0 :: l0)) (S (length rest)) {| buf := rest; cur := None |} [] I); [| exact Hlen | cbn [buf]; lia].
  destruct (loop L C k (S (length rest)) {| buf := rest; cur := None |} []) as [[s2 m2] e]. reflexivity.
Qed.

(* the same with the decimal round trip discharged: the only arithmetic side condition left is the
   interpreter's limit on the number of decimal digits (bodies below 10^4300 octets) *)
Theorem content_length_message_exact line info block h body rest :
  cut CRLF line = None -> c_start C line = SlOk info ->
  block <> [] -> prefixb CRLF block = false -> cut (CRLF ++ CRLF) (block ++ CRLF) = None ->
  hparse [] block = Some h ->
  (match k with Server => p11 info && negb (hmem K_HOST h) | Client => false end) = false ->
  c_hdrs C (p11 info) h = HOk -> connect_response C k line = false -> hget K_TE h = None -> hget K_CE h = None ->
  hget K_CL h = Some (dec_of_N (N.of_nat (length body))) ->
  N.of_nat (length (dec_of_N (N.of_nat (length body)))) <= INT_MAX_STR_DIGITS ->
  (match k with Server => nobody info && nonempty_b body | Client => false end) = false ->
  parse L C k init (line ++ CRLF ++ block ++ CRLF ++ CRLF ++ body ++ rest) =
  let '(s2, m2, e) := parse L C k init rest in (s2, {| m_line := line; m_hdrs := h; m_body := body |} :: m2, e).
Proof.
  intros A1 A2 A3 A4 A5 A6 A7 A8 A8c A9 A10 A11 A12 A13.
  apply (content_length_message_then line info block h body rest); auto.
  - unfold triggers_2047. rewrite dec_of_N_no_2047. reflexivity.
  - rewrite (py_int10_dec_of_N INT_MAX_STR_DIGITS _ (or_intror A12)). rewrite nat_N_Z. reflexivity.
Qed.

End Wf.

(* shard of the 400-year cycle sweep: days of the era [109575, 146097) *)
From Coq Require Import ZArith Bool.
From Httoop Require Import Model.DateCal Proofs.DateSweep.
Local Open Scope Z_scope.

Lemma cycle_shard_D : forall doe, 109575 <= doe < 146097 -> cyc_ok doe = true.
Proof. apply zsweep_range. vm_compute. reflexivity. Qed.

(* Lemmas about Model/StartLine.v (property C18). *)
From Coq Require Import Arith.PeanoNat DecimalN DecimalPos DecimalFacts.
From Httoop Require Import Lib.Bytes Lib.Variant Gen.StartLineT Model.StartLine.
Local Open Scope N_scope.

(* ================================================================== table lemmas *)
(* re-checked against the regenerated Gen/StartLineT.v on every run: a source edit that changes a
   regex, a composer literal, the server's version or a status code breaks one of them *)

Lemma method_re_pinned :
  METHOD_RE_PATTERN = X "5e5b412d5a302d39242d5f2e5d7b312c32307d5c5a" /\ METHOD_RE_FLAGS = 2.
Proof. vm_compute. split; reflexivity. Qed.
Lemma status_re_pinned :
  STATUS_RE_PATTERN = X "5e285b312d355d5c647b327d29283f3a5c732b285b5c735c7832312d5c7837655d2a29295c5a" /\ STATUS_RE_FLAGS = 0.
Proof. vm_compute. split; reflexivity. Qed.
Lemma protocol_re_pinned :
  PROTOCOL_RE_PATTERN = X "5e2848545450292f285c642b295c2e285c642b295c5a" /\ PROTOCOL_RE_FLAGS = 0.
Proof. vm_compute. split; reflexivity. Qed.

(* independent descriptions of the classes by octet ranges *)
Definition is_digit (c : byte) : bool := (48 <=? bN c) && (bN c <=? 57).
Definition is_alpha (c : byte) : bool :=
  ((65 <=? bN c) && (bN c <=? 90)) || ((97 <=? bN c) && (bN c <=? 122)).
(* SP HT LF VT FF CR *)
Definition is_blank (c : byte) : bool := (bN c =? 32) || ((9 <=? bN c) && (bN c <=? 13)).
(* the alphabet named by the property: letters, digits, '-', '_', '.', '$' *)
Definition prop_method_char (c : byte) : bool :=
  is_alpha c || is_digit c || (bN c =? 45) || (bN c =? 95) || (bN c =? 46) || (bN c =? 36).
(* what a method must never contain: blanks, controls (incl. DEL), 8-bit octets *)
Definition forbidden_method_char (c : byte) : bool := (bN c <=? 32) || (127 <=? bN c).
Definition is_word (c : byte) : bool := is_alpha c || is_digit c || (bN c =? 95).
(* visible ASCII: 0x21 .. 0x7e *)
Definition is_visible (c : byte) : bool := (33 <=? bN c) && (bN c <=? 126).

Lemma implb_true (a b : bool) : implb a b = true -> a = true -> b = true.
Proof. destruct a, b; cbn; congruence. Qed.

Lemma isws_spec c : isws c = is_blank c.
Proof. apply eqb_prop. revert c. apply forall_byte. vm_compute. reflexivity. Qed.
Lemma status_sep_spec c : inmask STATUS_SEP c = isws c.
Proof. apply eqb_prop. revert c. apply forall_byte. vm_compute. reflexivity. Qed.
Lemma proto_digit_spec c : inmask PROTO_DIGIT c = is_digit c.
Proof. apply eqb_prop. revert c. apply forall_byte. vm_compute. reflexivity. Qed.
Lemma status_d1_spec c : inmask STATUS_D1 c = (49 <=? bN c) && (bN c <=? 53).
Proof. apply eqb_prop. revert c. apply forall_byte. vm_compute. reflexivity. Qed.
Lemma status_d2_spec c : inmask STATUS_D2 c = is_digit c.
Proof. apply eqb_prop. revert c. apply forall_byte. vm_compute. reflexivity. Qed.
Lemma status_d3_spec c : inmask STATUS_D3 c = is_digit c.
Proof. apply eqb_prop. revert c. apply forall_byte. vm_compute. reflexivity. Qed.
(* since fix D31 (9919e85) the reason class is blanks + every visible ASCII octet; word octets are among them *)
Lemma status_reason_spec c : inmask STATUS_REASON c = is_visible c || isws c.
Proof. apply eqb_prop. revert c. apply forall_byte. vm_compute. reflexivity. Qed.
Lemma word_visible c : is_word c = true -> is_visible c = true.
Proof. apply implb_true. revert c. apply forall_byte. vm_compute. reflexivity. Qed.

(* the method class contains the alphabet the property names ... *)
Lemma method_class_contains c : prop_method_char c = true -> inmask METHOD_CLASS c = true.
Proof.
  apply implb_true. revert c. apply forall_byte. vm_compute. reflexivity.
Qed.
(* ... and no blank, control or 8-bit octet (the class is wider than intended -- "$-_" is a range -- but stays inside visible ASCII) *)
Lemma method_class_excludes c : forbidden_method_char c = true -> inmask METHOD_CLASS c = false.
Proof.
  intros H. apply negb_true_iff. revert H. apply implb_true. revert c. apply forall_byte. vm_compute. reflexivity.
Qed.
Lemma method_len_bounds : METHOD_MINLEN = 1 /\ METHOD_MAXLEN = 20.
Proof. split; reflexivity. Qed.

Definition HTTP_SLASH : bytes := [x48; x54; x54; x50; x2f].
Definition DOT : bytes := [x2e].
Definition SP : bytes := [x20].
Definition CRLF : bytes := [x0d; x0a].

Lemma proto_prefix_lit : PROTO_PREFIX = HTTP_SLASH /\ PROTO_C_PREFIX = HTTP_SLASH.
Proof. vm_compute. split; reflexivity. Qed.
Lemma proto_dot_lit : PROTO_DOT = DOT /\ PROTO_C_SEP = DOT.
Proof. vm_compute. split; reflexivity. Qed.
Lemma compose_literals :
  STATUS_C_SEP = SP /\ RESP_C_SEP = SP /\ RESP_C_EOL = CRLF /\ REQ_C_SEP1 = SP /\ REQ_C_SEP2 = SP /\ REQ_C_EOL = CRLF.
Proof. vm_compute. repeat split; reflexivity. Qed.
Lemma server_protocol_lit : SERVER_PROTOCOL = (1, 1).
Proof. reflexivity. Qed.
Lemma status_codes_lit : CODE_VERSION_NOT_SUPPORTED = 505 /\ CODE_BAD_REQUEST = 400.
Proof. split; reflexivity. Qed.

Lemma digit_not_ws c : is_digit c = true -> isws c = false.
Proof.
  intros H. apply negb_true_iff. revert H. apply implb_true. revert c. apply forall_byte. vm_compute. reflexivity.
Qed.
Lemma prefix_no_ws : forallb (fun c => negb (isws c)) HTTP_SLASH = true.
Proof. vm_compute. reflexivity. Qed.
Lemma dot_facts : isws x2e = false /\ is_digit x2e = false.
Proof. vm_compute. split; reflexivity. Qed.
Lemma sp_crlf_ws : forallb isws SP = true /\ forallb isws CRLF = true.
Proof. vm_compute. split; reflexivity. Qed.
Lemma method_char_not_ws c : inmask METHOD_CLASS c = true -> isws c = false.
Proof.
  intros H. apply negb_true_iff. revert H. apply implb_true. revert c. apply forall_byte. vm_compute. reflexivity.
Qed.

(* ================================================================== decimal numbers *)

Lemma uint_digits_roundtrip u : uint_of_digits (digits_of_uint u) = u.
Proof.
  induction u; cbn [digits_of_uint uint_of_digits]; try rewrite IHu; reflexivity.
Qed.

Lemma dec_val_print n : dec_val (print_dec n) = n.
Proof. unfold dec_val, print_dec. rewrite uint_digits_roundtrip. apply DecimalN.Unsigned.of_to. Qed.

Lemma print_dec_inj a b : print_dec a = print_dec b -> a = b.
Proof. intros H. rewrite <- (dec_val_print a), <- (dec_val_print b), H. reflexivity. Qed.

Lemma digits_of_uint_digits u : forallb is_digit (digits_of_uint u) = true.
Proof. induction u; cbn [digits_of_uint forallb]; try rewrite IHu; reflexivity. Qed.

Lemma print_dec_digits n : forallb is_digit (print_dec n) = true.
Proof. apply digits_of_uint_digits. Qed.

Lemma print_dec_nonempty n : print_dec n <> [].
Proof.
  unfold print_dec. destruct n as [|p]; cbn [N.to_uint].
  - discriminate.
  - pose proof (DecimalPos.Unsigned.to_uint_nonnil p) as H.
    destruct (Pos.to_uint p); cbn [digits_of_uint]; try discriminate. contradiction.
Qed.

(* digit strings <-> uint *)
Lemma digits_uint_roundtrip ds : forallb is_digit ds = true -> digits_of_uint (uint_of_digits ds) = ds.
Proof.
  induction ds as [|c r IH]; cbn [forallb uint_of_digits]; [reflexivity|].
  intros H. apply andb_true_iff in H as [Hc Hr]. specialize (IH Hr).
  assert (G : forall c, is_digit c = true -> forall u, digits_of_uint (dcons (bN c - 48) u) = c :: digits_of_uint u).
  { clear. intros c H u.
    assert (E : implb (is_digit c) (bytes_eqb (digits_of_uint (dcons (bN c - 48) Nil)) [c]) = true).
    { revert c H. intros c _. revert c. apply forall_byte. vm_compute. reflexivity. }
    rewrite H in E. cbn [implb] in E. apply bytes_eqb_eq in E.
    destruct (bN c - 48) as [|p]; [exact (f_equal (fun l => match l with x :: _ => x :: digits_of_uint u | [] => [] end) E)|].
    do 4 (destruct p as [p|p|]; try exact (f_equal (fun l => match l with x :: _ => x :: digits_of_uint u | [] => [] end) E)). }
  rewrite G by exact Hc. rewrite IH. reflexivity.
Qed.

(* canonical decimal text: "0" or no leading zero *)
Definition canonical (ds : bytes) : bool :=
  match ds with
  | [] => false
  | [c] => true
  | c :: _ => negb (bN c =? 48)
  end.

Lemma print_dec_val ds : forallb is_digit ds = true -> canonical ds = true -> print_dec (dec_val ds) = ds.
Proof.
  intros Hd Hc. unfold print_dec, dec_val. rewrite DecimalN.Unsigned.to_of.
  rewrite <- (digits_uint_roundtrip ds Hd) at 2. f_equal.
  destruct ds as [|c r]; [discriminate|].
  cbn [forallb] in Hd. apply andb_true_iff in Hd as [Hc1 Hr].
  cbn [uint_of_digits].
  destruct (bN c =? 48) eqn:E.
  - (* the single digit 0 *)
    destruct r as [|c2 r2]; [|cbn [canonical] in Hc; rewrite E in Hc; discriminate].
    apply N.eqb_eq in E. rewrite E. reflexivity.
  - apply N.eqb_neq in E. unfold is_digit in Hc1. apply andb_true_iff in Hc1 as [H1 H2].
    apply N.leb_le in H1, H2.
    assert (K : exists k, bN c - 48 = k /\ 1 <= k <= 9) by (exists (bN c - 48); lia).
    destruct K as [k [-> Hk]].
    destruct k as [|p]; [lia|].
    do 4 (destruct p as [p|p|]; try reflexivity); lia.
Qed.

Lemma print_dec_canonical n : canonical (print_dec n) = true.
Proof.
  pose proof (print_dec_digits n) as Hd. pose proof (print_dec_nonempty n) as Hn.
  pose proof (dec_val_print n) as Hv.
  unfold print_dec in *. rewrite <- (DecimalN.Unsigned.of_to n) at 1. rewrite DecimalN.Unsigned.to_of.
  unfold unorm. pose proof (nzhead_nonzero (N.to_uint n)) as Hz.
  destruct (nzhead (N.to_uint n)) eqn:E; try reflexivity;
    try (cbn [digits_of_uint canonical]; match goal with |- context [digits_of_uint ?u] => destruct (digits_of_uint u); reflexivity end).
  exfalso. eapply Hz. reflexivity.
Qed.

(* ================================================================== strip / split *)

Arguments isws : simpl never.

Definition allws (l : bytes) : bool := forallb isws l.
Definition nows (l : bytes) : bool := forallb (fun c => negb (isws c)) l.
(* first / last octet is not blank (vacuously true of the empty string) *)
Definition head_nows (l : bytes) : bool := match l with c :: _ => negb (isws c) | [] => true end.
Definition rstripped (l : bytes) : bool := negb (isws (last l x41)).

Lemma x41_not_ws : isws x41 = false.
Proof. vm_compute. reflexivity. Qed.

Lemma nows_app a b : nows (a ++ b) = nows a && nows b.
Proof. apply forallb_app. Qed.
Lemma allws_app a b : allws (a ++ b) = allws a && allws b.
Proof. apply forallb_app. Qed.

Lemma lstrip_allws_app p l : allws p = true -> lstrip (p ++ l) = lstrip l.
Proof.
  induction p as [|c p IH]; cbn [app allws forallb lstrip]; [reflexivity|].
  intros H. apply andb_true_iff in H as [-> H]. apply IH, H.
Qed.
Lemma lstrip_head_nows l : head_nows l = true -> lstrip l = l.
Proof. destruct l as [|c r]; cbn; [reflexivity|]. intros H. apply negb_true_iff in H. rewrite H. reflexivity. Qed.

Lemma lstrip_decomp l : exists p, l = p ++ lstrip l /\ allws p = true /\ head_nows (lstrip l) = true.
Proof.
  induction l as [|c r [p [E [Hp Hh]]]]; [exists []; repeat split|].
  cbn [lstrip]. destruct (isws c) eqn:Ec.
  - exists (c :: p). cbn [app allws forallb]. rewrite Ec. cbn. repeat split; [congruence | exact Hp | exact Hh].
  - exists []. cbn [app allws forallb head_nows]. rewrite Ec. repeat split.
Qed.

Lemma last_app_single (l : bytes) z d : last (l ++ [z]) d = z.
Proof. apply last_last. Qed.

Lemma rstripped_cons c r : rstripped (c :: r) = true -> rstripped r = true.
Proof.
  unfold rstripped. destruct r as [|c2 r2]; [intros _; cbn; rewrite x41_not_ws; reflexivity|].
  cbn [last]. auto.
Qed.

Lemma allws_last l : l <> [] -> allws l = true -> isws (last l x41) = true.
Proof.
  induction l as [|c r IH]; [congruence|]. intros _ H. cbn [allws forallb] in H. apply andb_true_iff in H as [Hc Hr].
  destruct r as [|c2 r2]; [exact Hc|]. change (last (c :: c2 :: r2) x41) with (last (c2 :: r2) x41).
  apply IH; [discriminate | exact Hr].
Qed.

Lemma rstripped_allws l : rstripped l = true -> allws l = true -> l = [].
Proof.
  intros H1 H2. destruct l as [|c r]; [reflexivity|]. exfalso.
  unfold rstripped in H1. rewrite allws_last in H1; [discriminate | discriminate | exact H2].
Qed.

(* rstrip removes a blank suffix and nothing else *)
Lemma rstrip_decomp l : exists q, l = rstrip l ++ q /\ allws q = true /\ rstripped (rstrip l) = true.
Proof.
  unfold rstrip. destruct (lstrip_decomp (rev l)) as [p [E [Hp Hh]]].
  exists (rev p). repeat split.
  - rewrite <- rev_app_distr, <- E, rev_involutive. reflexivity.
  - unfold allws. rewrite forallb_forall. intros x Hx. apply in_rev in Hx.
    unfold allws in Hp. rewrite forallb_forall in Hp. apply Hp, Hx.
  - unfold rstripped. destruct (lstrip (rev l)) as [|c r]; [cbn; rewrite x41_not_ws; reflexivity|].
    cbn [rev]. rewrite last_app_single. exact Hh.
Qed.

Lemma rstrip_core l q : rstripped l = true -> allws q = true -> rstrip (l ++ q) = l.
Proof.
  intros Hl Hq. unfold rstrip. rewrite rev_app_distr.
  rewrite lstrip_allws_app.
  2:{ unfold allws in *. rewrite forallb_forall in *. intros x Hx. apply Hq, in_rev, Hx. }
  rewrite lstrip_head_nows; [apply rev_involutive|].
  destruct l as [|c r] using rev_ind; [reflexivity|].
  rewrite rev_app_distr. cbn. unfold rstripped in Hl. rewrite last_app_single in Hl. exact Hl.
Qed.

Lemma strip_core p l q :
  allws p = true -> allws q = true -> head_nows l = true -> rstripped l = true -> strip (p ++ l ++ q) = l.
Proof.
  intros Hp Hq Hh Hl. unfold strip. rewrite lstrip_allws_app by exact Hp.
  destruct l as [|c r].
  - cbn [app]. replace (lstrip q) with (@nil byte); [reflexivity|].
    clear -Hq. induction q as [|c q IH]; [reflexivity|]. cbn [allws forallb] in Hq. apply andb_true_iff in Hq as [Hc Hq].
    cbn [lstrip]. rewrite Hc. apply IH, Hq.
  - rewrite lstrip_head_nows; [apply rstrip_core; assumption|]. exact Hh.
Qed.

Lemma strip_decomp l : exists p q, l = p ++ strip l ++ q /\ allws p = true /\ allws q = true /\ rstripped (strip l) = true.
Proof.
  destruct (lstrip_decomp l) as [p [E [Hp _]]]. destruct (rstrip_decomp (lstrip l)) as [q [E2 [Hq Hr]]].
  exists p, q. unfold strip. repeat split; try assumption. rewrite <- E2. exact E.
Qed.

Lemma nows_rstripped l : nows l = true -> rstripped l = true.
Proof.
  unfold rstripped. induction l as [|c r IH]; [intros _; cbn; rewrite x41_not_ws; reflexivity|].
  intros H. cbn [nows forallb] in H. apply andb_true_iff in H as [Hc Hr].
  destruct r as [|c2 r2]; [exact Hc|]. exact (IH Hr).
Qed.
Lemma nows_head l : nows l = true -> head_nows l = true.
Proof. destruct l; cbn; [reflexivity|]. intros H. apply andb_true_iff in H as [H _]. exact H. Qed.
Lemma rstripped_app a b : b <> [] -> rstripped (a ++ b) = rstripped b.
Proof.
  intros Hb. unfold rstripped. f_equal. f_equal.
  induction a as [|c a IH]; [reflexivity|]. cbn [app]. rewrite <- IH.
  destruct (a ++ b) eqn:E; [apply app_eq_nil in E as [_ E]; congruence | reflexivity].
Qed.
Lemma head_nows_app a b : a <> [] -> head_nows (a ++ b) = head_nows a.
Proof. destruct a; [congruence | reflexivity]. Qed.

(* ---- computing split_ws / words on a string of known shape ---- *)

Lemma cons_head_length c (l : list bytes) : l <> [] -> List.length (cons_head c l) = List.length l.
Proof. destruct l; [congruence | reflexivity]. Qed.

Lemma split_inword k w c rest :
  nows w = true -> isws c = true ->
  split_ws_aux k true (w ++ c :: rest) = w :: split_ws_aux k false rest.
Proof.
  intros Hw Hc. induction w as [|a w IH]; cbn [app split_ws_aux].
  - rewrite Hc. reflexivity.
  - cbn [nows forallb] in Hw. apply andb_true_iff in Hw as [Ha Hw]. apply negb_true_iff in Ha.
    rewrite Ha, (IH Hw). reflexivity.
Qed.
Lemma split_inword_end k w : nows w = true -> split_ws_aux k true w = [w].
Proof.
  intros Hw. induction w as [|a w IH]; [reflexivity|].
  cbn [nows forallb] in Hw. apply andb_true_iff in Hw as [Ha Hw]. apply negb_true_iff in Ha.
  cbn [split_ws_aux]. rewrite Ha, (IH Hw). reflexivity.
Qed.
Lemma split_skip k p l : allws p = true -> split_ws_aux k false (p ++ l) = split_ws_aux k false l.
Proof.
  induction p as [|c p IH]; [reflexivity|]. intros H. cbn [allws forallb] in H. apply andb_true_iff in H as [Hc Hp].
  cbn [app split_ws_aux]. rewrite Hc. apply IH, Hp.
Qed.
Lemma split_word k w c rest :
  w <> [] -> nows w = true -> isws c = true ->
  split_ws_aux (S k) false (w ++ c :: rest) = w :: split_ws_aux k false rest.
Proof.
  intros Hn Hw Hc. destruct w as [|a w]; [congruence|].
  cbn [nows forallb] in Hw. apply andb_true_iff in Hw as [Ha Hw]. apply negb_true_iff in Ha.
  cbn [app split_ws_aux]. rewrite Ha, (split_inword k w c rest Hw Hc). reflexivity.
Qed.
Lemma split_word_end k w : w <> [] -> nows w = true -> split_ws_aux (S k) false w = [w].
Proof.
  intros Hn Hw. destruct w as [|a w]; [congruence|].
  cbn [nows forallb] in Hw. apply andb_true_iff in Hw as [Ha Hw]. apply negb_true_iff in Ha.
  cbn [split_ws_aux]. rewrite Ha, (split_inword_end k w Hw). reflexivity.
Qed.
Lemma split_rest l : l <> [] -> head_nows l = true -> split_ws_aux 0 false l = [l].
Proof.
  destruct l as [|a r]; [congruence|]. intros _ H. cbn in H. apply negb_true_iff in H.
  cbn [split_ws_aux]. rewrite H. reflexivity.
Qed.

Lemma words_inword w c rest :
  nows w = true -> isws c = true -> words_aux true (w ++ c :: rest) = w :: words_aux false rest.
Proof.
  intros Hw Hc. induction w as [|a w IH]; cbn [app words_aux].
  - rewrite Hc. reflexivity.
  - cbn [nows forallb] in Hw. apply andb_true_iff in Hw as [Ha Hw]. apply negb_true_iff in Ha.
    rewrite Ha, (IH Hw). reflexivity.
Qed.
Lemma words_inword_end w : nows w = true -> words_aux true w = [w].
Proof.
  intros Hw. induction w as [|a w IH]; [reflexivity|].
  cbn [nows forallb] in Hw. apply andb_true_iff in Hw as [Ha Hw]. apply negb_true_iff in Ha.
  cbn [words_aux]. rewrite Ha, (IH Hw). reflexivity.
Qed.
Lemma words_skip p l : allws p = true -> words_aux false (p ++ l) = words_aux false l.
Proof.
  induction p as [|c p IH]; [reflexivity|]. intros H. cbn [allws forallb] in H. apply andb_true_iff in H as [Hc Hp].
  cbn [app words_aux]. rewrite Hc. apply IH, Hp.
Qed.
Lemma words_word w c rest :
  w <> [] -> nows w = true -> isws c = true -> words_aux false (w ++ c :: rest) = w :: words_aux false rest.
Proof.
  intros Hn Hw Hc. destruct w as [|a w]; [congruence|].
  cbn [nows forallb] in Hw. apply andb_true_iff in Hw as [Ha Hw]. apply negb_true_iff in Ha.
  cbn [app words_aux]. rewrite Ha, (words_inword w c rest Hw Hc). reflexivity.
Qed.
Lemma words_word_end w : w <> [] -> nows w = true -> words_aux false w = [w].
Proof.
  intros Hn Hw. destruct w as [|a w]; [congruence|].
  cbn [nows forallb] in Hw. apply andb_true_iff in Hw as [Ha Hw]. apply negb_true_iff in Ha.
  cbn [words_aux]. rewrite Ha, (words_inword_end w Hw). reflexivity.
Qed.
Lemma words_allws inw q : allws q = true -> words_aux inw q = if inw then [[]] else [].
Proof.
  revert inw. induction q as [|c q IH]; intros inw H; [reflexivity|].
  cbn [allws forallb] in H. apply andb_true_iff in H as [Hc Hq].
  cbn [words_aux]. rewrite Hc, (IH false Hq). destruct inw; reflexivity.
Qed.
Lemma words_app_allws inw l q : allws q = true -> words_aux inw (l ++ q) = words_aux inw l.
Proof.
  intros Hq. revert inw. induction l as [|c l IH]; intros inw.
  - cbn [app]. rewrite (words_allws inw q Hq). destruct inw; reflexivity.
  - cbn [app words_aux]. rewrite !IH. reflexivity.
Qed.

Lemma words_aux_true_nonempty l : words_aux true l <> [].
Proof.
  induction l as [|c l IH]; cbn [words_aux]; [discriminate|].
  destruct (isws c); [discriminate|]. destruct (words_aux true l); [congruence | discriminate].
Qed.
Lemma split_aux_true_nonempty k l : split_ws_aux k true l <> [].
Proof.
  induction l as [|c l IH]; cbn [split_ws_aux]; [discriminate|].
  destruct (isws c); [discriminate|]. destruct (split_ws_aux k true l); [congruence | discriminate].
Qed.

(* the fields of a string do not depend on surrounding blanks *)
Lemma words_strip l : words (strip l) = words l.
Proof.
  destruct (strip_decomp l) as [p [q [E [Hp [Hq _]]]]]. unfold words. rewrite E at 2.
  rewrite words_skip by exact Hp. rewrite words_app_allws by exact Hq. reflexivity.
Qed.

(* ---- split(None, k) versus the unlimited split ---- *)

Lemma words_false_nil l : words_aux false l = [] -> allws l = true.
Proof.
  induction l as [|c l IH]; [reflexivity|]. cbn [words_aux allws forallb].
  destruct (isws c); [exact IH|].
  pose proof (words_aux_true_nonempty l). destruct (words_aux true l); [congruence | discriminate].
Qed.

Lemma words_true_single r w : words_aux true r = [w] -> rstripped r = true -> w = r /\ nows r = true.
Proof.
  revert w. induction r as [|c r IH]; intros w H Hr.
  - cbn in H. injection H as <-. split; reflexivity.
  - cbn [words_aux] in H. destruct (isws c) eqn:Ec.
    + injection H as <- H. apply words_false_nil in H. exfalso.
      assert (A : allws (c :: r) = true) by (cbn [allws forallb]; rewrite Ec; exact H).
      pose proof (rstripped_allws _ Hr A). discriminate.
    + pose proof (words_aux_true_nonempty r). destruct (words_aux true r) as [|h t] eqn:E; [congruence|].
      cbn [cons_head] in H. injection H as <- ->. destruct (IH h eq_refl (rstripped_cons _ _ Hr)) as [-> Hn].
      split; [reflexivity|]. cbn [nows forallb]. rewrite Ec. exact Hn.
Qed.

Lemma words_true_many r : (1 < List.length (words_aux true r))%nat -> existsb isws r = true.
Proof.
  intros H. destruct (existsb isws r) eqn:E; [reflexivity|]. exfalso.
  assert (N : nows r = true).
  { unfold nows. rewrite forallb_forall. intros x Hx. apply negb_true_iff.
    destruct (isws x) eqn:Ex; [|reflexivity].
    assert (existsb isws r = true) by (apply existsb_exists; exists x; split; assumption). congruence. }
  rewrite (words_inword_end r N) in H. cbn in H. lia.
Qed.

Definition bnat (b : bool) : nat := if b then 1%nat else 0%nat.

(* few enough fields: the limited split is the unlimited one *)
Lemma split_aux_le l : forall k inw, rstripped l = true ->
  (List.length (words_aux inw l) <= S k + bnat inw)%nat -> split_ws_aux k inw l = words_aux inw l.
Proof.
  induction l as [|c r IH]; intros k inw Hr Hl; [reflexivity|].
  pose proof (rstripped_cons _ _ Hr) as Hr'.
  cbn [split_ws_aux words_aux] in *. destruct inw, (isws c) eqn:Ec.
  - f_equal. apply IH; [exact Hr'|]. cbn [List.length bnat] in *. lia.
  - f_equal. apply IH; [exact Hr'|]. rewrite cons_head_length in Hl by apply words_aux_true_nonempty. exact Hl.
  - apply IH; [exact Hr' | exact Hl].
  - rewrite cons_head_length in Hl by apply words_aux_true_nonempty.
    destruct k as [|k'].
    + cbn [bnat] in Hl. pose proof (words_aux_true_nonempty r) as Hne.
      destruct (words_aux true r) as [|h [|h2 t]] eqn:E; [congruence| |cbn in Hl; lia].
      destruct (words_true_single r h E Hr') as [-> _]. reflexivity.
    + f_equal. apply IH; [exact Hr'|]. cbn [bnat] in *. lia.
Qed.

(* too many fields: the last item of the limited split contains a blank *)
Lemma split_aux_gt l : forall k inw,
  (S k + bnat inw < List.length (words_aux inw l))%nat ->
  exists pre rest, split_ws_aux k inw l = pre ++ [rest] /\ List.length pre = (k + bnat inw)%nat /\ existsb isws rest = true.
Proof.
  induction l as [|c r IH]; intros k inw Hl.
  - destruct inw; cbn in Hl; lia.
  - cbn [split_ws_aux words_aux] in *. destruct inw, (isws c) eqn:Ec.
    + cbn [List.length bnat] in Hl. destruct (IH k false) as [pre [rest [E [Hp Hx]]]]; [cbn [bnat]; lia|].
      exists ([] :: pre), rest. rewrite E. cbn [bnat] in *. repeat split; [cbn; lia | exact Hx].
    + rewrite cons_head_length in Hl by apply words_aux_true_nonempty.
      destruct (IH k true Hl) as [pre [rest [E [Hp Hx]]]]. cbn [bnat] in Hp.
      destruct pre as [|p0 pre]; [cbn in Hp; lia|].
      exists ((c :: p0) :: pre), rest. rewrite E. repeat split; [exact Hp | exact Hx].
    + apply IH, Hl.
    + rewrite cons_head_length in Hl by apply words_aux_true_nonempty. cbn [bnat] in Hl.
      destruct k as [|k'].
      * exists [], (c :: r). repeat split. cbn [existsb]. rewrite Ec. cbn [orb].
        apply words_true_many. lia.
      * destruct (IH k' true) as [pre [rest [E [Hp Hx]]]]; [cbn [bnat]; lia|]. cbn [bnat] in Hp.
        destruct pre as [|p0 pre]; [cbn in Hp; lia|].
        exists ((c :: p0) :: pre), rest. rewrite E. repeat split; [cbn in *; lia | exact Hx].
Qed.

(* one-step inversion of the limited split: first item, and what follows it *)
Lemma split_inword_inv k r h t :
  split_ws_aux k true r = h :: t ->
  exists r', r = h ++ r' /\ nows h = true /\
    ((r' = [] /\ t = []) \/ (exists d r'', r' = d :: r'' /\ isws d = true /\ t = split_ws_aux k false r'')).
Proof.
  revert h t. induction r as [|c r IH]; intros h t H.
  - cbn in H. injection H as <- <-. exists []. repeat split. left. split; reflexivity.
  - cbn [split_ws_aux] in H. destruct (isws c) eqn:Ec.
    + injection H as <- <-. exists (c :: r). repeat split. right. exists c, r. repeat split. exact Ec.
    + pose proof (split_aux_true_nonempty k r). destruct (split_ws_aux k true r) as [|h0 t0] eqn:E; [congruence|].
      cbn [cons_head] in H. injection H as <- <-.
      destruct (IH h0 t0 eq_refl) as [r' [E1 [Hn Hcase]]].
      exists r'. repeat split; [cbn [app]; congruence | cbn [nows forallb]; rewrite Ec; exact Hn | exact Hcase].
Qed.

Lemma split_word_inv k l h t :
  split_ws_aux (S k) false l = h :: t ->
  exists p r', l = p ++ h ++ r' /\ allws p = true /\ nows h = true /\ h <> [] /\
    ((r' = [] /\ t = []) \/ (exists d r'', r' = d :: r'' /\ isws d = true /\ t = split_ws_aux k false r'')).
Proof.
  induction l as [|c r IH]; intros H; [discriminate|].
  cbn [split_ws_aux] in H. destruct (isws c) eqn:Ec.
  - destruct (IH H) as [p [r' [E [Hp Hrest]]]]. exists (c :: p), r'.
    split; [cbn [app]; congruence|]. split; [cbn [allws forallb]; rewrite Ec; exact Hp | exact Hrest].
  - pose proof (split_aux_true_nonempty k r). destruct (split_ws_aux k true r) as [|h0 t0] eqn:E; [congruence|].
    cbn [cons_head] in H. injection H as <- <-.
    destruct (split_inword_inv k r h0 t0 E) as [r' [E1 [Hn Hcase]]].
    exists [], r'. repeat split; [cbn [app]; congruence | cbn [nows forallb]; rewrite Ec; exact Hn | discriminate | exact Hcase].
Qed.

Lemma split_rest_inv l x t :
  split_ws_aux 0 false l = x :: t -> exists p, l = p ++ x /\ allws p = true /\ head_nows x = true /\ x <> [] /\ t = [].
Proof.
  induction l as [|c r IH]; intros H; [discriminate|].
  cbn [split_ws_aux] in H. destruct (isws c) eqn:Ec.
  - destruct (IH H) as [p [E [Hp Hrest]]]. exists (c :: p). split; [cbn [app]; congruence|].
    split; [cbn [allws forallb]; rewrite Ec; exact Hp | exact Hrest].
  - injection H as <- <-. exists []. repeat split; [cbn; rewrite Ec; reflexivity | discriminate].
Qed.

(* ================================================================== Protocol.parse / compose *)

Lemma strip_prefix_app p l : strip_prefix p (p ++ l) = Some l.
Proof. induction p as [|a p IH]; [reflexivity|]. cbn [app strip_prefix]. rewrite beq_refl. exact IH. Qed.

Lemma strip_prefix_inv p : forall l r, strip_prefix p l = Some r -> l = p ++ r.
Proof.
  induction p as [|a p IH]; intros l r H; [cbn in H; injection H as ->; reflexivity|].
  destruct l as [|c l]; [discriminate|]. cbn [strip_prefix] in H.
  destruct (beq a c) eqn:E; [|discriminate]. apply beq_eq in E. subst c. cbn [app]. f_equal. apply IH, H.
Qed.

Definition stops (cls : N) (l : bytes) : bool := match l with c :: _ => negb (inmask cls c) | [] => true end.

Lemma span_spec cls l : l = fst (span cls l) ++ snd (span cls l) /\
  forallb (inmask cls) (fst (span cls l)) = true /\ stops cls (snd (span cls l)) = true.
Proof.
  induction l as [|c r [E [Ha Hs]]]; [repeat split|].
  cbn [span]. destruct (inmask cls c) eqn:Ec.
  - destruct (span cls r) as [a b]. cbn [fst snd] in *. repeat split; [cbn [app]; congruence | cbn [forallb]; rewrite Ec; exact Ha | exact Hs].
  - cbn [fst snd]. repeat split. cbn [stops]. rewrite Ec. reflexivity.
Qed.

Lemma span_app_stop cls ds l :
  forallb (inmask cls) ds = true -> stops cls l = true -> span cls (ds ++ l) = (ds, l).
Proof.
  intros Hd Hs. induction ds as [|c ds IH]; cbn [app].
  - destruct l as [|c l]; [reflexivity|]. cbn [span]. cbn [stops] in Hs. apply negb_true_iff in Hs. rewrite Hs. reflexivity.
  - cbn [forallb] in Hd. apply andb_true_iff in Hd as [Hc Hd]. cbn [span]. rewrite Hc, (IH Hd). reflexivity.
Qed.

Lemma span_all cls ds : forallb (inmask cls) ds = true -> span cls ds = (ds, []).
Proof. intros H. rewrite <- (app_nil_r ds) at 1. apply span_app_stop; [exact H | reflexivity]. Qed.

Lemma forallb_ext_eq {A} (f g : A -> bool) l : (forall x, f x = g x) -> forallb f l = forallb g l.
Proof. intros H. induction l as [|x l IH]; [reflexivity|]. cbn. rewrite H, IH. reflexivity. Qed.

Lemma digits_mask ds : forallb (inmask PROTO_DIGIT) ds = forallb is_digit ds.
Proof. apply forallb_ext_eq, proto_digit_spec. Qed.

Definition digit_string (ds : bytes) : bool := forallb is_digit ds && match ds with [] => false | _ => true end.
(* "HTTP/" major "." minor *)
Definition version_text (da db : bytes) : bytes := HTTP_SLASH ++ da ++ DOT ++ db.
Definition overflow (iv : variant) : presult := match iv with AsFound => PEscape | Repaired => PInvalid end.

Lemma digit_string_inv ds : digit_string ds = true -> forallb is_digit ds = true /\ exists c r, ds = c :: r.
Proof.
  unfold digit_string. intros H. apply andb_true_iff in H as [H1 H2]. split; [exact H1|].
  destruct ds as [|c r]; [discriminate|]. exists c, r. reflexivity.
Qed.

(* completeness: every text of the form HTTP/digits.digits is read as the two numbers *)
Lemma proto_parse_text iv da db :
  digit_string da = true -> digit_string db = true ->
  proto_parse iv (version_text da db) =
    if too_long da || too_long db then overflow iv else POk (dec_val da, dec_val db).
Proof.
  intros Ha Hb. destruct (digit_string_inv _ Ha) as [Da [ca [ra Ea]]]. destruct (digit_string_inv _ Hb) as [Db [cb [rb Eb]]].
  unfold proto_parse, version_text. rewrite (proj1 proto_prefix_lit), (proj1 proto_dot_lit).
  rewrite strip_prefix_app.
  rewrite (span_app_stop PROTO_DIGIT da (DOT ++ db)).
  2:{ rewrite digits_mask. exact Da. }
  2:{ cbn [DOT app stops]. rewrite proto_digit_spec. rewrite (proj2 dot_facts). reflexivity. }
  rewrite strip_prefix_app.
  rewrite (span_all PROTO_DIGIT db) by (rewrite digits_mask; exact Db).
  subst da db. destruct iv; reflexivity.
Qed.

(* soundness: whatever is not rejected as an invalid line has the form HTTP/digits.digits *)
Lemma proto_parse_inv iv s :
  proto_parse iv s <> PInvalid ->
  exists da db, s = version_text da db /\ digit_string da = true /\ digit_string db = true.
Proof.
  unfold proto_parse. rewrite (proj1 proto_prefix_lit), (proj1 proto_dot_lit).
  destruct (strip_prefix HTTP_SLASH s) as [r|] eqn:E1; [|congruence].
  apply strip_prefix_inv in E1.
  destruct (span_spec PROTO_DIGIT r) as [E2 [Ha _]]. destruct (span PROTO_DIGIT r) as [da r1]. cbn [fst snd] in *.
  destruct da as [|ca ra] eqn:Eda; [congruence|]. rewrite <- Eda in *.
  destruct (strip_prefix DOT r1) as [r2|] eqn:E3; [|congruence].
  apply strip_prefix_inv in E3.
  destruct (span_spec PROTO_DIGIT r2) as [E4 [Hb _]]. destruct (span PROTO_DIGIT r2) as [db r3]. cbn [fst snd] in *.
  destruct db as [|cb rb] eqn:Edb; [congruence|]. rewrite <- Edb in *.
  destruct r3; [|congruence]. intros _.
  exists da, db. unfold version_text, digit_string. rewrite digits_mask in Ha, Hb. rewrite Ha, Hb.
  rewrite app_nil_r in E4. subst r2 r1 r s. rewrite Eda, Edb. repeat split.
Qed.

Lemma version_text_nows da db : digit_string da = true -> digit_string db = true -> nows (version_text da db) = true.
Proof.
  intros Ha Hb. destruct (digit_string_inv _ Ha) as [Da _]. destruct (digit_string_inv _ Hb) as [Db _].
  unfold version_text. rewrite !nows_app. rewrite (prefix_no_ws : nows HTTP_SLASH = true).
  assert (G : forall ds, forallb is_digit ds = true -> nows ds = true).
  { intros ds H. unfold nows. rewrite forallb_forall in *. intros x Hx. rewrite digit_not_ws; [reflexivity | apply H, Hx]. }
  rewrite (G da Da), (G db Db). cbn [DOT nows forallb]. rewrite (proj1 dot_facts). reflexivity.
Qed.

(* a text containing a blank is never a version *)
Lemma proto_parse_ws iv s : existsb isws s = true -> proto_parse iv s = PInvalid.
Proof.
  intros H. destruct (proto_parse iv s) eqn:E; [reflexivity | |]; exfalso.
  all: destruct (proto_parse_inv iv s) as [da [db [-> [Ha Hb]]]]; [congruence|].
  all: pose proof (version_text_nows da db Ha Hb) as N; apply existsb_exists in H as [x [Hx Hw]].
  all: unfold nows in N; rewrite forallb_forall in N; specialize (N x Hx); rewrite Hw in N; discriminate.
Qed.

(* within the interpreter's digit limit *)
Definition fits (n : N) : bool := negb (too_long (print_dec n)).

Lemma print_dec_digit_string n : digit_string (print_dec n) = true.
Proof.
  unfold digit_string. rewrite print_dec_digits. pose proof (print_dec_nonempty n). destruct (print_dec n); [congruence | reflexivity].
Qed.

Lemma proto_compose_text v : proto_compose v = version_text (print_dec (fst v)) (print_dec (snd v)).
Proof. unfold proto_compose, version_text. rewrite (proj2 proto_prefix_lit), (proj2 proto_dot_lit). reflexivity. Qed.

(* compose then parse *)
Lemma proto_roundtrip iv v : fits (fst v) = true -> fits (snd v) = true -> proto_parse iv (proto_compose v) = POk v.
Proof.
  intros Ha Hb. rewrite proto_compose_text. rewrite proto_parse_text by apply print_dec_digit_string.
  unfold fits in *. apply negb_true_iff in Ha, Hb. rewrite Ha, Hb. cbn [orb]. rewrite !dec_val_print.
  destruct v; reflexivity.
Qed.

(* parse then compose: the same text for canonical decimals *)
Lemma proto_text_roundtrip iv da db :
  digit_string da = true -> digit_string db = true -> too_long da = false -> too_long db = false ->
  proto_parse iv (version_text da db) = POk (dec_val da, dec_val db) /\
  (canonical da = true -> canonical db = true -> proto_compose (dec_val da, dec_val db) = version_text da db).
Proof.
  intros Ha Hb La Lb. split.
  - rewrite proto_parse_text by assumption. rewrite La, Lb. reflexivity.
  - intros Ca Cb. rewrite proto_compose_text. cbn [fst snd].
    destruct (digit_string_inv _ Ha) as [Da _]. destruct (digit_string_inv _ Hb) as [Db _].
    rewrite !print_dec_val by assumption. reflexivity.
Qed.

Lemma proto_compose_nows v : nows (proto_compose v) = true.
Proof. rewrite proto_compose_text. apply version_text_nows; apply print_dec_digit_string. Qed.
Lemma proto_compose_nonempty v : proto_compose v <> [].
Proof. rewrite proto_compose_text. discriminate. Qed.

(* ================================================================== Method *)

Lemma method_parse_ok m : method_ok m = true -> method_parse m = Some m.
Proof. unfold method_parse. intros ->. reflexivity. Qed.

Lemma method_parse_inv m m' : method_parse m = Some m' -> m' = m /\ method_ok m = true.
Proof. unfold method_parse. destruct (method_ok m); [|discriminate]. intros H. injection H as <-. split; reflexivity. Qed.

(* the names the property speaks of: 1..20 letters, digits, '-', '_', '.', '$' *)
Definition prop_method (m : bytes) : bool :=
  forallb prop_method_char m && (1 <=? blen m) && (blen m <=? 20).

Lemma prop_method_ok m : prop_method m = true -> method_ok m = true.
Proof.
  unfold prop_method, method_ok. destruct method_len_bounds as [-> ->].
  intros H. apply andb_true_iff in H as [H H3]. apply andb_true_iff in H as [H1 H2].
  rewrite H2, H3, !andb_true_r. rewrite forallb_forall in *. intros x Hx. apply method_class_contains, H1, Hx.
Qed.

Lemma method_reject m c : In c m -> forbidden_method_char c = true -> method_parse m = None.
Proof.
  intros Hin Hc. unfold method_parse. destruct (method_ok m) eqn:E; [|reflexivity]. exfalso.
  unfold method_ok in E. apply andb_true_iff in E as [E _]. apply andb_true_iff in E as [E _].
  rewrite forallb_forall in E. specialize (E c Hin). rewrite (method_class_excludes c Hc) in E. discriminate.
Qed.

Lemma method_length_reject m : (List.length m = 0 \/ 20 < List.length m)%nat -> method_parse m = None.
Proof.
  intros H. unfold method_parse, method_ok. destruct method_len_bounds as [-> ->].
  assert (E : (1 <=? blen m) && (blen m <=? 20) = false).
  { unfold blen. destruct H as [H|H]; [rewrite H; reflexivity|]. apply andb_false_iff. right. apply N.leb_gt. lia. }
  rewrite <- andb_assoc, E, andb_false_r. reflexivity.
Qed.

Lemma method_ok_shape m : method_ok m = true -> nows m = true /\ m <> [].
Proof.
  unfold method_ok. destruct method_len_bounds as [-> ->]. intros H.
  apply andb_true_iff in H as [H _]. apply andb_true_iff in H as [H1 H2]. split.
  - unfold nows. rewrite forallb_forall in *. intros x Hx. rewrite (method_char_not_ws x (H1 x Hx)). reflexivity.
  - intros ->. cbn in H2. discriminate.
Qed.

(* ================================================================== Status *)

Definition three_digit_ok (n : N) : bool :=
  match print_dec n with
  | [a; b; c] => inmask STATUS_D1 a && inmask STATUS_D2 b && inmask STATUS_D3 c
  | _ => false
  end.

Lemma status_codes_print n : 100 <= n <= 599 -> three_digit_ok n = true.
Proof.
  intros H.
  assert (A : forallb three_digit_ok (map N.of_nat (seq 100 500)) = true) by (vm_compute; reflexivity).
  rewrite forallb_forall in A. apply A. rewrite <- (N2Nat.id n). apply in_map, in_seq. lia.
Qed.

Definition D1_LIST : bytes := [x31; x32; x33; x34; x35].
Definition DIGIT_LIST : bytes := [x30; x31; x32; x33; x34; x35; x36; x37; x38; x39].

Lemma d1_in a : inmask STATUS_D1 a = true -> In a D1_LIST.
Proof.
  intros H. assert (E : existsb (beq a) D1_LIST = true).
  { revert H. apply implb_true. revert a. apply forall_byte. vm_compute. reflexivity. }
  apply existsb_exists in E as [x [Hx E]]. apply beq_eq in E. subst. exact Hx.
Qed.
Lemma digit_in a : is_digit a = true -> In a DIGIT_LIST.
Proof.
  intros H. assert (E : existsb (beq a) DIGIT_LIST = true).
  { revert H. apply implb_true. revert a. apply forall_byte. vm_compute. reflexivity. }
  apply existsb_exists in E as [x [Hx E]]. apply beq_eq in E. subst. exact Hx.
Qed.

Definition code_text_ok (a b c : byte) : bool :=
  let n := dec_val [a; b; c] in (100 <=? n) && (n <=? 599) && bytes_eqb (print_dec n) [a; b; c].

Lemma status_code_range a b c :
  inmask STATUS_D1 a = true -> inmask STATUS_D2 b = true -> inmask STATUS_D3 c = true ->
  100 <= dec_val [a; b; c] <= 599 /\ print_dec (dec_val [a; b; c]) = [a; b; c].
Proof.
  intros Ha Hb Hc. rewrite status_d2_spec in Hb. rewrite status_d3_spec in Hc.
  assert (A : forallb (fun a => forallb (fun b => forallb (code_text_ok a b) DIGIT_LIST) DIGIT_LIST) D1_LIST = true)
    by (vm_compute; reflexivity).
  rewrite forallb_forall in A. specialize (A a (d1_in a Ha)).
  rewrite forallb_forall in A. specialize (A b (digit_in b Hb)).
  rewrite forallb_forall in A. specialize (A c (digit_in c Hc)).
  unfold code_text_ok in A. apply andb_true_iff in A as [A A3]. apply andb_true_iff in A as [A1 A2].
  apply N.leb_le in A1, A2. apply bytes_eqb_eq in A3. split; [split|]; assumption.
Qed.

(* what Status.parse accepts as a reason: octets of the reason class (visible ASCII and blanks), not starting with a blank
   (leading blanks belong to the separator) *)
Definition reason_ok (r : bytes) : bool := forallb (inmask STATUS_REASON) r && head_nows r.

Lemma stops_sep r : head_nows r = true -> stops STATUS_SEP r = true.
Proof. destruct r as [|c r]; [reflexivity|]. cbn [head_nows stops]. intros H. rewrite status_sep_spec. exact H. Qed.

Lemma status_roundtrip code reason :
  100 <= code <= 599 -> reason_ok reason = true -> status_parse (status_compose code reason) = Some (code, reason).
Proof.
  intros Hc Hr. unfold reason_ok in Hr. apply andb_true_iff in Hr as [Hr1 Hr2].
  pose proof (status_codes_print code Hc) as H3. unfold three_digit_ok in H3.
  pose proof (dec_val_print code) as Hv.
  unfold status_compose. destruct compose_literals as [-> _].
  destruct (print_dec code) as [|a [|b [|c [|d t]]]]; try discriminate.
  cbn [app SP]. unfold status_parse. rewrite H3.
  change (x20 :: reason) with ([x20] ++ reason).
  rewrite (span_app_stop STATUS_SEP [x20] reason); [|reflexivity | apply stops_sep, Hr2].
  rewrite Hr1, Hv. reflexivity.
Qed.

Lemma status_parse_inv s code reason :
  status_parse s = Some (code, reason) ->
  exists a b c sep, s = [a; b; c] ++ sep ++ reason /\ sep <> [] /\ allws sep = true /\ reason_ok reason = true /\
    code = dec_val [a; b; c] /\ 100 <= code <= 599 /\ print_dec code = [a; b; c].
Proof.
  unfold status_parse. destruct s as [|a [|b [|c r]]]; try discriminate.
  destruct (inmask STATUS_D1 a) eqn:Ha; [|discriminate].
  destruct (inmask STATUS_D2 b) eqn:Hb; [|discriminate].
  destruct (inmask STATUS_D3 c) eqn:Hc; [|discriminate]. cbn [andb].
  destruct (span_spec STATUS_SEP r) as [E [Hs Hst]]. destruct (span STATUS_SEP r) as [sep rs]. cbn [fst snd] in *.
  destruct sep as [|s0 sep'] eqn:Esep; [discriminate|]. rewrite <- Esep in *.
  destruct (forallb (inmask STATUS_REASON) rs) eqn:Hr; [|discriminate].
  intros H. injection H as <- <-.
  destruct (status_code_range a b c Ha Hb Hc) as [Hrange Hprint].
  exists a, b, c, sep. repeat split; try assumption; try tauto.
  - cbn [app]. rewrite E. reflexivity.
  - rewrite Esep. discriminate.
  - unfold reason_ok. rewrite Hr. cbn [andb]. destruct rs as [|c0 rs']; [reflexivity|].
    cbn [stops head_nows] in *. rewrite <- status_sep_spec. exact Hst.
Qed.

(* a status text without a blank is rejected *)
Lemma status_parse_nows s : nows s = true -> status_parse s = None.
Proof.
  intros N. destruct (status_parse s) as [[code reason]|] eqn:E; [|reflexivity]. exfalso.
  destruct (status_parse_inv s code reason E) as [a [b [c [sep [-> [Hne [Hws _]]]]]]].
  destruct sep as [|x sep]; [congruence|]. cbn [allws forallb] in Hws. apply andb_true_iff in Hws as [Hx _].
  rewrite !nows_app in N. apply andb_true_iff in N as [_ N]. apply andb_true_iff in N as [N _].
  cbn [nows forallb] in N. rewrite Hx in N. discriminate.
Qed.

(* a decimal number outside 100..599 followed by a separator is never accepted *)
Lemma status_reject_code n sep rest :
  head_nows sep = false -> (n < 100 \/ 599 < n) -> status_parse (print_dec n ++ sep ++ rest) = None.
Proof.
  intros Hsep Hn. destruct (status_parse (print_dec n ++ sep ++ rest)) as [[code reason]|] eqn:E; [|reflexivity]. exfalso.
  destruct (status_parse_inv _ code reason E) as [a [b [c [sep' [Es [Hne [Hws [_ [Hcode [Hrange Hprint]]]]]]]]]].
  assert (S1 : span PROTO_DIGIT (print_dec n ++ sep ++ rest) = (print_dec n, sep ++ rest)).
  { apply span_app_stop; [rewrite digits_mask; apply print_dec_digits|].
    destruct sep as [|x sep]; [discriminate|]. cbn [app stops head_nows] in *. apply negb_false_iff in Hsep.
    rewrite proto_digit_spec. destruct (is_digit x) eqn:Ex; [|reflexivity]. rewrite (digit_not_ws x Ex) in Hsep. discriminate. }
  assert (S2 : span PROTO_DIGIT ([a; b; c] ++ sep' ++ reason) = ([a; b; c], sep' ++ reason)).
  { apply span_app_stop; [rewrite digits_mask, <- Hprint; apply print_dec_digits|].
    destruct sep' as [|x sep']; [congruence|]. cbn [allws forallb] in Hws. apply andb_true_iff in Hws as [Hx _].
    cbn [app stops]. rewrite proto_digit_spec. destruct (is_digit x) eqn:Ex; [|reflexivity]. rewrite (digit_not_ws x Ex) in Hx. discriminate. }
  rewrite Es in S1. rewrite S1 in S2. injection S2 as S2 _. rewrite <- Hprint in S2. apply print_dec_inj in S2. lia.
Qed.

(* ================================================================== request line *)

(* the line parser is a function of the blank-separated fields of the line alone *)
Theorem req_parse_words iv line : req_parse iv line = req_of_fields iv (words line).
Proof.
  unfold req_parse. destruct (strip_decomp line) as [p [q [E [Hp [Hq Hr]]]]].
  rewrite <- (words_strip line). set (s := strip line) in *.
  destruct (Nat.leb (List.length (words s)) 3) eqn:L.
  - apply Nat.leb_le in L. unfold split_ws, words in *. rewrite (split_aux_le s 2 false Hr); [reflexivity|]. cbn [bnat]. lia.
  - apply Nat.leb_gt in L. unfold split_ws, words in *.
    destruct (split_aux_gt s 2 false) as [pre [rest [Es [Hl Hx]]]]; [cbn [bnat]; lia|].
    rewrite Es. destruct pre as [|a [|b [|c pre]]]; cbn in Hl; try lia.
    cbn [app req_of_fields]. rewrite (proto_parse_ws iv rest Hx).
    destruct (words_aux false s) as [|x1 [|x2 [|x3 [|x4 t]]]]; cbn in L; try lia. reflexivity.
Qed.

Definition req_outcome (m u : bytes) (v : version) : rq_result :=
  if startswith SLASH2 u then RqInvalidURI else RqTarget m (if bytes_eqb m CONNECT then SLASH2 ++ u else u) v.

(* a request target as it appears on the wire: non-empty, no blank *)
Definition token_ok (u : bytes) : bool := nows u && match u with [] => false | _ => true end.

Lemma x20_ws : isws x20 = true.
Proof. vm_compute. reflexivity. Qed.

Lemma req_compose_lit m u v : req_compose m u v = m ++ SP ++ u ++ SP ++ proto_compose v ++ CRLF.
Proof.
  unfold req_compose, method_compose. destruct compose_literals as [_ [_ [_ [-> [-> ->]]]]]. reflexivity.
Qed.

Lemma req_compose_words m u v :
  method_ok m = true -> token_ok u = true -> words (req_compose m u v) = [m; u; proto_compose v].
Proof.
  intros Hm Hu. destruct (method_ok_shape m Hm) as [Nm Em].
  unfold token_ok in Hu. apply andb_true_iff in Hu as [Nu Eu]. assert (Eu' : u <> []) by (destruct u; [discriminate | discriminate]).
  rewrite req_compose_lit. unfold words, SP. cbn [app].
  rewrite (words_word m x20 _ Em Nm x20_ws). rewrite (words_word u x20 _ Eu' Nu x20_ws).
  rewrite words_app_allws by apply sp_crlf_ws.
  rewrite (words_word_end _ (proto_compose_nonempty v) (proto_compose_nows v)). reflexivity.
Qed.

(* compose then parse: method, target and version come back *)
Theorem req_roundtrip iv m u v :
  method_ok m = true -> token_ok u = true -> fits (fst v) = true -> fits (snd v) = true ->
  req_parse iv (req_compose m u v) = req_outcome m u v.
Proof.
  intros Hm Hu Ha Hb. rewrite req_parse_words, (req_compose_words m u v Hm Hu).
  cbn [req_of_fields]. rewrite (proto_roundtrip iv v Ha Hb), (method_parse_ok m Hm). reflexivity.
Qed.

(* soundness: what is handed on to the URI parser comes from a line with exactly three fields,
   a valid method and a version of the form HTTP/digits.digits *)
Theorem req_parse_sound iv line m t v :
  req_parse iv line = RqTarget m t v ->
  exists u vt, words line = [m; u; vt] /\ method_ok m = true /\ proto_parse iv vt = POk v /\
    startswith SLASH2 u = false /\ t = (if bytes_eqb m CONNECT then SLASH2 ++ u else u).
Proof.
  rewrite req_parse_words. destruct (words line) as [|m0 [|u [|vt [|x t0]]]]; cbn [req_of_fields]; try discriminate.
  destruct (proto_parse iv vt) as [| |v0] eqn:Ev; try discriminate.
  destruct (method_parse m0) as [m1|] eqn:Em; [|discriminate].
  destruct (method_parse_inv _ _ Em) as [-> Hm].
  destruct (startswith SLASH2 u) eqn:Es; [discriminate|].
  intros H. injection H as <- <- <-. exists u, vt. repeat split; assumption.
Qed.

Theorem req_reject_field_count iv line : nwords line <> 3%nat -> req_parse iv line = RqInvalidLine.
Proof.
  unfold nwords. rewrite req_parse_words. intros H.
  destruct (words line) as [|m0 [|u [|vt [|x t0]]]]; cbn [req_of_fields]; try reflexivity. cbn in H. congruence.
Qed.

Lemma words_items_nows inw l w : In w (words_aux inw l) -> nows w = true.
Proof.
  revert inw w. induction l as [|c l IH]; intros inw w H.
  - destruct inw; cbn in H; [destruct H as [<-|[]]; reflexivity | contradiction].
  - cbn [words_aux] in H. destruct (isws c) eqn:Ec.
    + destruct inw; [destruct H as [<-|H]; [reflexivity|] |]; eapply IH; exact H.
    + pose proof (words_aux_true_nonempty l). destruct (words_aux true l) as [|h t] eqn:E; [congruence|].
      cbn [cons_head] in H. destruct H as [<-|H].
      * cbn [nows forallb]. rewrite Ec. apply (IH true h). rewrite E. left. reflexivity.
      * apply (IH true w). rewrite E. right. exact H.
Qed.

Lemma proto_parse_no_escape s : proto_parse Repaired s <> PEscape.
Proof.
  unfold proto_parse. destruct (strip_prefix PROTO_PREFIX s) as [r|]; [|discriminate].
  destruct (span PROTO_DIGIT r) as [da r1]. destruct da; [discriminate|].
  destruct (strip_prefix PROTO_DOT r1) as [r2|]; [|discriminate]. destruct (span PROTO_DIGIT r2) as [db r3].
  destruct db; [discriminate|]. destruct r3; [|discriminate]. destruct (_ || _); discriminate.
Qed.

(* "rejected": InvalidLine -- or, on the tree as found, the ValueError of finding D40 when the line carries an over-long version number *)
Definition rq_rejected (iv : variant) (r : rq_result) : Prop := r = RqInvalidLine \/ (iv = AsFound /\ r = RqEscape).
Definition rs_rejected (iv : variant) (r : rs_result) : Prop := r = RsInvalidLine \/ (iv = AsFound /\ r = RsEscape).

Lemma proto_parse_cases iv s : (exists v, proto_parse iv s = POk v) \/ proto_parse iv s = PInvalid \/ (iv = AsFound /\ proto_parse iv s = PEscape).
Proof.
  destruct (proto_parse iv s) eqn:E; [right; left; reflexivity | | left; eexists; reflexivity].
  right; right. split; [|reflexivity]. destruct iv; [reflexivity|]. exfalso. exact (proto_parse_no_escape s E).
Qed.

Theorem req_reject_method_octet iv line m c :
  nth_error (words line) 0 = Some m -> In c m -> forbidden_method_char c = true -> rq_rejected iv (req_parse iv line).
Proof.
  intros Hw Hin Hc. rewrite req_parse_words. unfold rq_rejected.
  destruct (words line) as [|m0 [|u [|vt [|x t0]]]]; cbn [req_of_fields]; auto.
  cbn in Hw. injection Hw as ->. destruct (proto_parse_cases iv vt) as [[v ->]|[->|[-> ->]]]; auto.
  rewrite (method_reject m c Hin Hc). auto.
Qed.

(* ================================================================== status line *)

Lemma resp_compose_lit v code reason :
  resp_compose v code reason = proto_compose v ++ SP ++ (print_dec code ++ SP ++ reason) ++ CRLF.
Proof.
  unfold resp_compose, status_compose. destruct compose_literals as [-> [-> [-> _]]]. reflexivity.
Qed.

(* reason phrase on a status line: octets of the reason class, non-empty, neither starting nor ending with a blank *)
Definition line_reason_ok (r : bytes) : bool :=
  reason_ok r && rstripped r && match r with [] => false | _ => true end.

(* the phrases the property speaks of: non-empty words separated by single spaces *)
Fixpoint words_phrase (inw : bool) (r : bytes) : bool :=
  match r with
  | [] => inw
  | c :: r' => if is_word c then words_phrase true r' else (bN c =? 32) && inw && words_phrase false r'
  end.

Lemma words_phrase_ok r : words_phrase false r = true -> line_reason_ok r = true.
Proof.
  intros H. unfold line_reason_ok, reason_ok.
  assert (W : forall c, is_word c = true -> isws c = false).
  { intros c Hc. apply negb_true_iff. revert Hc. apply implb_true. revert c. apply forall_byte. vm_compute. reflexivity. }
  assert (S : forall c, (bN c =? 32) = true -> isws c = true).
  { intros c Hc. revert Hc. apply implb_true. revert c. apply forall_byte. vm_compute. reflexivity. }
  assert (A : forall r inw, words_phrase inw r = true ->
    forallb (inmask STATUS_REASON) r = true /\ (inw = false -> head_nows r = true /\ r <> []) /\ rstripped r = true).
  { clear H. induction r0 as [|c r' IH]; intros inw H.
    - cbn in H. subst inw. split; [reflexivity|]. split; [intros F; discriminate|].
      unfold rstripped. cbn. rewrite x41_not_ws. reflexivity.
    - cbn [words_phrase] in H. destruct (is_word c) eqn:Ec.
      + destruct (IH true H) as [H1 [_ H3]]. split; [|split].
        * cbn [forallb]. rewrite status_reason_spec, (word_visible c Ec), H1. reflexivity.
        * intros _. split; [|discriminate]. cbn [head_nows]. rewrite (W c Ec). reflexivity.
        * unfold rstripped in *. destruct r' as [|c2 r2]; [cbn; rewrite (W c Ec); reflexivity | exact H3].
      + apply andb_true_iff in H as [H H2]. apply andb_true_iff in H as [Hs Hi]. subst inw.
        destruct (IH false H2) as [H1 [H0 H3]]. destruct (H0 eq_refl) as [_ Hne]. split; [|split].
        * cbn [forallb]. rewrite status_reason_spec, (S c Hs), H1, orb_true_r. reflexivity.
        * intros F. discriminate.
        * unfold rstripped in *. destruct r' as [|c2 r2]; [congruence | exact H3]. }
  destruct (A r false H) as [H1 [H2 H3]]. destruct (H2 eq_refl) as [H4 H5].
  rewrite H1, H4, H3. destruct r; [congruence | reflexivity].
Qed.

Theorem resp_roundtrip iv v code reason :
  fits (fst v) = true -> fits (snd v) = true -> 100 <= code <= 599 -> line_reason_ok reason = true ->
  resp_parse iv (resp_compose v code reason) = RsOk v code reason.
Proof.
  intros Ha Hb Hc Hr. unfold line_reason_ok in Hr. apply andb_true_iff in Hr as [Hr Hne]. apply andb_true_iff in Hr as [Hok Hrs].
  assert (Ene : reason <> []) by (destruct reason; [discriminate | discriminate]).
  unfold resp_parse. rewrite resp_compose_lit.
  set (st := print_dec code ++ SP ++ reason).
  assert (Hst : st <> []) by (unfold st; pose proof (print_dec_nonempty code); destruct (print_dec code); [congruence | discriminate]).
  assert (Hh : head_nows st = true).
  { unfold st. rewrite head_nows_app by apply print_dec_nonempty. apply nows_head.
    pose proof (print_dec_digits code) as D. unfold nows. rewrite forallb_forall in *. intros x Hx. rewrite (digit_not_ws x (D x Hx)). reflexivity. }
  replace (proto_compose v ++ SP ++ st ++ CRLF) with ([] ++ (proto_compose v ++ SP ++ st) ++ CRLF)
    by (cbn [app]; rewrite <- !app_assoc; reflexivity).
  rewrite strip_core; [|reflexivity | apply sp_crlf_ws | |].
  - unfold split_ws, SP. cbn [app].
    rewrite (split_word 0 _ x20 st (proto_compose_nonempty v) (proto_compose_nows v) x20_ws).
    rewrite (split_rest st Hst Hh). cbn [resp_of_fields].
    rewrite (proto_roundtrip iv v Ha Hb). unfold st. fold (status_compose code reason).
    replace (print_dec code ++ SP ++ reason) with (status_compose code reason)
      by (unfold status_compose; destruct compose_literals as [-> _]; reflexivity).
    rewrite (status_roundtrip code reason Hc Hok). reflexivity.
  - rewrite head_nows_app by apply proto_compose_nonempty. apply nows_head, proto_compose_nows.
  - rewrite app_assoc. rewrite rstripped_app by exact Hst. unfold st. rewrite app_assoc. rewrite rstripped_app by exact Ene. exact Hrs.
Qed.

(* soundness: an accepted status line is  blanks version blanks status blanks *)
Theorem resp_parse_sound iv line v code reason :
  resp_parse iv line = RsOk v code reason ->
  exists p vt w st q, line = p ++ vt ++ w ++ st ++ q /\ allws p = true /\ allws w = true /\ w <> [] /\ allws q = true /\
    proto_parse iv vt = POk v /\ status_parse st = Some (code, reason).
Proof.
  unfold resp_parse. destruct (strip_decomp line) as [p [q [E [Hp [Hq Hr]]]]].
  set (s := strip line) in *. unfold split_ws.
  destruct (split_ws_aux 1 false s) as [|vt [|st [|x t]]] eqn:Es; cbn [resp_of_fields]; try discriminate.
  destruct (proto_parse iv vt) as [| |v0] eqn:Ev; try discriminate.
  destruct (status_parse st) as [[c0 r0]|] eqn:Est; [|discriminate].
  intros H. injection H as <- <- <-.
  destruct (split_word_inv 0 s vt [st] Es) as [p1 [r' [E1 [Hp1 [Nvt [_ Hcase]]]]]].
  destruct Hcase as [[_ Habs]|[d [r'' [-> [Hd Et]]]]]; [discriminate|].
  symmetry in Et. destruct (split_rest_inv r'' st [] Et) as [p2 [-> [Hp2 _]]].
  exists (p ++ p1), vt, (d :: p2), st, q. repeat split; try assumption.
  - rewrite E, E1. repeat (rewrite <- ?app_assoc; cbn [app]). reflexivity.
  - rewrite allws_app, Hp, Hp1. reflexivity.
  - cbn [allws forallb]. rewrite Hd. exact Hp2.
  - discriminate.
Qed.

Theorem resp_reject_field_count iv line : (nwords line < 3)%nat -> rs_rejected iv (resp_parse iv line).
Proof.
  unfold nwords, resp_parse. intros H. destruct (strip_decomp line) as [p [q [E [Hp [Hq Hr]]]]].
  rewrite <- (words_strip line) in H. set (s := strip line) in *.
  unfold split_ws, words in *. rewrite (split_aux_le s 1 false Hr) by (cbn [bnat]; lia).
  pose proof (words_items_nows false s) as Hn.
  unfold rs_rejected.
  destruct (words_aux false s) as [|vt [|st [|x t]]]; cbn [resp_of_fields]; auto.
  destruct (proto_parse_cases iv vt) as [[v ->]|[->|[-> ->]]]; auto.
  rewrite status_parse_nows; [auto|]. apply Hn. right. left. reflexivity.
Qed.

(* ================================================================== version order *)

Lemma ver_eqb_eq x y : ver_eqb x y = true <-> x = y.
Proof.
  destruct x as [a b], y as [c d]. unfold ver_eqb. cbn [fst snd]. rewrite andb_true_iff, !N.eqb_eq.
  split; [intros [-> ->]; reflexivity | intros H; injection H as -> ->; split; reflexivity].
Qed.

Lemma ver_ltb_spec x y : ver_ltb x y = true <-> (fst x < fst y \/ (fst x = fst y /\ snd x < snd y)).
Proof.
  unfold ver_ltb. rewrite orb_true_iff, andb_true_iff, !N.ltb_lt, N.eqb_eq. reflexivity.
Qed.

Lemma ver_ltb_irrefl x : ver_ltb x x = false.
Proof. destruct (ver_ltb x x) eqn:E; [|reflexivity]. apply ver_ltb_spec in E. lia. Qed.

Lemma ver_ltb_trans x y z : ver_ltb x y = true -> ver_ltb y z = true -> ver_ltb x z = true.
Proof. rewrite !ver_ltb_spec. lia. Qed.

Lemma ver_ltb_asym x y : ver_ltb x y = true -> ver_ltb y x = false.
Proof. intros H. destruct (ver_ltb y x) eqn:E; [|reflexivity]. apply ver_ltb_spec in H, E. lia. Qed.

(* exactly one of  x < y,  x == y,  y < x *)
Lemma ver_trichotomy x y :
  (ver_ltb x y = true /\ ver_eqb x y = false /\ ver_ltb y x = false) \/
  (ver_ltb x y = false /\ ver_eqb x y = true /\ ver_ltb y x = false) \/
  (ver_ltb x y = false /\ ver_eqb x y = false /\ ver_ltb y x = true).
Proof.
  destruct x as [a b], y as [c d]. unfold ver_ltb, ver_eqb. cbn [fst snd].
  destruct (a <? c) eqn:E1; destruct (a =? c) eqn:E2; destruct (c <? a) eqn:E3;
  destruct (b <? d) eqn:E4; destruct (b =? d) eqn:E5; destruct (d <? b) eqn:E6;
  rewrite ?(N.eqb_sym c a), ?E2, ?(N.eqb_sym d b), ?E5; cbn; auto;
  exfalso;
  repeat match goal with
  | H : (_ <? _) = true |- _ => apply N.ltb_lt in H
  | H : (_ <? _) = false |- _ => apply N.ltb_ge in H
  | H : (_ =? _) = true |- _ => apply N.eqb_eq in H
  | H : (_ =? _) = false |- _ => apply N.eqb_neq in H
  end; lia.
Qed.

(* the six operators against another Protocol are the six relations of the lexicographic order *)
Lemma proto_ops_ver iv p q :
  proto_eq iv p (OVer q) = CB (ver_eqb p q) /\
  proto_ne iv p (OVer q) = CB (negb (ver_eqb p q)) /\
  proto_lt iv p (OVer q) = CB (ver_ltb p q) /\
  proto_le iv p (OVer q) = CB (ver_ltb p q || ver_eqb p q) /\
  proto_gt iv p (OVer q) = CB (ver_ltb q p) /\
  proto_ge iv p (OVer q) = CB (ver_ltb q p || ver_eqb p q).
Proof.
  unfold proto_ne, proto_le, proto_ge, proto_eq, proto_lt, proto_gt.
  destruct (ver_trichotomy p q) as [[-> [-> ->]]|[[-> [-> ->]]|[-> [-> ->]]]]; repeat split; reflexivity.
Qed.

Definition op6 (iv : variant) (p : version) (o : operand) : list cres :=
  [proto_eq iv p o; proto_ne iv p o; proto_lt iv p o; proto_le iv p o; proto_gt iv p o; proto_ge iv p o].

(* ... and the same against a tuple and against the version's text *)
Lemma proto_ops_tuple iv p q : op6 iv p (OTuple q) = op6 iv p (OVer q).
Proof. reflexivity. Qed.

Lemma proto_ops_text iv p q : fits (fst q) = true -> fits (snd q) = true -> op6 iv p (OText (proto_compose q)) = op6 iv p (OVer q).
Proof.
  intros Ha Hb. unfold op6, proto_ne, proto_le, proto_ge, proto_eq, proto_lt, proto_gt.
  rewrite (proto_roundtrip iv q Ha Hb). reflexivity.
Qed.

(* text that is not a version: == is false, != is true, the order operators re-raise InvalidLine *)
Lemma proto_ops_malformed iv p s : proto_parse iv s = PInvalid ->
  op6 iv p (OText s) = [CB false; CB true; CInvalid; CInvalid; CInvalid; CInvalid].
Proof. intros H. unfold op6, proto_ne, proto_le, proto_ge, proto_eq, proto_lt, proto_gt. rewrite H. reflexivity. Qed.

(* ================================================================== negotiation *)

Definition ver_leb (x y : version) : bool := negb (ver_ltb y x).

Lemma negotiate_spec server v :
  negotiate server v = if ver_leb v server then NResp v else NHttp CODE_VERSION_NOT_SUPPORTED.
Proof. unfold negotiate, ver_leb. destruct (ver_ltb server v); reflexivity. Qed.

Lemma negotiate_major server v : fst server < fst v -> negotiate server v = NHttp 505.
Proof.
  intros H. unfold negotiate. replace (ver_ltb server v) with true; [reflexivity|].
  symmetry. apply ver_ltb_spec. left. exact H.
Qed.

(* the response version is the lower of the two whenever a response is made *)
Lemma negotiate_lower server v r : negotiate server v = NResp r ->
  r = v /\ ver_leb r server = true /\ ver_leb r v = true.
Proof.
  rewrite negotiate_spec. destruct (ver_leb v server) eqn:E; [|discriminate]. intros H. injection H as <-.
  repeat split; [exact E|]. unfold ver_leb. rewrite ver_ltb_irrefl. reflexivity.
Qed.

Theorem server_roundtrip iv m u v :
  method_ok m = true -> token_ok u = true -> startswith SLASH2 u = false -> fits (fst v) = true -> fits (snd v) = true ->
  server_startline iv (req_compose m u v) =
    if ver_leb v SERVER_PROTOCOL then SOk m v v else SHttp CODE_VERSION_NOT_SUPPORTED.
Proof.
  intros Hm Hu Hs Ha Hb. unfold server_startline. rewrite (req_roundtrip iv m u v Hm Hu Ha Hb).
  unfold req_outcome. rewrite Hs, negotiate_spec. destruct (ver_leb v SERVER_PROTOCOL); reflexivity.
Qed.

(* malformed request lines are answered with 400 by the server (or escape, finding D40) *)
Lemma server_reject iv line : rq_rejected iv (req_parse iv line) ->
  server_startline iv line = SHttp 400 \/ (iv = AsFound /\ server_startline iv line = SEscape).
Proof. unfold server_startline. intros [->|[-> ->]]; [left | right; split]; reflexivity. Qed.

(* ================================================================== finding D40: over-long version numbers *)

Definition OVERLONG : bytes := repeat x31 (S (N.to_nat INT_MAX_STR_DIGITS)).

Lemma version_overlong_refuted :
  digit_string [x31] = true /\ digit_string OVERLONG = true /\
  proto_parse AsFound (version_text [x31] OVERLONG) = PEscape /\
  proto_parse Repaired (version_text [x31] OVERLONG) = PInvalid.
Proof. vm_compute. repeat split; reflexivity. Qed.

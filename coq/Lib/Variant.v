(* Models of code that carries a known finding are indexed by a variant: the pinned tree's
   behaviour ([AsFound]) and the behaviour after the one-line repair ([Repaired]).  The T1
   generator probes the working tree and records which one the correspondence run must use. *)
Inductive variant := AsFound | Repaired.

(* Python bytes operations used by the parser and header models (definitions; lemmas in Proofs/SplitP.v) *)
From Httoop Require Import Lib.Bytes.
Local Open Scope N_scope.

Definition CR : byte := x0d.
Definition LF : byte := x0a.
Definition SP : byte := x20.
Definition HT : byte := x09.
Definition COLON : byte := x3a.
Definition SEMI : byte := x3b.
Definition CRLF : bytes := [CR; LF].

Fixpoint prefixb (p l : bytes) : bool :=
  match p, l with
  | [], _ => true
  | a :: p', b :: l' => beq a b && prefixb p' l'
  | _ :: _, [] => false
  end.

Definition suffixb (p l : bytes) : bool := prefixb (rev p) (rev l).

(* l.split(pat, 1) when pat occurs: (before the first occurrence, after it); None when pat not in l.
   pat is non-empty in every use. *)
Fixpoint cut (pat l : bytes) : option (bytes * bytes) :=
  match l with
  | [] => None
  | c :: r =>
      if prefixb pat l then Some ([], skipn (length pat) l)
      else match cut pat r with
           | Some (a, b) => Some (c :: a, b)
           | None => None
           end
  end.

Definition contains (pat l : bytes) : bool := match cut pat l with Some _ => true | None => false end.

(* l.rpartition(pat): split at the LAST occurrence *)
Definition rcut (pat l : bytes) : option (bytes * bytes) :=
  match cut (rev pat) (rev l) with
  | Some (a, b) => Some (rev b, rev a)
  | None => None
  end.

(* l.split(pat) (all occurrences, leftmost, non-overlapping); fuel = length l + 1 is always enough *)
Fixpoint split_all_f (fuel : nat) (pat l : bytes) : list bytes :=
  match fuel with
  | O => [l]
  | S f => match cut pat l with
           | None => [l]
           | Some (a, b) => a :: split_all_f f pat b
           end
  end.
Definition split_all (pat l : bytes) : list bytes := split_all_f (S (length l)) pat l.

(* one-octet separator versions *)
Fixpoint cut1 (sep : byte) (l : bytes) : option (bytes * bytes) :=
  match l with
  | [] => None
  | c :: r => if beq c sep then Some ([], r)
              else match cut1 sep r with Some (a, b) => Some (c :: a, b) | None => None end
  end.

(* bytes.strip(): ASCII whitespace  \t\n\v\f\r and space *)
Definition is_bws (c : byte) : bool := let n := bN c in ((9 <=? n) && (n <=? 13)) || (n =? 32).
Fixpoint lstrip_by (p : byte -> bool) (l : bytes) : bytes :=
  match l with
  | c :: r => if p c then lstrip_by p r else l
  | [] => []
  end.
Definition rstrip_by (p : byte -> bool) (l : bytes) : bytes := rev (lstrip_by p (rev l)).
Definition strip_by (p : byte -> bool) (l : bytes) : bytes := rstrip_by p (lstrip_by p l).
Definition lstrip := lstrip_by is_bws.
Definition rstrip := rstrip_by is_bws.
Definition strip := strip_by is_bws.

(* whitespace int(str) skips on Latin-1 text: ASCII whitespace plus the non-ASCII spaces NEL and NBSP
   (FS GS RS US count for str.strip() but not for int()) *)
Definition is_uws_latin1 (c : byte) : bool :=
  let n := bN c in is_bws c || (n =? 133) || (n =? 160).

Definition is_upper (c : byte) : bool := let n := bN c in (65 <=? n) && (n <=? 90).
Definition is_lower (c : byte) : bool := let n := bN c in (97 <=? n) && (n <=? 122).
Definition is_alpha (c : byte) : bool := is_upper c || is_lower c.
Definition is_digit (c : byte) : bool := let n := bN c in (48 <=? n) && (n <=? 57).
Definition to_lower (c : byte) : byte := if is_upper c then Nb (bN c + 32) else c.
Definition to_upper (c : byte) : byte := if is_lower c then Nb (bN c - 32) else c.
Definition lower (l : bytes) : bytes := map to_lower l.

(* str.title() on ASCII text: first letter of every run of letters upper-cased, the rest lower-cased *)
Fixpoint title_from (prev_alpha : bool) (l : bytes) : bytes :=
  match l with
  | [] => []
  | c :: r => (if prev_alpha then to_lower c else to_upper c) :: title_from (is_alpha c) r
  end.
Definition title (l : bytes) : bytes := title_from false l.

Fixpoint concat_bytes (l : list bytes) : bytes :=
  match l with [] => [] | x :: r => x ++ concat_bytes r end.

Fixpoint join_with (sep : bytes) (l : list bytes) : bytes :=
  match l with
  | [] => []
  | [x] => x
  | x :: r => x ++ sep ++ join_with sep r
  end.

(* decimal rendering of a natural number: str(n).encode() *)
Fixpoint digits_f (fuel : nat) (n : N) (acc : bytes) : bytes :=
  match fuel with
  | O => acc
  | S f => let d := Nb (48 + n mod 10) in
           if n <? 10 then d :: acc else digits_f f (n / 10) (d :: acc)
  end.
Definition dec_of_N (n : N) : bytes := digits_f (S (N.to_nat (N.log2 n))) n [].

(* CPython's strict UTF-8 decoder as a validity predicate on octet strings (RFC 3629: no
   over-long forms, no surrogates, nothing above U+10FFFF).  Validated against
   bytes.decode('utf-8') in the correspondence runs that use it. *)
From Httoop Require Import Lib.Bytes.
Local Open Scope N_scope.

Definition cont (c : byte) : bool := let n := bN c in (128 <=? n) && (n <=? 191).
Definition inr (lo hi : N) (c : byte) : bool := let n := bN c in (lo <=? n) && (n <=? hi).

Fixpoint utf8_valid (l : bytes) : bool :=
  match l with
  | [] => true
  | c :: r =>
      let n := bN c in
      if n <? 128 then utf8_valid r
      else if (194 <=? n) && (n <=? 223) then
        match r with a :: r1 => cont a && utf8_valid r1 | _ => false end
      else if (224 <=? n) && (n <=? 239) then
        match r with
        | a :: b :: r2 =>
            (if n =? 224 then inr 160 191 a else if n =? 237 then inr 128 159 a else cont a)
            && cont b && utf8_valid r2
        | _ => false
        end
      else if (240 <=? n) && (n <=? 244) then
        match r with
        | a :: b :: d :: r3 =>
            (if n =? 240 then inr 144 191 a else if n =? 244 then inr 128 143 a else cont a)
            && cont b && cont d && utf8_valid r3
        | _ => false
        end
      else false
  end.

(* Python [bytes] as [list byte]: equality, classes as 256-bit masks, hex literals,
   reflection of "for all octets" statements to a 256-case computation. *)
From Coq Require Export List NArith Bool Lia.
From Coq Require Export Init.Byte Strings.Byte.
Export ListNotations.
Local Open Scope N_scope.

Notation bytes := (list byte).

Definition bN (c : byte) : N := Byte.to_N c.
Definition Nb (n : N) : byte := match Byte.of_N n with Some b => b | None => x00 end.

Lemma Nb_bN c : Nb (bN c) = c.
Proof. unfold Nb, bN. rewrite Byte.of_to_N. reflexivity. Qed.

Lemma bN_lt c : bN c < 256.
Proof. pose proof (Byte.to_N_bounded c). unfold bN. lia. Qed.

Lemma bN_Nb n : n < 256 -> bN (Nb n) = n.
Proof.
  intros H. unfold Nb, bN. destruct (Byte.of_N n) eqn:E.
  - apply Byte.to_of_N in E. exact E.
  - apply Byte.of_N_None_iff in E. lia.
Qed.

Lemma bN_inj a b : bN a = bN b -> a = b.
Proof. intros H. rewrite <- (Nb_bN a), <- (Nb_bN b), H. reflexivity. Qed.

Definition beq (a b : byte) : bool := N.eqb (bN a) (bN b).

Lemma beq_eq a b : beq a b = true <-> a = b.
Proof.
  unfold beq. rewrite N.eqb_eq. split; [apply bN_inj | intros ->; reflexivity].
Qed.

Lemma beq_refl a : beq a a = true.
Proof. apply beq_eq. reflexivity. Qed.

Lemma beq_neq a b : beq a b = false <-> a <> b.
Proof.
  split.
  - intros H E. apply beq_eq in E. congruence.
  - intros H. destruct (beq a b) eqn:E; [apply beq_eq in E; contradiction | reflexivity].
Qed.

Lemma beq_sym a b : beq a b = beq b a.
Proof. unfold beq. apply N.eqb_sym. Qed.

Lemma beq_spec a b : reflect (a = b) (beq a b).
Proof. destruct (beq a b) eqn:E; constructor; [apply beq_eq | apply beq_neq]; exact E. Qed.

(* octet classes: bit [n] of the mask says whether octet [n] is in the class *)
Definition inmask (m : N) (c : byte) : bool := N.testbit m (bN c).

Fixpoint bytes_eqb (a b : bytes) : bool :=
  match a, b with
  | [], [] => true
  | x :: a', y :: b' => beq x y && bytes_eqb a' b'
  | _, _ => false
  end.

Lemma bytes_eqb_eq a b : bytes_eqb a b = true <-> a = b.
Proof.
  revert b; induction a as [|x a IH]; intros [|y b]; cbn; split; try congruence; intros H.
  - apply andb_true_iff in H as [H1 H2]. apply beq_eq in H1. apply IH in H2. congruence.
  - injection H as -> ->. rewrite beq_refl. apply IH. reflexivity.
Qed.

Lemma bytes_eqb_refl a : bytes_eqb a a = true.
Proof. apply bytes_eqb_eq; reflexivity. Qed.

(* ---- all octets ---- *)
Definition all_bytes : bytes := map Nb
  (map N.of_nat (seq 0 256)).

Lemma all_bytes_complete c : In c all_bytes.
Proof.
  unfold all_bytes. rewrite <- (Nb_bN c). apply in_map. 
  replace (bN c) with (N.of_nat (N.to_nat (bN c))) by apply N2Nat.id.
  apply in_map. apply in_seq. pose proof (bN_lt c). lia.
Qed.

Lemma forall_byte (P : byte -> bool) :
  forallb P all_bytes = true -> forall c, P c = true.
Proof. intros H c. rewrite forallb_forall in H. apply H, all_bytes_complete. Qed.

Lemma forall_byte2 (P : byte -> byte -> bool) :
  forallb (fun a => forallb (P a) all_bytes) all_bytes = true -> forall a b, P a b = true.
Proof.
  intros H a b. apply (forall_byte (P a)). apply (forall_byte (fun a => forallb (P a) all_bytes) H).
Qed.

(* ---- hex literals for generated case files:  X "474554"  ---- *)
Inductive hexlit := HexLit (bs : bytes).
Definition of_hexlit (h : hexlit) : bytes := match h with HexLit l => l end.
Declare Scope hex_scope.
Delimit Scope hex_scope with hex.
String Notation hexlit HexLit of_hexlit : hex_scope.

Definition hexval (c : byte) : N :=
  let n := bN c in
  if (48 <=? n) && (n <=? 57) then n - 48
  else if (65 <=? n) && (n <=? 70) then n - 55
  else if (97 <=? n) && (n <=? 102) then n - 87
  else 0.

Fixpoint unhex (l : bytes) : bytes :=
  match l with
  | a :: b :: r => Nb (16 * hexval a + hexval b) :: unhex r
  | _ => []
  end.

Definition X (h : hexlit) : bytes := unhex (of_hexlit h).

Definition hexdig (n : N) : byte := Nb (if n <? 10 then 48 + n else 87 + n).
Fixpoint tohex (l : bytes) : bytes :=
  match l with
  | [] => []
  | c :: r => hexdig (bN c / 16) :: hexdig (bN c mod 16) :: tohex r
  end.
Definition H (l : bytes) : hexlit := HexLit (tohex l).

(* indices (as N) of the cases on which a boolean check fails *)
Fixpoint bad_from {A} (chk : A -> bool) (i : N) (l : list A) : list N :=
  match l with
  | [] => []
  | c :: r => if chk c then bad_from chk (i + 1) r else i :: bad_from chk (i + 1) r
  end.
Definition bad_indices {A} (chk : A -> bool) (l : list A) : list N := bad_from chk 0 l.

Definition opt_eqb {A} (eq : A -> A -> bool) (a b : option A) : bool :=
  match a, b with
  | Some x, Some y => eq x y
  | None, None => true
  | _, _ => false
  end.

Fixpoint list_eqb {A} (eq : A -> A -> bool) (a b : list A) : bool :=
  match a, b with
  | [], [] => true
  | x :: a', y :: b' => eq x y && list_eqb eq a' b'
  | _, _ => false
  end.

Lemma list_eqb_eq {A} (eq : A -> A -> bool) :
  (forall x y, eq x y = true <-> x = y) -> forall a b, list_eqb eq a b = true <-> a = b.
Proof.
  intros Heq a; induction a as [|x a IH]; intros [|y b]; cbn; split; try congruence; intros E.
  - apply andb_true_iff in E as [E1 E2]. apply Heq in E1. apply IH in E2. congruence.
  - injection E as -> ->. apply andb_true_iff. split; [apply Heq | apply IH]; reflexivity.
Qed.

Lemma opt_beq_eq (a b : option byte) : opt_eqb beq a b = true -> a = b.
Proof.
  destruct a, b; cbn; try congruence. intros H. apply beq_eq in H. congruence.
Qed.
Arguments X h%hex.

Definition nonempty_b (l : bytes) : bool := match l with [] => false | _ :: _ => true end.

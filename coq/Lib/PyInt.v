(* CPython's int() as used by httoop.util.integer: base 10 on Latin-1 text (Content-Length),
   base 16 on bytes (chunk sizes).  Validated against CPython in the correspondence runs. *)
From Coq Require Import ZArith.
From Httoop Require Import Lib.Bytes Lib.Split.
Local Open Scope N_scope.

Definition UNDERSCORE : byte := x5f.

Definition hexdigit_val (c : byte) : option N :=
  let n := bN c in
  if (48 <=? n) && (n <=? 57) then Some (n - 48)
  else if (65 <=? n) && (n <=? 70) then Some (n - 55)
  else if (97 <=? n) && (n <=? 102) then Some (n - 87)
  else None.
Definition decdigit_val (c : byte) : option N :=
  let n := bN c in if (48 <=? n) && (n <=? 57) then Some (n - 48) else None.

(* digits with single underscores between them; [prev_us]: previous octet was '_' ;
   returns value and number of digits, None on a bad octet / doubled or trailing underscore / no digit *)
Fixpoint scan_digits (dv : byte -> option N) (base : N) (allow_us : bool) (l : bytes) (acc : N) (nd : N) (prev_us : bool) : option (N * N) :=
  match l with
  | [] => if prev_us then None else if nd =? 0 then None else Some (acc, nd)
  | c :: r =>
      if beq c UNDERSCORE then
        if allow_us && negb prev_us then scan_digits dv base allow_us r acc nd true else None
      else match dv c with
           | Some d => scan_digits dv base allow_us r (acc * base + d) (nd + 1) false
           | None => None
           end
  end.

Definition split_sign (l : bytes) : bool * bytes :=
  match l with
  | c :: r => if beq c x2b then (false, r) else if beq c x2d then (true, r) else (false, l)
  | [] => (false, [])
  end.

Definition signed (neg : bool) (n : N) : Z := if neg then (- Z.of_N n)%Z else Z.of_N n.

(* integer(text) for str: int(text) with any '_' rejected; [maxdigits] = sys.get_int_max_str_digits() *)
Definition py_int10_text (maxdigits : N) (l : bytes) : option Z :=
  let s := strip_by is_uws_latin1 l in
  let (neg, r) := split_sign s in
  match scan_digits decdigit_val 10 false r 0 0 false with
  | Some (v, nd) => if (maxdigits <? nd) && negb (maxdigits =? 0) then None else Some (signed neg v)
  | None => None
  end.

(* integer(bytes, 16): int(bytes, 16); optional 0x/0X prefix, one '_' allowed right after it *)
Definition py_int16_bytes (l : bytes) : option Z :=
  if existsb (fun c => beq c SP) l then None else   (* integer(): b' ' in number -> ValueError *)
  let s := strip l in
  let (neg, r) := split_sign s in
  let r1 := match r with
            | a :: b :: r' => if beq a x30 && (beq b x78 || beq b x58)
                              then match r' with u :: r'' => if beq u UNDERSCORE then r'' else r' | [] => r' end
                              else r
            | _ => r
            end in
  match r1 with
  | c :: _ => if beq c UNDERSCORE then None
              else match scan_digits hexdigit_val 16 true r1 0 0 false with
                   | Some (v, _) => Some (signed neg v)
                   | None => None
                   end
  | [] => None
  end.

(* Model of the composer of httoop:
     httoop/messages/body.py       Body: content sources, iteration in MAX_CHUNK_SIZE blocks, content coding,
                                   chunk framing, __len__, set(None)
     httoop/util.py                IFile.seek/tell/read through if_has
     httoop/header/headers.py      Headers.compose (sorted by priority-or-name, list elements one line each)
     httoop/semantic/message.py    ComposedMessage.chunked getter/setter, __iter__
     httoop/semantic/request.py    ComposedRequest.prepare, close
     httoop/semantic/response.py   ComposedResponse.prepare, close
   Definitions only.  Tables (block size, safe methods, defaults, priorities, status tables) and the probes
   choosing the variants come from Gen/ComposerT.v.  Callees that are not modelled are the fields of
   [ccallees] (content coders = zlib/gzip, Element.split of the three list-valued fields, the codec
   registered for a Content-Encoding value); every theorem quantifies over all of them. *)
From Coq Require Export ZArith.
From Httoop Require Export Lib.Bytes Lib.Split Lib.Variant Model.Headers Gen.ComposerT.
From Httoop Require Model.StartLine.
Local Open Scope N_scope.

(* ------------------------------------------------------------------ numbers: b'%d' and b'%x' *)

(* digits of n in base [base], most significant first; fuel = number of bits of n is always enough *)
Fixpoint digs_f (fuel : nat) (base n : N) (acc : list N) : list N :=
  match fuel with
  | O => n :: acc
  | S f => if n <? base then n :: acc else digs_f f base (n / base) (n mod base :: acc)
  end.
Definition digs (base n : N) : list N := digs_f (N.size_nat n) base n [].

Definition dec_digit (d : N) : byte := Nb (48 + d).
Definition hex_digit (d : N) : byte := Nb (if d <? 10 then 48 + d else 87 + d).
(* str(n).encode('ASCII') / b'%d' % n *)
Definition dec_print (n : N) : bytes := map dec_digit (digs 10 n).
(* b'%x' % n *)
Definition hex_print (n : N) : bytes := map hex_digit (digs 16 n).

Definition blen (l : bytes) : N := N.of_nat (List.length l).

(* ------------------------------------------------------------------ field names used by prepare *)
Definition H_CL := X "436f6e74656e742d4c656e677468".
Definition H_TE := X "5472616e736665722d456e636f64696e67".
Definition H_CE := X "436f6e74656e742d456e636f64696e67".
Definition H_CT := X "436f6e74656e742d54797065".
Definition H_CONNECTION := X "436f6e6e656374696f6e".
Definition H_HOST := X "486f7374".
Definition H_DATE := X "44617465".
Definition H_COOKIE := X "436f6f6b6965".
Definition H_WWW_AUTH := X "5757572d41757468656e746963617465".
Definition H_SET_COOKIE := X "5365742d436f6f6b6965".
Definition H_UA := X "557365722d4167656e74".
Definition H_ACCEPT := X "416363657074".
Definition H_ALLOW := X "416c6c6f77".
Definition H_ETAG := X "45546167".
Definition H_LAST_MODIFIED := X "4c6173742d4d6f646966696564".
Definition H_ACCEPT_RANGES := X "4163636570742d52616e676573".
Definition H_CONTENT_RANGE := X "436f6e74656e742d52616e6765".
Definition M_HEAD := X "48454144".
Definition COLON_SP : bytes := [x3a; x20].
Definition ZERO_CRLF : bytes := [x30; x0d; x0a].

Definition hsetdefault (k v : bytes) (h : hdrs) : hdrs := if hmem k h then h else hset k v h.
Definition mem_bytes (x : bytes) (l : list bytes) : bool := existsb (bytes_eqb x) l.
Definition mem_N (x : N) (l : list N) : bool := existsb (N.eqb x) l.
Fixpoint assoc_N {A} (k : N) (l : list (N * A)) : option A :=
  match l with
  | [] => None
  | (k', v) :: r => if k =? k' then Some v else assoc_N k r
  end.

(* ------------------------------------------------------------------ callees *)
Record ccallees := {
  cc_comp : N -> bytes -> bytes;            (* codec.encode(data) of content codec number [id] (zlib / gzip) *)
  cc_lsplit : bytes -> bytes -> list bytes; (* Element.split(value) of a list-valued field (Set-Cookie, WWW-/Proxy-Authenticate) *)
  cc_ce : bytes -> option N                 (* headers.element('Content-Encoding').codec : Some id, None = InvalidHeader / not implemented *)
}.

(* ------------------------------------------------------------------ Body: the content source *)

Inductive source :=
| SBytesIO (content : bytes) (pos : N)            (* io.BytesIO: whole content and the current position *)
| SList (items : list bytes)                      (* a non-empty list / tuple of byte strings *)
| SGen (remaining buffered : list bytes)          (* a generator: items still to come, items already produced *)
| SFile (content : bytes) (pos : N).              (* a real file opened for reading *)

(* Body.set(content) for a list: an empty list is falsy and becomes BytesIO() *)
Definition set_list (l : list bytes) : source :=
  match l with [] => SBytesIO [] 0 | _ :: _ => SList l end.
(* Body.set(None) *)
Definition EMPTY_SRC : source := SBytesIO [] 0.

Definition fileable (s : source) : bool :=
  match s with SBytesIO _ _ | SFile _ _ => true | SList _ | SGen _ _ => false end.

(* fd.read(MAX_CHUNK_SIZE) until exhausted, after seek(0) *)
Fixpoint blocks_f (fuel n : nat) (l : bytes) : list bytes :=
  match fuel with
  | O => []
  | S f => match l with [] => [] | _ :: _ => firstn n l :: blocks_f f n (skipn n l) end
  end.
Definition blocks (l : bytes) : list bytes := blocks_f (List.length l) (N.to_nat MAX_CHUNK_SIZE) l.

Definition nonempty_items (l : list bytes) : list bytes := filter nonempty_b l.

(* Body.__content_iter run to the end: the pieces yielded (empty items are skipped) and the source afterwards.
   BytesIO / file: t = tell(); seek(0); read blocks; seek(t).  list: the items.  generator: the remaining
   items, then self.set(buffer) replaces the generator by the list of everything it produced. *)
Definition src_iter (s : source) : list bytes * source :=
  match s with
  | SBytesIO c p => (blocks c, SBytesIO c p)
  | SFile c p => (blocks c, SFile c p)
  | SList items => (nonempty_items items, SList items)
  | SGen rem buf => (nonempty_items rem, set_list (buf ++ rem))
  end.

(* Body.__len__: BytesIO -> len(getvalue()); file -> fstat size; otherwise len(b''.join(content_iter)) *)
Definition src_len (s : source) : N * source :=
  match s with
  | SBytesIO c _ | SFile c _ => (blen c, s)
  | _ => let (ps, s') := src_iter s in (blen (concat_bytes ps), s')
  end.

Record body := {
  b_src : source;
  b_chunked : bool;           (* body.headers Transfer-Encoding == chunked *)
  b_codec : option N;         (* body.content_codec *)
  b_ctype : bytes;            (* bytes(body.mimetype) *)
  b_trailer : hdrs }.         (* body.trailer *)

Definition with_src (b : body) (s : source) : body :=
  {| b_src := s; b_chunked := b_chunked b; b_codec := b_codec b; b_ctype := b_ctype b; b_trailer := b_trailer b |}.
Definition with_chunked (b : body) (c : bool) : body :=
  {| b_src := b_src b; b_chunked := c; b_codec := b_codec b; b_ctype := b_ctype b; b_trailer := b_trailer b |}.
Definition with_codec (b : body) (c : option N) : body :=
  {| b_src := b_src b; b_chunked := b_chunked b; b_codec := c; b_ctype := b_ctype b; b_trailer := b_trailer b |}.
(* message.body = None *)
Definition body_clear (b : body) : body := with_src b EMPTY_SRC.
(* len(body) / bool(body) *)
Definition body_len (b : body) : N * body := let (n, s) := src_len (b_src b) in (n, with_src b s).

(* ------------------------------------------------------------------ Headers.compose *)

Fixpoint bytes_ltb (a b : bytes) : bool :=
  match a, b with
  | [], [] => false
  | [], _ :: _ => true
  | _ :: _, [] => false
  | x :: a', y :: b' => if bN x <? bN y then true else if bN y <? bN x then false else bytes_ltb a' b'
  end.

(* key=lambda x: HEADER.get(x[0]).priority or x[0] *)
Definition sort_key (name : bytes) : bytes :=
  match assoc name HEADER_PRIORITY with Some p => p | None => name end.

(* sorted() is stable: an item goes in front of the first item that is not smaller *)
Fixpoint insert_item (x : bytes * bytes) (l : list (bytes * bytes)) : list (bytes * bytes) :=
  match l with
  | [] => [x]
  | y :: r => if bytes_ltb (sort_key (fst y)) (sort_key (fst x)) then y :: insert_item x r else x :: l
  end.
Definition sort_items (l : list (bytes * bytes)) : list (bytes * bytes) := fold_right insert_item [] l.

Section WithCallees.
Variable C : ccallees.

(* __encoded_items: one item per element of a list-valued field *)
Definition items_of (kv : bytes * bytes) : list (bytes * bytes) :=
  if mem_bytes (fst kv) HEADER_LIST_ELEMENTS then map (fun x => (fst kv, x)) (cc_lsplit C (fst kv) (snd kv)) else [kv].
Definition field_line (kv : bytes * bytes) : bytes := fst kv ++ COLON_SP ++ snd kv ++ CRLF.
Definition hcompose (h : hdrs) : bytes :=
  concat_bytes (map field_line (sort_items (flat_map items_of h))) ++ CRLF.

(* ------------------------------------------------------------------ Body.__iter__ *)

Definition chunk (d : bytes) : bytes := hex_print (blen d) ++ CRLF ++ d ++ CRLF.
(* __compose_chunked_iter: empty pieces are skipped; the last-chunk carries the trailer if there is one *)
Definition chunked_frame (trailer : hdrs) (coded : list bytes) : bytes :=
  concat_bytes (map chunk (nonempty_items coded)) ++
  (match trailer with [] => ZERO_CRLF ++ CRLF | _ :: _ => ZERO_CRLF ++ hcompose trailer end).

(* content coding: per piece on the pinned tree, once over the whole (non-empty) content after the repair (finding D42) *)
Definition encode_pieces (vc : variant) (codec : option N) (ps : list bytes) : list bytes :=
  match codec with
  | None => ps
  | Some id => match vc with
               | AsFound => map (cc_comp C id) ps
               | Repaired => match ps with [] => [] | _ :: _ => [cc_comp C id (concat_bytes ps)] end
               end
  end.

(* b''.join(body): octets and the body afterwards *)
Definition body_iter (vc : variant) (b : body) : bytes * body :=
  let (ps, s) := src_iter (b_src b) in
  let coded := encode_pieces vc (b_codec b) ps in
  (if b_chunked b then chunked_frame (b_trailer b) coded else concat_bytes coded, with_src b s).

(* ------------------------------------------------------------------ ComposedMessage.chunked *)

(* 'chunked' in headers.elements('Transfer-Encoding') for the modelled domain: the field is absent, empty
   or exactly "chunked"; anything else is outside the model (None) *)
Definition hdr_chunked (h : hdrs) : option bool :=
  match hget H_TE h with
  | None => Some false
  | Some v => if bytes_eqb v TE_CHUNKED then Some true else match v with [] => Some false | _ :: _ => None end
  end.

(* the chunked setter *)
Definition set_chunked (c : bool) (h : hdrs) (b : body) : option (hdrs * body) :=
  let b' := with_chunked b c in
  if c then
    let h1 := hdel H_CL h in
    match hdr_chunked h1 with
    | None => None
    | Some true => Some (h1, b')
    | Some false => Some (hset H_TE TE_CHUNKED h1, b')      (* headers.append on an absent or empty field *)
    end
  else
    match hdr_chunked h with
    | None => None
    | Some false => Some (h, b')
    | Some true => Some (hdel H_TE h, b')                   (* te == [] after remove: the field is popped *)
    end.

(* self.chunked = self.chunked *)
Definition sync_chunked (h : hdrs) (b : body) : option (hdrs * body) :=
  match hdr_chunked h with
  | None => None
  | Some c => set_chunked c h b
  end.

Definition conn_is_close (h : hdrs) : bool :=
  match hget H_CONNECTION h with Some v => bytes_eqb v CLOSE | None => false end.

(* ------------------------------------------------------------------ requests *)

Record request := {
  q_method : bytes;
  q_target : bytes;           (* bytes(uri) inside relative_uri(): scheme, authority, user info and fragment removed *)
  q_host : option bytes;      (* uri.host as a header value, None when empty *)
  q_version : StartLine.version;
  q_hdrs : hdrs;
  q_body : body }.

Definition q_with (q : request) (h : hdrs) (b : body) : request :=
  {| q_method := q_method q; q_target := q_target q; q_host := q_host q; q_version := q_version q; q_hdrs := h; q_body := b |}.

(* the steps of ComposedRequest.prepare, in the order of the source; [now] = bytes(Date()) *)
(* if self.message.method.safe: self.message.body = None; self.chunked = False *)
Definition q_step_safe (q : request) : option (hdrs * body) :=
  if mem_bytes (q_method q) SAFE_METHODS then set_chunked false (q_hdrs q) (body_clear (q_body q)) else Some (q_hdrs q, q_body q).
(* self.close = self.close *)
Definition q_step_close (h : hdrs) : hdrs :=
  if conn_is_close h then hset H_CONNECTION CLOSE h else hdel H_CONNECTION h.
(* if self.message.body: Content-Length unless chunked; Content-Type unless present *)
Definition q_step_length (h : hdrs) (b : body) : option (hdrs * body) :=
  let (n, b1) := body_len b in
  if 0 <? n then
    match hdr_chunked h with
    | None => None
    | Some c =>
        let (n', b2) := body_len b1 in
        let h1 := if c then h else hset H_CL (dec_print n') h in
        Some (if hmem H_CT h1 then h1 else hset H_CT (b_ctype b2) h1, b2)
    end
  else Some (h, b1).
Definition q_step_host (host : option bytes) (h : hdrs) : hdrs :=
  match host with
  | Some v => if hmem H_HOST h then h else hset H_HOST v h
  | None => h
  end.
(* if method in (PUT, POST) and body: Date unless present *)
Definition q_step_date (now method : bytes) (h : hdrs) (b : body) : hdrs * body :=
  if mem_bytes method REQ_DATED_METHODS then
    let (n, b1) := body_len b in
    (if (0 <? n) && negb (hmem H_DATE h) then hset H_DATE now h else h, b1)
  else (h, b).
(* TRACE: pop Cookie, WWW-Authenticate; setdefault User-Agent, Accept *)
Definition q_step_tail (method : bytes) (h : hdrs) : hdrs :=
  let h1 := if mem_bytes method REQ_TRACE_METHODS then hdel H_WWW_AUTH (hdel H_COOKIE h) else h in
  hsetdefault H_ACCEPT REQ_ACCEPT (hsetdefault H_UA REQ_USER_AGENT h1).

(* ComposedRequest.prepare *)
Definition q_prepare (now : bytes) (q : request) : option request :=
  match q_step_safe q with
  | None => None
  | Some (h1, b1) =>
  match sync_chunked h1 b1 with
  | None => None
  | Some (h2, b2) =>
  match q_step_length (q_step_close h2) b2 with
  | None => None
  | Some (h4, b4) =>
  let (h6, b6) := q_step_date now (q_method q) (q_step_host (q_host q) h4) b4 in
  Some (q_with q (q_step_tail (q_method q) h6) b6)
  end end end.

(* b''.join(ComposedRequest) *)
Definition q_compose (vc : variant) (q : request) : bytes * request :=
  let (bd, b') := body_iter vc (q_body q) in
  (StartLine.req_compose (q_method q) (q_target q) (q_version q) ++ hcompose (q_hdrs q) ++ bd, q_with q (q_hdrs q) b').

(* ------------------------------------------------------------------ responses *)

Record response := {
  r_version : StartLine.version;
  r_code : N;
  r_reason : bytes;
  r_rmethod : bytes;          (* method of the request being answered *)
  r_hdrs : hdrs;
  r_body : body }.

Definition r_with (r : response) (h : hdrs) (b : body) : response :=
  {| r_version := r_version r; r_code := r_code r; r_reason := r_reason r; r_rmethod := r_rmethod r; r_hdrs := h; r_body := b |}.

Definition v11 (v : StartLine.version) : bool := negb (StartLine.ver_ltb v (1, 1)).   (* protocol >= (1, 1) *)

(* the close setter of ComposedResponse *)
Definition r_set_close (v : StartLine.version) (close : bool) (h : hdrs) : hdrs :=
  if close && v11 v then hset H_CONNECTION CLOSE h
  else if negb close && negb (v11 v) then hset H_CONNECTION KEEP_ALIVE h
  else if conn_is_close h then hdel H_CONNECTION h else h.

Definition no_body_status (code : N) : bool := mem_N code BODILESS_STATUSES.
(* statuses for which RFC 7230 3.3.3 rule 1 says that no body octets follow the header section *)
Definition rfc_bodiless_status (code : N) : bool := (code <? 200) || (code =? 204) || (code =? 304).

Fixpoint hdel_all (ks : list bytes) (h : hdrs) : hdrs :=
  match ks with [] => h | k :: r => hdel_all r (hdel k h) end.

(* the steps of ComposedResponse.prepare (for a request without Range header), in the order of the source *)
(* if 'Content-Encoding' in headers: body.content_encoding = headers.element('Content-Encoding'); self.chunked = True
   [b] is the Body object as the caller hands it over: on a message object that was prepared before with a Content-Encoding
   it still carries the codec of that use ([b_codec b]).  Finding D59: on the tree as found nothing takes it back when the
   field is absent (the body goes out coded, unannounced, under the Content-Length of the uncoded content); after the
   repair the else branch resets it (body.content_encoding = None): the body is coded exactly when the field says so. *)
Definition r_step_coding (v59 : variant) (h : hdrs) (b : body) : option (hdrs * body) :=
  match hget H_CE h with
  | Some ce =>
      match cc_ce C ce with
      | None => None
      | Some id => set_chunked true h (with_codec b (Some id))
      end
  | None => Some (h, match v59 with AsFound => b | Repaired => with_codec b None end)
  end.
(* if not self.chunked: Content-Length = len(body) *)
Definition r_step_length (h : hdrs) (b : body) : option (hdrs * body) :=
  match hdr_chunked h with
  | None => None
  | Some true => Some (h, b)
  | Some false => let (n, b1) := body_len b in Some (hset H_CL (dec_print n) h, b1)
  end.
(* Date; STATUSES[status].header_to_remove; 405: Allow *)
Definition r_step_status (now : bytes) (code : N) (h : hdrs) : hdrs :=
  let h5 := hset H_DATE now h in
  let h6 := match assoc_N code STATUS_REMOVE with Some ks => hdel_all ks h5 | None => h5 end in
  match assoc_N code STATUS_ALLOW with Some v => hsetdefault H_ALLOW v h6 | None => h6 end.
(* self.close = self.close *)
Definition r_step_close (v : StartLine.version) (code : N) (h : hdrs) : hdrs :=
  r_set_close v (mem_N code CLOSING_STATUSES || conn_is_close h || negb (v11 v)) h.
(* Content-Type unless present, when the body is non-empty *)
Definition r_step_ctype (h : hdrs) (b : body) : hdrs * body :=
  if hmem H_CT h then (h, b)
  else let (n, b1) := body_len b in ((if 0 <? n then hset H_CT (b_ctype b1) h else h), b1).
(* Accept-Ranges; 416: Content-Range; TRACE: pop Set-Cookie *)
Definition r_step_ranges (code : N) (rmethod : bytes) (h : hdrs) (b : body) : option hdrs :=
  match hdr_chunked h with
  | None => None
  | Some c =>
      let h10 := if ((code =? 200) && fileable (b_src b) && negb c && hmem H_ETAG h) || hmem H_LAST_MODIFIED h
                 then hsetdefault H_ACCEPT_RANGES ACCEPT_RANGES_VALUE h else h in
      let h12 := if code =? 416
                 then hset H_CONTENT_RANGE (UNSAT_RANGE_PREFIX ++ match hget H_CL h10 with Some v => v | None => UNSAT_RANGE_NOLEN end) h10
                 else h10 in
      Some (if mem_bytes rmethod REQ_TRACE_METHODS then hdel H_SET_COOKIE h12 else h12)
  end.
(* HEAD: body = None; finding D29 repaired: no chunk framing on a body that must not be sent *)
Definition r_bodiless (code : N) (rmethod : bytes) : bool := bytes_eqb rmethod M_HEAD || rfc_bodiless_status code.
Definition r_step_head (v29 : variant) (code : N) (rmethod : bytes) (b : body) : body :=
  let b14 := if bytes_eqb rmethod M_HEAD then body_clear b else b in
  match v29 with
  | AsFound => b14
  | Repaired => if r_bodiless code rmethod then with_chunked b14 false else b14
  end.

(* ComposedResponse.prepare; [v59] / [v29] select the behaviour for findings D59 (stale content coding) and D29 *)
Definition r_prepare (v59 v29 : variant) (now : bytes) (r : response) : option response :=
  let code := r_code r in
  let b1 := if no_body_status code then body_clear (r_body r) else r_body r in
  match r_step_coding v59 (r_hdrs r) b1 with
  | None => None
  | Some (h2, b2) =>
  match sync_chunked h2 b2 with
  | None => None
  | Some (h3, b3) =>
  match r_step_length h3 b3 with
  | None => None
  | Some (h4, b4) =>
  let (h9, b9) := r_step_ctype (r_step_close (r_version r) code (r_step_status now code h4)) b4 in
  match r_step_ranges code (r_rmethod r) h9 b9 with
  | None => None
  | Some h13 => Some (r_with r h13 (r_step_head v29 code (r_rmethod r) b9))
  end end end end.

Definition r_compose (vc : variant) (r : response) : bytes * response :=
  let (bd, b') := body_iter vc (r_body r) in
  (StartLine.resp_compose (r_version r) (r_code r) (r_reason r) ++ hcompose (r_hdrs r) ++ bd, r_with r (r_hdrs r) b').

End WithCallees.

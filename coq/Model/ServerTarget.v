(* Model of the request-target handling of the server-side state machine -- the closed composition of
     httoop/messages/request.py    Request.parse (after the field split: Model/StartLine.req_parse), validate_request_uri
     httoop/uri/uri.py             URI.parse (Model/UriSyntax.uri_parse) on the Request's URI object (class HTTP),
                                   URI.normalize / abspath (Model/UriNorm.normalize, Model/UriPath), bytes(uri)
     httoop/server/__init__.py     on_startline_complete -> on_uri_complete (bytes(uri), _check_uri_max_length,
                                   sanitize_request_uri_path, validate_request_uri_scheme) -> on_protocol_complete;
                                   on_headers_complete: check_host_header_exists, set_request_uri_host
     httoop/status/redirect.py     RedirectStatus.__init__: Location = str(URI(location))
     httoop/header/messaging.py    Host.sanitize, is_ip4 / is_ip6 / is_fqdn, HOSTPORT, RE_HOSTNAME
   Definitions only; proofs are in Proofs/ServerTarget.v.  Tables: Gen/ServerTargetT.v (+ the tables of the composed models).

   Text (Python str) is represented by its UTF-8 octets, as in the composed models.  Section parameters:
   the charset decoder [valid], inet_ntop/inet_pton [inet4] [inet6], the IDNA codec [idna_dec] [idna_enc],
   str.lower [lower], HeaderElement.parse up to the element constructor [helem] (RFC 2047 decoding and the
   parameter split: property C09's ground), and what Python's regex class \d and int() make of a port
   text that contains non-ASCII characters [udigits] (ASCII digits are modelled concretely).
   MAX_URI_LENGTH is infinite (T1 checks it), so 414 cannot occur. *)
From Coq Require Import ZArith.
From Httoop Require Import Lib.Bytes Lib.Variant Gen.ServerTargetT.
From Httoop Require Import Model.Percent Model.StartLine Model.UriSyntax Model.UriPath Model.UriNorm.
Local Open Scope N_scope.

Definition STAR : bytes := [x2a].
Definition NL : byte := x0a.
Definition mem_bytes (s : bytes) (l : list bytes) : bool := existsb (bytes_eqb s) l.

(* the URI state of a request: class default port (type(uri).PORT) and the eight slots *)
Notation ruri := UriNorm.nuri.

Definition to_syntax (u : ruri) : UriSyntax.uri :=
  UriSyntax.mkUri (UriNorm.u_scheme u) (UriNorm.u_user u) (UriNorm.u_pass u) (UriNorm.u_host u) (UriNorm.u_port u)
                  (UriNorm.u_path u) (UriNorm.u_query u) (UriNorm.u_frag u).

Inductive outcome :=
| Deliver (u : ruri) (m : bytes) (v : version)   (* the start-line hooks passed: method, version, URI state *)
| Redirect301 (canon location : bytes)           (* MOVED_PERMANENTLY: normalised path text, Location header *)
| Bad400
| V505
| Escape.                                        (* an exception that is not a status leaves parse() *)

(* result of HeaderElement.parse(raw) up to the call of the element constructor *)
Inductive elres := ElValue (text : bytes) | ElInvalid (* InvalidHeader *) | ElEscape.

Inductive hostres := HostOk (u : ruri) | HostBad400 | HostEscape.

(* message.protocol >= (1, 1) *)
Definition p11_of (v : version) : bool := negb (ver_ltb v (1, 1)).

Section ServerTarget.
Variable valid : bytes -> bool.
Variable inet4 inet6 : bytes -> option bytes.
Variable idna_dec idna_enc : bytes -> option bytes.
Variable lower : bytes -> bytes.
Variable helem : bytes -> elres.
(* text with a non-ASCII character: None = does not match \d+ ; Some None = int() refuses it; Some (Some z) = int(text) *)
Variable udigits : bytes -> option (option Z).
(* iv: int() digit limit in the version (D40); vq: escape width (D1); vu: ':' in user names (D18);
   v7: undecodable escapes (D7); vn: normalize's default port (D30); vl: what sanitize_request_uri_path hands to
   MOVED_PERMANENTLY (D55; T1 probe LOCATION_VARIANT) *)
Variable iv vq vu v7 vn vl : variant.
(* ServerStateMachine(scheme, host, port) *)
Variable dscheme dhost : bytes.
Variable dport : option N.

(* ---------------------------------------------------------------- Request.parse: self.uri.parse(target) *)
(* The Request's URI object is an HTTP instance (PORT 80) before the call; the tuple setter switches the class
   only when the parsed scheme is non-empty, so a scheme-less target gets the HTTP default port. *)
Definition target_parse (target : bytes) : res ruri :=
  match uri_parse valid inet4 inet6 idna_dec vq v7 target with
  | Err e => Err e
  | Ok u =>
      let s := UriSyntax.u_scheme u in
      let dp := if nonempty s then scheme_port s else REQ_URI_PORT in
      let p := if nonempty s then UriSyntax.u_port u
               else match UriSyntax.u_port u with Some q => Some q | None => REQ_URI_PORT end in
      Ok (U dp s (UriSyntax.u_user u) (UriSyntax.u_pass u) (UriSyntax.u_host u) p
            (UriSyntax.u_path u) (UriSyntax.u_query u) (UriSyntax.u_frag u))
  end.

(* Request.validate_request_uri; true = no InvalidURI *)
Definition validate_uri (m : bytes) (u : ruri) : bool :=
  let s := UriNorm.u_scheme u in
  let p := UriNorm.u_path u in
  if nonempty s && negb (mem_bytes s HTTP_SCHEMES) then false          (* not isinstance(uri, (HTTP, HTTPS)) *)
  else if nonempty (UriNorm.u_frag u) || nonempty (UriNorm.u_user u) || nonempty (UriNorm.u_pass u) then false
  else if starts_with [SLASH; SLASH] p then false
  else if nonempty p && negb (bytes_eqb p STAR) && negb (starts_slash p) then false
  else if bytes_eqb m CONNECT
          && (nonempty s || nonempty p || nonempty (UriNorm.u_query u) || negb (nonempty (UriNorm.u_host u))) then false
  else true.

(* ---------------------------------------------------------------- on_uri_complete *)
(* bytes(self.request.uri): only whether it raises (UnicodeError of the IDNA encoder) matters *)
Definition compose_ok (u : ruri) : bool :=
  match uri_compose idna_enc vq vu (to_syntax u) with Some _ => true | None => false end.

(* sanitize_request_uri_path + RedirectStatus.__init__: headers['Location'] = str(URI(location)).
   AsFound:  location = path.encode('UTF-8') -- the normalised (decoded) path text is PARSED as a URI (base class) and
             composed again (finding D55);
   Repaired: location = URI(path=path) -- a URI object whose other seven slots are empty (the dict setter; the port
             setter turns '' into the class default None); URI(<URI>) copies the tuple, nothing is parsed: the Location
             is the composed path. *)
Definition path_only (p : bytes) : UriSyntax.uri := UriSyntax.mkUri [] [] [] [] None p [] [].

Definition location_of (p : bytes) : res (option bytes) :=
  match vl with
  | AsFound =>
      match uri_parse valid inet4 inet6 idna_dec vq v7 p with
      | Err e => Err e
      | Ok u => Ok (uri_compose idna_enc vq vu u)
      end
  | Repaired => Ok (uri_compose idna_enc vq vu (path_only p))
  end.

(* validate_request_uri_scheme, else branch: scheme, host, port := the configured defaults (three setters) *)
Definition set_defaults (u : ruri) : res ruri :=
  let u1 := set_scheme dscheme u in
  let u2 := set_host dhost u1 in
  match port_of_int (u_dport u2) dport with
  | Err e => Err e
  | Ok p => Ok (U (u_dport u2) (UriNorm.u_scheme u2) (UriNorm.u_user u2) (UriNorm.u_pass u2) (UriNorm.u_host u2) p
                  (UriNorm.u_path u2) (UriNorm.u_query u2) (UriNorm.u_frag u2))
  end.

Definition scheme_step (u : ruri) : res ruri :=
  if nonempty (UriNorm.u_scheme u) then
    if mem_bytes (UriNorm.u_scheme u) ACCEPTED_SCHEMES then Ok u else Err EInvalid
  else set_defaults u.

(* on_uri_complete, then on_protocol_complete (check_request_protocol) *)
Definition uri_hooks (m : bytes) (v : version) (u0 : ruri) : outcome :=
  if negb (compose_ok u0) then Bad400 else
  let u1 := normalize lower vn u0 in
  if negb (bytes_eqb (UriNorm.u_path u0) (UriNorm.u_path u1)) then
    match location_of (UriNorm.u_path u1) with
    | Ok (Some loc) => Redirect301 (UriNorm.u_path u1) loc
    | Ok None => Escape                   (* UnicodeError out of str(URI(...)) *)
    | Err EInvalid => Bad400              (* InvalidURI out of URI(...), turned into 400 by parse() *)
    | Err EUnicode => Escape
    end
  else
    match scheme_step u1 with
    | Err _ => Bad400
    | Ok u2 => if ver_ltb SERVER_PROTOCOL v then V505 else Deliver u2 m v
    end.

(* Request.parse + the hooks of on_startline_complete, on one request line *)
Definition server_target (line : bytes) : outcome :=
  match req_parse iv line with
  | RqInvalidLine | RqInvalidURI => Bad400
  | RqEscape => Escape
  | RqTarget m target v =>
      match target_parse target with
      | Err EInvalid => Bad400
      | Err EUnicode => Escape
      | Ok u0 => if validate_uri m u0 then uri_hooks m v u0 else Bad400
      end
  end.

(* ---------------------------------------------------------------- Host *)
(* text matches \d+ ; the value int() gives it (None = ValueError: more digits than int() converts) *)
Definition port_text_ok (s : bytes) : bool :=
  if is_ascii s then isdigit s else match udigits s with Some _ => true | None => false end.
Definition port_text_val (s : bytes) : option Z :=
  if is_ascii s then (if too_long s then None else Some (Z.of_N (dec_val s)))
  else match udigits s with Some r => r | None => None end.

(* HOSTPORT = ^(.*?)(?::(\d+))?$ : the lazy group stops at the first ':' whose remainder is all digits *)
Fixpoint hp_split (s : bytes) : bytes * option bytes :=
  match s with
  | [] => ([], None)
  | c :: r =>
      if beq c UriSyntax.COLON && port_text_ok r then ([], Some r)
      else let (h, p) := hp_split r in (c :: h, p)
  end.
(* "." does not match a newline and "$" also matches before one trailing newline *)
Definition hostport_match (s : bytes) : option (bytes * option bytes) :=
  let s' := if ends_with1 NL s then removelast s else s in
  if contains NL s' then None else Some (hp_split s').

(* RE_HOSTNAME = ^([class]+)$ on a text without newline *)
Definition hostname_re (h : bytes) : bool := nonempty h && forallb (inmask HOSTNAME_CLASS) h.
Definition is_ip4 (h : bytes) : bool := match inet4 h with Some _ => true | None => false end.
Definition is_ip6 (h : bytes) : bool := match inet6 h with Some _ => true | None => false end.

(* Host.sanitize on the element value: Some (host, port) or None = InvalidHeader *)
Definition host_sanitize (value : bytes) : option (bytes * option Z) :=
  match hostport_match (lower value) with
  | None => None
  | Some (h, ptxt) =>
      let h' := if ends_with1 RBR h && starts_with [LBR] h then removelast (tl h) else h in
      let port := match ptxt with
                  | None => Some None
                  | Some ds => match port_text_val ds with Some z => Some (Some z) | None => None end
                  end in
      match port with
      | None => None
      | Some pz => if is_ip6 h' || is_ip4 h' || hostname_re h' then Some (h', pz) else None
      end
  end.

(* uri.port = host.port : port = port or self.PORT; 0 < port <= 65535 else InvalidURI *)
Definition host_port_set (default : option N) (pz : option Z) : res (option N) :=
  match pz with
  | None => Ok default
  | Some z => if (z =? 0)%Z then Ok default else check_port z
  end.

(* check_host_header_exists + set_request_uri_host; [hostv] = the raw value of the Host field, if any *)
Definition apply_host (p11 : bool) (hostv : option bytes) (u : ruri) : hostres :=
  match hostv with
  | None => if p11 then HostBad400 else HostOk u
  | Some raw =>
      match helem raw with
      | ElInvalid => HostBad400
      | ElEscape => HostEscape
      | ElValue text =>
          match host_sanitize text with
          | None => HostBad400
          | Some (h, pz) =>
              match host_port_set (u_dport u) pz with
              | Err _ => HostBad400
              | Ok p => HostOk (U (u_dport u) (UriNorm.u_scheme u) (UriNorm.u_user u) (UriNorm.u_pass u) h p
                                  (UriNorm.u_path u) (UriNorm.u_query u) (UriNorm.u_frag u))
              end
          end
      end
  end.

(* ---------------------------------------------------------------- a whole request head *)
Inductive final :=
| FDeliver (u : ruri) (m : bytes) (v : version)
| FRedirect (canon location : bytes)
| F400 | F505 | FEscape.

Definition request_head (line : bytes) (hostv : option bytes) : final :=
  match server_target line with
  | Deliver u m v =>
      match apply_host (p11_of v) hostv u with
      | HostOk u' => FDeliver u' m v
      | HostBad400 => F400
      | HostEscape => FEscape
      end
  | Redirect301 c l => FRedirect c l
  | Bad400 => F400
  | V505 => F505
  | Escape => FEscape
  end.

End ServerTarget.

(* ---------------------------------------------------------------- what the property asks of a delivered URI *)
(* interior segments of split "/" : all but the first and the last *)
Definition interior (ss : list bytes) : list bytes := removelast (tl ss).

Definition path_ok (p : bytes) : Prop :=
  p = STAR \/ p = [] \/
  (starts_slash p = true /\
   Forall (fun s => s <> [DT] /\ s <> [DT; DT]) (psplit p) /\
   Forall (fun s => s <> []) (interior (psplit p))).

Definition path_okb (p : bytes) : bool :=
  bytes_eqb p STAR || negb (nonnil p) ||
  (starts_slash p && forallb (fun s => negb (is_dot s) && negb (is_dotdot s)) (psplit p)
   && forallb nonnil (interior (psplit p))).

(* the canonical path percent-encoded as URI.compose writes a path: segment by segment, safe set PATH (RFC 3986 pchar
   and "/"), and without ":" and "@" when the path does not begin with "/" (a scheme-less relative reference) *)
Definition encoded_path (vq : variant) (p : bytes) : bytes :=
  Percent.join [SLASH] (map (Percent.quote vq (if UriSyntax.starts_with [SLASH] p then PCT_PATH else PATH_NOSCHEME)) (Percent.split1 SLASH p)).

Definition S_HTTP_ST : bytes := X "68747470".
Definition S_HTTPS_ST : bytes := X "6874747073".
Definition http_scheme (s : bytes) : bool := bytes_eqb s S_HTTP_ST || bytes_eqb s S_HTTPS_ST.

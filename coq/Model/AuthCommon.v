(* Shared pieces of the authentication models (httoop/authentication/__init__.py, the parameter
   formatting of httoop/header/element.py, and the Python bytes operations they use).
   Definitions only; lemmas are in Proofs/AuthCommon.v.  Tables come from Gen/AuthT.v (T1). *)
From Httoop Require Export Lib.Bytes Lib.Variant Gen.AuthT.
Local Open Scope N_scope.

(* ---- ASCII literals for the byte-string constants that appear in the Python source:  L "auth-int" ---- *)
Inductive asciilit := AsciiLit (bs : bytes).
Definition of_asciilit (h : asciilit) : bytes := match h with AsciiLit l => l end.
Declare Scope asciilit_scope.
Delimit Scope asciilit_scope with asciilit.
String Notation asciilit AsciiLit of_asciilit : asciilit_scope.
Definition L (h : asciilit) : bytes := of_asciilit h.
Arguments L h%asciilit.

Definition SP : byte := x20.
Definition COLON : byte := x3a.
Definition COMMA : byte := x2c.
Definition EQS : byte := x3d.
Definition DQ : byte := x22.
Definition BSL : byte := x5c.
Definition QM : byte := x3f.

Definition is_empty (l : bytes) : bool := match l with [] => true | _ => false end.
(* Python truthiness of  d.get(k)  for a bytes value *)
Definition truthy (o : option bytes) : bool := match o with Some (_ :: _) => true | _ => false end.
Definition odefault (dflt : bytes) (o : option bytes) : bytes := match o with Some v => v | None => dflt end.

(* ---- bytes.strip() / strip(DQUOTE) ---- *)
Definition is_ws (c : byte) : bool := inmask BYTES_WS c.
Fixpoint lstrip_by (p : byte -> bool) (l : bytes) : bytes :=
  match l with
  | c :: r => if p c then lstrip_by p r else l
  | [] => []
  end.
Definition rstrip_by (p : byte -> bool) (l : bytes) : bytes := rev (lstrip_by p (rev l)).
Definition strip_by (p : byte -> bool) (l : bytes) : bytes := rstrip_by p (lstrip_by p l).
Definition strip_ws : bytes -> bytes := strip_by is_ws.
Definition strip_dq : bytes -> bytes := strip_by (fun c => beq c DQ).

(* ---- bytes.split(sep, 1) / partition(sep) / split(sep) for a one-octet separator ---- *)
Fixpoint cut1 (sep : byte) (l : bytes) : option (bytes * bytes) :=
  match l with
  | [] => None
  | c :: r => if beq c sep then Some ([], r)
              else match cut1 sep r with Some (a, b) => Some (c :: a, b) | None => None end
  end.
(* partition(sep)[::2] *)
Definition partition1 (sep : byte) (l : bytes) : bytes * bytes :=
  match cut1 sep l with Some p => p | None => (l, []) end.
Fixpoint split1 (sep : byte) (l : bytes) : list bytes :=
  match l with
  | [] => [[]]
  | c :: r =>
      if beq c sep then [] :: split1 sep r
      else match split1 sep r with
           | h :: t => (c :: h) :: t
           | [] => [[c]]
           end
  end.

Fixpoint join (sep : bytes) (l : list bytes) : bytes :=
  match l with
  | [] => []
  | [x] => x
  | x :: r => x ++ sep ++ join sep r
  end.

Definition remove_byte (x : byte) (l : bytes) : bytes := filter (fun c => negb (beq c x)) l.

(* ---- bytes.lower() / bytes.title() from the regenerated per-octet tables ---- *)
Definition to_lower (c : byte) : byte := Nb (nth (N.to_nat (bN c)) BYTES_LOWER 0).
Definition to_upper (c : byte) : byte := Nb (nth (N.to_nat (bN c)) BYTES_UPPER 0).
Definition lower (l : bytes) : bytes := map to_lower l.
Fixpoint title_from (prev_cased : bool) (l : bytes) : bytes :=
  match l with
  | [] => []
  | c :: r =>
      if inmask BYTES_ISLOWER c then (if prev_cased then c else to_upper c) :: title_from true r
      else if inmask BYTES_ISUPPER c then (if prev_cased then to_lower c else c) :: title_from true r
      else c :: title_from false r
  end.
Definition title (l : bytes) : bytes := title_from false l.

(* ---- association lists keyed by byte strings ---- *)
Definition alist := list (bytes * bytes).
Fixpoint lookup {V} (k : bytes) (l : list (bytes * V)) : option V :=
  match l with
  | [] => None
  | (k', v) :: r => if bytes_eqb k k' then Some v else lookup k r
  end.
(* dict(pairs)[k]: the LAST binding wins *)
Definition lookup_last {V} (k : bytes) (l : list (bytes * V)) : option V := lookup k (rev l).

(* ---- substring tests of HeaderElement.decode_rfc2047_charset ---- *)
Fixpoint has2 (a b : byte) (l : bytes) : bool :=
  match l with
  | x :: ((y :: _) as r) => (beq x a && beq y b) || has2 a b r
  | _ => false
  end.
(* HeaderElement.decode_rfc2047_charset sends a value through email.header.decode_header only if it contains '=?'
   (the pinned guard adds: no DQUOTE '=?' and no '==?'; the D15 repair changes that part).  The models follow the plain
   path only, so every value containing '=?' is outside the model whichever form of the guard is present. *)
Definition rfc2047_guard (l : bytes) : bool := has2 EQS QM l.

(* ---- HeaderElement.formatparam(param, value) with quote=False, bytes value ---- *)
Definition has_tspecial (v : bytes) : bool := existsb (inmask AUTH_TSPECIALS) v.
(* value.replace(BACKSLASH, BACKSLASH BACKSLASH).replace(DQUOTE, BACKSLASH DQUOTE) *)
Definition esc_quoted (v : bytes) : bytes :=
  flat_map (fun c => if beq c BSL then [BSL; BSL] else if beq c DQ then [BSL; DQ] else [c]) v.
Definition formatparam (k v : bytes) : bytes :=
  match v with
  | [] => k
  | _ => if has_tspecial v then k ++ [EQS; DQ] ++ esc_quoted v ++ [DQ] else k ++ [EQS] ++ v
  end.

(* ---- outcomes ---- *)
Inductive aerr :=
| ENoScheme                 (* InvalidHeader: Authorization headers must contain authentication scheme *)
| EUnsupported              (* InvalidHeader: Unsupported authentication scheme *)
| EMissing (k : bytes)      (* InvalidHeader: Missing parameter (a KeyError caught by the element) *)
| EBase64                   (* InvalidHeader: Basic authentication contains invalid base64 *)
| ENoColon                  (* InvalidHeader: No username:password provided *)
| EUnknownAlg               (* InvalidHeader: Unknown digest authentication algorithm *)
| EKey (k : bytes)          (* KeyError escaping from a scheme-level call *)
| ENotImpl.                 (* NotImplementedError escaping *)

Inductive res (T : Type) := Ok (v : T) | Err (e : aerr).
Arguments Ok {T} v.
Arguments Err {T} e.
Definition bind {T U} (r : res T) (f : T -> res U) : res U :=
  match r with Ok v => f v | Err e => Err e end.
Notation "x <- e ;; f" := (bind e (fun x => f)) (at level 61, e at next level, right associativity).
Definition req (k : bytes) (o : option bytes) : res bytes :=
  match o with Some v => Ok v | None => Err (EKey k) end.
(* the element turns a KeyError of the scheme into InvalidHeader('Missing parameter ...') *)
Definition key_to_missing {T} (r : res T) : res T :=
  match r with Err (EKey k) => Err (EMissing k) | _ => r end.

Definition aerr_eqb (a b : aerr) : bool :=
  match a, b with
  | ENoScheme, ENoScheme | EUnsupported, EUnsupported | EBase64, EBase64 | ENoColon, ENoColon
  | EUnknownAlg, EUnknownAlg | ENotImpl, ENotImpl => true
  | EMissing k, EMissing k' | EKey k, EKey k' => bytes_eqb k k'
  | _, _ => false
  end.

(* what the application hands to Authorization(scheme, params) / the scheme classmethods: a dict with these keys *)
Record authinfo := mkAuth {
  d_username : option bytes; d_realm : option bytes; d_password : option bytes;
  d_nonce : option bytes; d_nc : option bytes; d_cnonce : option bytes; d_qop : option bytes;
  d_method : option bytes; d_uri : option bytes; d_body : option bytes;
  d_algorithm : option bytes; d_A1 : option bytes; d_response : option bytes; d_opaque : option bytes;
  d_authparam : option (bytes * bytes)
}.

(* scheme registry lookup: schemes[name.lower()] *)
Definition scheme_of (name : bytes) : option N := lookup (lower name) AUTH_REQ_SCHEMES.

(* result of parsing an element: (scheme.title(), params in the order the dict is built) *)
Inductive pres := POk (scheme : bytes) (params : alist) | PErr (e : aerr) | PUnmodelled.

(* Model of httoop/parser.py (StateMachine), httoop/server/__init__.py and httoop/client/__init__.py:
   the incremental parse loop, start-line / header / body phases, Content-Length and chunked
   framing, trailers, and the hooks in their real order.  Sub-parsers that have their own models
   elsewhere (start line + URI sanitisation, header-element semantics, content decoding, RFC 2047)
   are the fields of [callees]: every theorem quantifies over ALL callees; the correspondence run
   instantiates them with the (argument -> result) pairs the implementation actually evaluated. *)
From Coq Require Import ZArith.
From Httoop Require Export Lib.Bytes Lib.Split Lib.PyInt Lib.Variant Model.Headers Gen.ParserT.
Local Open Scope N_scope.

Inductive kind := Server | Client.
Inductive lineend := LE_CRLF | LE_LF.
Definition le_bytes (le : lineend) : bytes := match le with LE_CRLF => CRLF | LE_LF => [LF] end.

(* what the rest of the machine needs to know about a parsed start line *)
Record slinfo := { p11 : bool;      (* message.protocol >= (1, 1) *)
                   nobody : bool }. (* server: method in (HEAD, GET, TRACE) *)
Inductive slres := SlOk (i : slinfo) | SlErr (code : N) | SlEscape | SlMiss.
Inductive hres := HOk | HErr (code : N) | HEscape | HMiss.
Inductive dcres := DcOk (body : bytes) | DcErr (code : N) | DcDecodeError (* DecodeError / UnicodeDecodeError from the codec *) | DcEscape | DcMiss.
Inductive r2047 := RText (truthy : bool) (is_chunked : bool) (cl : option Z) | RInvalid | REscape | RMiss.
Inductive trres := TrOk (names : list bytes) | TrInvalid | TrEscape | TrMiss.

Record callees := {
  c_start : bytes -> slres;            (* Message.parse(line) + on_startline_complete hooks *)
  c_hdrs : bool -> hdrs -> hres;       (* on_headers_complete after the Host-present check *)
  c_decode : bytes -> bytes -> dcres;  (* Body.decompress(): Content-Encoding value, coded octets *)
  c_2047 : bytes -> r2047;             (* Headers.__getitem__ on a value that triggers RFC 2047 decoding *)
  c_trailer : bytes -> trres;          (* canonical names announced by a Trailer value *)
  c_connect : bytes -> bool;           (* client machine only: remove_invalid_headers strips the framing fields of the message with this
                                          status line (as found: whenever self.request is a CONNECT; RFC 7231 4.3.6: and the status is 2xx) *)
}.

Inductive err := EHttp (code : N) | EPeek411 (* 411 raised by check_message_without_body_containing_data *) | EEscape | EMiss | EFuel.

(* The implementation is [real].  Two of its decisions look at whatever happens to be in the buffer
   (line-end selection falls back to a bare LF; the 411 check peeks at the octets after the message) and the
   incremental consumption of complete header lines is an optimisation; each can be switched off to obtain
   the reference machines the fragmentation theorems are stated against. *)
Record config := { allow_lf : bool; peek411 : bool; eager_hdr : bool }.
Definition real : config := {| allow_lf := true; peek411 := true; eager_hdr := true |}.
Definition reference : config := {| allow_lf := false; peek411 := false; eager_hdr := false |}.
Definition eager_reference : config := {| allow_lf := false; peek411 := false; eager_hdr := true |}.

Record msg := { m_line : bytes; m_hdrs : hdrs; m_body : bytes }.

Inductive phase := PHeaders | PBody.
Record inflight := {
  i_line : bytes; i_le : lineend; i_info : slinfo; i_phase : phase;
  i_hdrs : hdrs; i_ce : option bytes;
  i_len : option N; i_chunked : bool; i_trailer : bool; i_body : bytes }.
Record pstate := { buf : bytes; cur : option inflight }.
Definition init : pstate := {| buf := []; cur := None |}.

Definition set_phase (i : inflight) (p : phase) := {| i_line := i_line i; i_le := i_le i; i_info := i_info i; i_phase := p; i_hdrs := i_hdrs i; i_ce := i_ce i; i_len := i_len i; i_chunked := i_chunked i; i_trailer := i_trailer i; i_body := i_body i |}.
Definition set_hdrs (i : inflight) (h : hdrs) := {| i_line := i_line i; i_le := i_le i; i_info := i_info i; i_phase := i_phase i; i_hdrs := h; i_ce := i_ce i; i_len := i_len i; i_chunked := i_chunked i; i_trailer := i_trailer i; i_body := i_body i |}.
Definition set_ce (i : inflight) (c : option bytes) := {| i_line := i_line i; i_le := i_le i; i_info := i_info i; i_phase := i_phase i; i_hdrs := i_hdrs i; i_ce := c; i_len := i_len i; i_chunked := i_chunked i; i_trailer := i_trailer i; i_body := i_body i |}.
Definition set_len (i : inflight) (l : option N) := {| i_line := i_line i; i_le := i_le i; i_info := i_info i; i_phase := i_phase i; i_hdrs := i_hdrs i; i_ce := i_ce i; i_len := l; i_chunked := i_chunked i; i_trailer := i_trailer i; i_body := i_body i |}.
Definition set_chunked (i : inflight) (c : bool) := {| i_line := i_line i; i_le := i_le i; i_info := i_info i; i_phase := i_phase i; i_hdrs := i_hdrs i; i_ce := i_ce i; i_len := i_len i; i_chunked := c; i_trailer := i_trailer i; i_body := i_body i |}.
Definition set_trailer (i : inflight) (t : bool) := {| i_line := i_line i; i_le := i_le i; i_info := i_info i; i_phase := i_phase i; i_hdrs := i_hdrs i; i_ce := i_ce i; i_len := i_len i; i_chunked := i_chunked i; i_trailer := t; i_body := i_body i |}.
Definition set_body (i : inflight) (b : bytes) := {| i_line := i_line i; i_le := i_le i; i_info := i_info i; i_phase := i_phase i; i_hdrs := i_hdrs i; i_ce := i_ce i; i_len := i_len i; i_chunked := i_chunked i; i_trailer := i_trailer i; i_body := b |}.

(* outcome of one phase on the current buffer *)
Inductive pres (A : Type) := Need (a : A) (b : bytes) | Done (a : A) (b : bytes) | Fail (e : err).
Arguments Need {A}. Arguments Done {A}. Arguments Fail {A}.

Definition K_HOST := X "486f7374".
Definition K_TE := X "5472616e736665722d456e636f64696e67".
Definition K_CL := X "436f6e74656e742d4c656e677468".
Definition K_CE := X "436f6e74656e742d456e636f64696e67".
Definition K_TRAILER := X "547261696c6572".
Definition CHUNKED := X "6368756e6b6564".

Section WithCallees.
Variable cfg : config.
Variable C : callees.
Variable k : kind.

(* ---- start line: CRLF if anywhere in the buffer, else LF if anywhere, else wait ---- *)
Definition parse_startline (b : bytes) : pres (bytes * lineend * slinfo) :=
  let le := if contains CRLF b then Some LE_CRLF else if allow_lf cfg && contains [LF] b then Some LE_LF else None in
  match le with
  | None => Need ([], LE_CRLF, {| p11 := false; nobody := false |}) b
  | Some le =>
      match cut (le_bytes le) b with
      | None => Fail EFuel (* impossible *)
      | Some (line, rest) =>
          match c_start C line with
          | SlOk i => Done (line, le, i) rest
          | SlErr c => Fail (EHttp c)
          | SlEscape => Fail EEscape
          | SlMiss => Fail EMiss
          end
      end
  end.

(* ---- header section ---- *)
Definition parse_block (h : hdrs) (block : bytes) : option hdrs :=
  if nonempty_b block then hparse h block else Some h.

Definition parse_headers (le : lineend) (h : hdrs) (b : bytes) : pres hdrs :=
  let l := le_bytes le in
  if prefixb l b then Done h (skipn (length l) b)
  else match cut (l ++ l) b with
       | Some (block, rest) =>
           match parse_block h block with Some h' => Done h' rest | None => Fail (EHttp 400) end
       | None =>
           if negb (eager_hdr cfg) then Need h b else
           (* _parse_single_headers: consume complete lines once the next line is known not to continue them *)
           let parts := if suffixb l b
                        then match rcut l (firstn (length b - length l) b) with
                             | Some (hs, rest) => Some (hs, rest ++ l)
                             | None => None
                             end
                        else rcut l b in
           match parts with
           | Some (hs, rest) =>
               if nonempty_b hs && negb (match rest with [] => true | c :: _ => beq c SP || beq c HT end)
               then match parse_block h hs with Some h' => Need h' rest | None => Fail (EHttp 400) end
               else Need h b
           | None => Need h b
           end
       end.

(* ---- Headers.__getitem__ : RFC 2047 decoding only when the value asks for it ---- *)
(* re.search(b'==\\?(?!=)', value): an occurrence of "==?" that is not followed by "=" *)
Fixpoint eqeqq_not_eq (v : bytes) : bool :=
  match v with
  | a :: ((b :: c :: r) as t) =>
      (beq a x3d && beq b x3d && beq c x3f && negb (match r with d :: _ => beq d x3d | [] => false end))
      || eqeqq_not_eq t
  | _ => false
  end.
Definition triggers_2047 (v : bytes) : bool :=
  contains (X "3d3f") v && negb (contains (X "223d3f") v) && negb (eqeqq_not_eq v).

Inductive getres := GText (truthy is_chunked : bool) (cl : option Z) | GInvalid | GEscape | GMiss.
Definition hgetitem (v : bytes) : getres :=
  if triggers_2047 v then
    match c_2047 C v with
    | RText t c l => GText t c l
    | RInvalid => GInvalid | REscape => GEscape | RMiss => GMiss
    end
  else GText (nonempty_b v) (bytes_eqb (lower v) CHUNKED) (py_int10_text INT_MAX_STR_DIGITS v).

(* ---- determine_message_length ---- *)
Definition determine (i : inflight) : inflight + err :=
  match hget K_TE (i_hdrs i), p11 (i_info i) with
  | Some te, true =>
      match hgetitem te with
      | GText _ true _ => inl (set_chunked i true)
      | GText _ false _ => inr (EHttp 501)
      | GInvalid => inr (EHttp 400) | GEscape => inr EEscape | GMiss => inr EMiss
      end
  | _, _ =>
      match hget K_CL (i_hdrs i) with
      | None => inl (set_len i (Some 0))
      | Some v =>
          match hgetitem v with
          | GText _ _ (Some z) => if (z <? 0)%Z then inr (EHttp 400) else inl (set_len i (Some (Z.to_N z)))
          | GText _ _ None => inr (EHttp 400)
          | GInvalid => inr (EHttp 400) | GEscape => inr EEscape | GMiss => inr EMiss
          end
      end
  end.

(* ---- trailers ---- *)
(* Headers.append(name, value) *)
Definition happend (h : hdrs) (name value : bytes) : hdrs + err :=
  let key := canon name in
  match hget key h with
  | None => inl (hset key value h)
  | Some old =>
      match hgetitem old with
      | GText true _ _ => inl (hset key (old ++ join_sep name ++ value) h)
      | GText false _ _ => inl (hset key value h)
      | GInvalid => inr (EHttp 400) | GEscape => inr EEscape | GMiss => inr EMiss
      end
  end.

Fixpoint merge_trailers (names : list bytes) (h tr : hdrs) : (hdrs * hdrs) + err :=
  match names with
  | [] => inl (h, tr)
  | n :: r =>
      match hget n tr with
      | Some v => match happend h n v with
                  | inl h' => merge_trailers r h' (hdel n tr)
                  | inr e => inr e
                  end
      | None => merge_trailers r h tr
      end
  end.

Definition parse_trailers (i : inflight) (b : bytes) : pres inflight :=
  let l := le_bytes (i_le i) in
  if prefixb l b then Done i (skipn (length l) b)
  else match cut (l ++ l) b with
       | None => Need i b
       | Some (block, rest) =>
           match hparse [] block with
           | None => Fail (EHttp 400)
           | Some tr =>
               let names := match hget K_TRAILER (i_hdrs i) with
                            | None => TrOk []
                            | Some v => if nonempty_b v then c_trailer C v else TrOk []
                            end in
               match names with
               | TrOk ns =>
                   match merge_trailers ns (i_hdrs i) tr with
                   | inl (h', []) => Done (set_hdrs i h') rest
                   | inl (_, _ :: _) => Fail (EHttp 400)   (* untold trailers *)
                   | inr e => Fail e
                   end
               | TrInvalid => Fail (EHttp 400) | TrEscape => Fail EEscape | TrMiss => Fail EMiss
               end
           end
       end.

(* ---- chunked body: one turn per chunk; fuel = length of the buffer ---- *)
Fixpoint chunks (fuel : nat) (i : inflight) (b : bytes) : pres inflight :=
  if i_trailer i then parse_trailers i b else
  match fuel with
  | O => Fail EFuel
  | S f =>
      let l := le_bytes (i_le i) in
      match cut l b with
      | None => Need i b
      | Some (line, rest) =>
          let tok := strip (match cut1 SEMI line with Some (a, _) => a | None => line end) in
          match py_int16_bytes tok with
          | None => Fail (EHttp 400)
          | Some z =>
              if (z <? 0)%Z then Fail (EHttp 400) else
              let size := Z.to_N z in
              if N.of_nat (length rest) <? N.of_nat (length l) + size then Need i b
              else
                let n := N.to_nat size in   (* size <= length rest here: never a large unary number *)
                let i' := set_body i (i_body i ++ firstn n rest) in
                let rest' := skipn n rest in
                if size =? 0 then parse_trailers (set_trailer i' true) rest'
                else if prefixb l rest' then chunks f i' (skipn (length l) rest')
                else Fail (EHttp 400)
          end
      end
  end.

Definition body_with_length (i : inflight) (len : N) (b : bytes) : pres inflight :=
  let n := N.to_nat (N.min len (N.of_nat (length b))) in   (* b[:len]; the min keeps the unary number small *)
  let taken := firstn n b in
  let i' := set_len (set_body i (i_body i ++ taken)) (Some (len - N.of_nat (length taken))) in
  if N.of_nat (length taken) <? len then Need i' (skipn n b) else Done i' (skipn n b).

Definition parse_body (i : inflight) (b : bytes) : pres inflight :=
  let r := match i_len i, i_chunked i with
           | None, false => determine i
           | _, _ => inl i
           end in
  match r with
  | inr e => Fail e
  | inl i =>
      if i_chunked i then chunks (S (length b)) i b
      else match i_len i with
           | Some 0 | None => Done i b
           | Some len => body_with_length i len b
           end
  end.

(* ---- hooks ---- *)
(* ClientStateMachine.remove_invalid_headers: a response to CONNECT carries no framing fields *)
Definition connect_response (line : bytes) : bool := match k with Client => c_connect C line | Server => false end.
Definition hc_hdrs (line : bytes) (h : hdrs) : hdrs := if connect_response line then hdel K_TE (hdel K_CL h) else h.
Definition on_headers_complete (i : inflight) : inflight + err :=
  let h := i_hdrs i in
  if (match k with Server => p11 (i_info i) && negb (hmem K_HOST h) | Client => false end) then inr (EHttp 400)
  else match c_hdrs C (p11 (i_info i)) h with
       | HOk =>
           inl (set_ce (set_hdrs i (hc_hdrs (i_line i) h)) (hget K_CE h))
       | HErr c => inr (EHttp c) | HEscape => inr EEscape | HMiss => inr EMiss
       end.

Definition on_body_complete (i : inflight) (b : bytes) : msg + err :=
  let h := i_hdrs i in
  if (match k with Server => peek411 cfg && nonempty_b b && negb (hmem K_CL h) && negb (i_chunked i) | Client => false end)
  then inr EPeek411
  else
    let dec := match i_ce i with
               | Some ce => match c_decode C ce (i_body i) with
                            | DcOk b' => inl b' | DcErr c => inr (EHttp c) | DcDecodeError => inr (EHttp 400) | DcEscape => inr EEscape | DcMiss => inr EMiss
                            end
               | None => inl (i_body i)
               end in
    match dec with
    | inr e => inr e
    | inl body =>
        let overwrite := match CL_VARIANT with Repaired => i_chunked i | AsFound => false end in
        let h1 := if hmem K_CL h && negb overwrite then h else hset K_CL (dec_of_N (N.of_nat (length body))) h in
        let h2 := if i_chunked i then hdel K_TE h1 else h1 in
        if (match k with Server => nobody (i_info i) && nonempty_b body | Client => false end)
        then inr (EHttp 400)
        else inl {| m_line := i_line i; m_hdrs := h2; m_body := body |}
    end.

(* ---- one turn of  while self.buffer:  ---- *)
Inductive turn := TBlocked (s : pstate) | TMsg (s : pstate) (m : msg) | TErr (e : err).

Definition after_headers (i : inflight) (b : bytes) : turn :=
  match parse_body i b with
  | Fail e => TErr e
  | Need i' b' => TBlocked {| buf := b'; cur := Some i' |}
  | Done i' b' =>
      match on_body_complete i' b' with
      | inr e => TErr e
      | inl m => TMsg {| buf := b'; cur := None |} m
      end
  end.

Definition after_startline (i : inflight) (b : bytes) : turn :=
  match i_phase i with
  | PBody => after_headers i b
  | PHeaders =>
      match parse_headers (i_le i) (i_hdrs i) b with
      | Fail e => TErr e
      | Need h b' => TBlocked {| buf := b'; cur := Some (set_hdrs i h) |}
      | Done h b' =>
          match on_headers_complete (set_phase (set_hdrs i h) PBody) with
          | inr e => TErr e
          | inl i' => after_headers i' b'
          end
      end
  end.

Definition turn_of (s : pstate) : turn :=
  match cur s with
  | Some i => after_startline i (buf s)
  | None =>
      match parse_startline (buf s) with
      | Fail e => TErr e
      | Need _ _ => TBlocked s
      | Done (line, le, info) rest =>
          after_startline {| i_line := line; i_le := le; i_info := info; i_phase := PHeaders; i_hdrs := [];
                             i_ce := None; i_len := None; i_chunked := false; i_trailer := false; i_body := [] |} rest
      end
  end.

(* the while loop of _parse: stops when the buffer is empty, a phase blocks, or an error is raised *)
(* after an error the connection is abandoned: the state component is then the fixed value [init]
   (it is never used again); the messages completed before the error in the same call are still
   reported here, the caller (parse() = tuple(generator)) drops them *)
Fixpoint loop (fuel : nat) (s : pstate) (acc : list msg) : pstate * list msg * option err :=
  match buf s with
  | [] => (s, rev acc, None)
  | _ :: _ =>
      match fuel with
      | O => (init, rev acc, Some EFuel)
      | S f =>
          match turn_of s with
          | TBlocked s' => (s', rev acc, None)
          | TErr e => (init, rev acc, Some e)
          | TMsg s' m => loop f s' (m :: acc)
          end
      end
  end.

(* StateMachine.parse(data) *)
Definition parse (s : pstate) (data : bytes) : pstate * list msg * option err :=
  let s0 := {| buf := buf s ++ data; cur := cur s |} in
  loop (S (length (buf s0))) s0 [].

End WithCallees.

(* ---- when does the implementation ([real]) use one of its buffer-dependent shortcuts? ----
   (observable on the implementation: line_end == LF was selected / the 411 peek raised) *)
Section Quiet.
Variable C : callees.
Variable k : kind.

Definition lf_select (s : pstate) : bool :=
  match cur s with None => negb (contains CRLF (buf s)) && contains [LF] (buf s) | Some _ => false end.
Definition is_peek (t : turn) : bool := match t with TErr EPeek411 => true | _ => false end.
Definition quiet_turn (s : pstate) : bool := negb (lf_select s) && negb (is_peek (turn_of real C k s)).

Fixpoint quiet_loop (fuel : nat) (s : pstate) : bool :=
  match buf s with
  | [] => true
  | _ :: _ =>
      match fuel with
      | O => true
      | S f => quiet_turn s && match turn_of real C k s with TMsg s' _ => quiet_loop f s' | _ => true end
      end
  end.
Definition quiet_parse (s : pstate) (d : bytes) : bool :=
  let s0 := {| buf := buf s ++ d; cur := cur s |} in quiet_loop (S (length (buf s0))) s0.

Fixpoint quiet_run (s : pstate) (frags : list bytes) : bool :=
  match frags with
  | [] => true
  | f :: fr => quiet_parse s f && match parse real C k s f with (s1, _, None) => quiet_run s1 fr | _ => true end
  end.
End Quiet.

(* Model of httoop/authentication/digest.py: DigestAuthScheme.{get_algorithm, compose, parse} and
   DigestAuthRequestScheme.{_compose, parse, check, calculate_request_digest, A1, A2}.
   Definitions only; proofs are in Proofs/Digest.v.

   The hash functions are a Section variable  H : N -> bytes -> bytes  (0 = lower-case hex MD5,
   1 = lower-case hex SHA-256, numbering of Gen/AuthT.DIGEST_ALGS).  The fresh nonce of generate_nonce
   (time + uuid4) is the Section variable [fresh].

   Finding D22 is indexed by a variant chosen by a T1 probe:
     AsFound:  A2 looks up params['algorithm'] for auth-int (KeyError when the algorithm is unspecified)
     Repaired: params.get('algorithm', 'MD5') *)
From Httoop Require Export Model.AuthCommon.
Local Open Scope N_scope.

Definition is_ascii (c : byte) : bool := bN c <? 128.

(* get_algorithm(text): text = bytes.decode('ASCII', 'replace') - a non-ASCII octet becomes U+FFFD and never matches *)
Definition alg_of_text (a : bytes) : res N :=
  if forallb is_ascii a then
    match lookup a DIGEST_ALGS with Some h => Ok h | None => Err EUnknownAlg end
  else Err EUnknownAlg.
(* get_algorithm(bytes): decode('ASCII', 'ignore') - non-ASCII octets are dropped *)
Definition alg_of_bytes (a : bytes) : res N :=
  match lookup (filter is_ascii a) DIGEST_ALGS with Some h => Ok h | None => Err EUnknownAlg end.

Definition c3 (a b c : bytes) : bytes := a ++ [COLON] ++ b ++ [COLON] ++ c.
Definition c2 (a b : bytes) : bytes := a ++ [COLON] ++ b.

Section Digest.
Variable H : N -> bytes -> bytes.
Variable fresh : bytes.

(* DigestAuthRequestScheme.A1 *)
Definition A1 (d : authinfo) : res bytes :=
  let alg := odefault [] (d_algorithm d) in
  if is_empty alg || bytes_eqb alg (L "MD5") then
    u <- req (L "username") (d_username d) ;;
    r <- req (L "realm") (d_realm d) ;;
    p <- req (L "password") (d_password d) ;;
    Ok (c3 u r p)
  else if bytes_eqb alg (L "MD5-sess") then
    h <- alg_of_bytes alg ;;
    u <- req (L "username") (d_username d) ;;
    r <- req (L "realm") (d_realm d) ;;
    p <- req (L "password") (d_password d) ;;
    n <- req (L "nonce") (d_nonce d) ;;
    c <- req (L "cnonce") (d_cnonce d) ;;
    Ok (c3 (H h (c3 u r p)) n c)
  else Err ENotImpl.

(* DigestAuthRequestScheme.A2 *)
Definition A2 (v : variant) (d : authinfo) : res bytes :=
  let qop := odefault [] (d_qop d) in
  if is_empty qop || bytes_eqb qop (L "auth") then
    m <- req (L "method") (d_method d) ;;
    u <- req (L "uri") (d_uri d) ;;
    Ok (c2 m u)
  else if bytes_eqb qop (L "auth-int") then
    h <- match v with
         | AsFound => a <- req (L "algorithm") (d_algorithm d) ;; alg_of_bytes a
         | Repaired => alg_of_bytes (odefault (L "MD5") (d_algorithm d))
         end ;;
    m <- req (L "method") (d_method d) ;;
    u <- req (L "uri") (d_uri d) ;;
    b <- req (L "entity_body") (d_body d) ;;
    Ok (c3 m u (H h b))
  else Err ENotImpl.

(* DigestAuthRequestScheme.calculate_request_digest *)
Definition calc_digest (v : variant) (d : authinfo) : res bytes :=
  let alg := odefault (L "MD5") (d_algorithm d) in
  h <- alg_of_text alg ;;
  secret <- (if bytes_eqb alg (L "MD5-sess") && truthy (d_A1 d)
             then Ok (H h (odefault [] (d_A1 d)))
             else a1 <- A1 d ;; Ok (H h a1)) ;;
  a2 <- A2 v d ;;
  let hash_a2 := H h a2 in
  data <- match d_qop d with
          | None => n <- req (L "nonce") (d_nonce d) ;; Ok (c2 n hash_a2)
          | Some q =>
              if bytes_eqb q (L "auth") || bytes_eqb q (L "auth-int") then
                n <- req (L "nonce") (d_nonce d) ;;
                nc <- req (L "nc") (d_nc d) ;;
                cn <- req (L "cnonce") (d_cnonce d) ;;
                Ok (n ++ [COLON] ++ nc ++ [COLON] ++ cn ++ [COLON] ++ q ++ [COLON] ++ hash_a2)
              else Err ENotImpl
          end ;;
  Ok (H h (c2 secret data)).

(* DigestAuthScheme.generate_nonce: the algorithm lookup can fail; the value itself is [fresh] *)
Definition generate_nonce (d : authinfo) : res bytes :=
  _ <- alg_of_text (odefault (L "MD5") (d_algorithm d)) ;; Ok fresh.

(* DigestAuthRequestScheme._compose: the (name, value) list with the None entries dropped *)
Definition somes (l : list (bytes * option bytes)) : alist :=
  flat_map (fun kv => match snd kv with Some v => [(fst kv, v)] | None => [] end) l.

Definition digest_compose_params (v : variant) (d : authinfo) : res alist :=
  username <- req (L "username") (d_username d) ;;
  realm <- req (L "realm") (d_realm d) ;;
  uri <- req (L "uri") (d_uri d) ;;
  let nonce := remove_byte DQ (odefault [] (d_nonce d)) in
  cn_nc <- (if truthy (d_qop d)
            then c <- req (L "cnonce") (d_cnonce d) ;; n <- req (L "nc") (d_nc d) ;; Ok (Some c, Some n)
            else Ok (None, None)) ;;
  nonce' <- (if is_empty nonce then generate_nonce d else Ok nonce) ;;
  response <- (if truthy (d_response d) then Ok (odefault [] (d_response d)) else calc_digest v d) ;;
  Ok (somes [(L "username", Some username); (L "realm", Some realm); (L "nonce", Some nonce'); (L "uri", Some uri);
             (L "response", Some response); (L "algorithm", d_algorithm d); (L "cnonce", fst cn_nc);
             (L "opaque", d_opaque d); (L "qop", d_qop d); (L "nc", snd cn_nc)]
      ++ match d_authparam d with Some kv => [kv] | None => [] end).

(* DigestAuthScheme.compose *)
Definition digest_compose (v : variant) (d : authinfo) : res bytes :=
  ps <- digest_compose_params v d ;;
  Ok (join [COMMA; SP] (map (fun kv => formatparam (fst kv) (snd kv)) ps)).

(* DigestAuthRequestScheme.check(authinfo, request_params) *)
Definition digest_check (v : variant) (d : authinfo) (request_params : alist) : res bool :=
  realm <- req (L "realm") (d_realm d) ;;
  realm' <- req (L "realm") (lookup (L "realm") request_params) ;;
  if negb (bytes_eqb realm realm') then Ok false
  else
    r <- calc_digest v d ;;
    r' <- req (L "response") (lookup (L "response") request_params) ;;
    Ok (bytes_eqb r r').
End Digest.

(* DigestAuthScheme.parse: split at every comma, partition each atom at the first '=' *)
Definition digest_atoms (info : bytes) : list bytes :=
  match filter (fun x => negb (is_empty x)) (map strip_ws (split1 COMMA info)) with
  | [] => [[]]
  | l => l
  end.
Definition digest_parse_atom (atom : bytes) : bytes * bytes :=
  let (k, v) := partition1 EQS atom in (strip_ws k, strip_dq (strip_ws v)).
Definition digest_parse_base (info : bytes) : alist := map digest_parse_atom (digest_atoms info).

(* DigestAuthRequestScheme.parse *)
Definition digest_parse_params (ps : alist) : res alist :=
  let get k := lookup_last k ps in
  let qop := get (L "qop") in
  cn_nc <- (if truthy qop
            then c <- req (L "cnonce") (get (L "cnonce")) ;; n <- req (L "nc") (get (L "nc")) ;; Ok (Some c, Some n)
            else Ok (None, None)) ;;
  username <- req (L "username") (get (L "username")) ;;
  realm <- req (L "realm") (get (L "realm")) ;;
  nonce <- req (L "nonce") (get (L "nonce")) ;;
  uri <- req (L "uri") (get (L "uri")) ;;
  response <- req (L "response") (get (L "response")) ;;
  Ok (somes [(L "username", Some username); (L "realm", Some realm); (L "nonce", Some nonce); (L "uri", Some uri);
             (L "response", Some response); (L "algorithm", get (L "algorithm")); (L "cnonce", fst cn_nc);
             (L "opaque", get (L "opaque")); (L "qop", qop); (L "nc", snd cn_nc)]).
Definition digest_parse (info : bytes) : res alist := digest_parse_params (digest_parse_base info).

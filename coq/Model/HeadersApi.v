(* Model of the mapping interface of httoop/header/headers.py (Headers on top of util.CaseInsensitiveDict):
   key canonicalisation and validation (Headers.formatkey), value formatting (HeaderElement.encode_rfc2047 /
   decode_rfc2047), set / append / delete / pop / membership / getbytes / get / parse / compose as a state
   machine over [hdrs], and the three list-element split functions compose uses (HeaderElement.split,
   SetCookie.split, AuthElement.split).  Builds on Model/Headers.v (not changed).  Definitions only; lemmas
   are in Proofs/HeadersApi.v.  Tables: Gen/HeadersT.v, Gen/HeadersApiT.v, Gen/Base64T.v. *)
From Httoop Require Export Model.Headers Model.Base64 Lib.Utf8 Lib.Variant Gen.HeadersApiT.
Local Open Scope N_scope.

Definition DQ : byte := x22.
Definition EQ : byte := x3d.
Definition QM : byte := x3f.
Definition COMMA : byte := x2c.
Definition BSL : byte := x5c.
Definition STAR : byte := x2a.
Definition SQ : byte := x27.

Definition is_ascii (c : byte) : bool := bN c <? 128.

(* ---------- text: Python str as a list of code points; UTF-8 and Latin-1 codecs ---------- *)
Definition text := list N.

Definition utf8_enc1 (cp : N) : option bytes :=
  if cp <? 0x80 then Some [Nb cp]
  else if cp <? 0x800 then Some [Nb (0xC0 + cp / 64); Nb (0x80 + cp mod 64)]
  else if cp <? 0x10000 then
    if (0xD800 <=? cp) && (cp <=? 0xDFFF) then None     (* lone surrogate: UnicodeEncodeError *)
    else Some [Nb (0xE0 + cp / 4096); Nb (0x80 + (cp / 64) mod 64); Nb (0x80 + cp mod 64)]
  else if cp <? 0x110000 then
    Some [Nb (0xF0 + cp / 262144); Nb (0x80 + (cp / 4096) mod 64); Nb (0x80 + (cp / 64) mod 64); Nb (0x80 + cp mod 64)]
  else None.

Fixpoint utf8_enc (t : text) : option bytes :=
  match t with
  | [] => Some []
  | cp :: r => match utf8_enc1 cp, utf8_enc r with
               | Some a, Some b => Some (a ++ b)
               | _, _ => None
               end
  end.

Definition is_latin1 (t : text) : bool := forallb (fun cp => cp <? 256) t.
Definition is_ascii_text (t : text) : bool := forallb (fun cp => cp <? 128) t.
Definition latin1_enc (t : text) : bytes := map Nb t.

(* bytes.decode('ISO8859-1') re-expressed in UTF-8 (the model writes every str result as its UTF-8 octets) *)
Definition l1u8 (c : byte) : bytes :=
  let n := bN c in if n <? 128 then [c] else [Nb (0xC0 + n / 64); Nb (0x80 + n mod 64)].
Definition latin1_to_utf8 (l : bytes) : bytes := flat_map l1u8 l.

(* util.to_unicode(bytes): UTF-8 if it decodes, else Latin-1 *)
Definition to_unicode (b : bytes) : bytes := if utf8_valid b then b else latin1_to_utf8 b.

(* ---------- RFC 2047 (HeaderElement.encode_rfc2047 / decode_rfc2047_charset) ---------- *)
(* None = UnicodeEncodeError (lone surrogate in non-Latin-1 text) *)
Definition encode_rfc2047 (t : text) : option bytes :=
  if is_latin1 t then Some (latin1_enc t)
  else match utf8_enc t with
       | Some u => Some (EW_PREFIX ++ b64enc u ++ EW_SUFFIX)
       | None => None
       end.

(* the third conjunct of the guard:  b'==?' in value   (pinned tree)   /   re.search(b'==\?(?!=)', value)   (D15 repaired) *)
Fixpoint has_eeq (v : variant) (l : bytes) : bool :=
  match l with
  | [] => false
  | a :: r =>
      (beq a EQ && prefixb [EQ; QM] r &&
       match v with AsFound => true | Repaired => negb (prefixb [EQ] (skipn 2 r)) end)
      || has_eeq v r
  end.

Definition looks_encoded (v : variant) (l : bytes) : bool :=
  contains [EQ; QM] l && negb (contains [DQ; EQ; QM] l) && negb (has_eeq v l).

Definition is_b64ch (c : byte) : bool := (dec_char c <? 64) || beq c B64PAD.

(* a value that is exactly one encoded word in the framing encode_rfc2047 produces, payload over the
   base64 output alphabet: its payload *)
Definition ew_single (l : bytes) : option bytes :=
  let np := length EW_PREFIX in
  let ns := length EW_SUFFIX in
  if prefixb EW_PREFIX l && Nat.leb (np + ns) (length l) then
    let mid := skipn np l in
    let p := firstn (length mid - ns) mid in
    if bytes_eqb (skipn (length mid - ns) mid) EW_SUFFIX && forallb is_b64ch p then Some p else None
  else None.

(* email.header.decode_header for a b-encoded word: missing padding is added, then the lenient a2b_base64 *)
Definition pad4 (p : bytes) : bytes :=
  match Nat.modulo (length p) 4 with
  | 1%nat => p ++ [B64PAD; B64PAD; B64PAD]
  | 2%nat => p ++ [B64PAD; B64PAD]
  | 3%nat => p ++ [B64PAD]
  | _ => p
  end.
Definition ew_decode (p : bytes) : option bytes :=
  match a2b_base64 (pad4 p) with
  | Some x => if utf8_valid x then Some x else None    (* UnicodeDecodeError -> InvalidHeader *)
  | None => None                                       (* HeaderParseError -> InvalidHeader *)
  end.

Section Api.
(* which behaviour of the two defects scheduled for a fix the working tree shows (T1 probes) *)
Variable vkey : variant.    (* D32: HEADER_RE tested after title() (AsFound) or before it (Repaired) *)
Variable vew : variant.     (* D15: guard "==?" (AsFound) or "==?" not followed by "=" (Repaired) *)
(* callees outside the model *)
Variable utitle : bytes -> bytes.          (* str.title() of text containing non-ASCII characters (UTF-8 in and out) *)
Variable dechdr : bytes -> option bytes.   (* email.header.decode_header + charset decoding of anything but a single
                                              word in httoop's own framing: None = InvalidHeader, Some = text (UTF-8) *)

(* HeaderElement.decode_rfc2047(raw): the str, written in UTF-8; None = InvalidHeader *)
Definition decode_rfc2047 (raw : bytes) : option bytes :=
  if looks_encoded vew raw then
    match ew_single raw with
    | Some p => ew_decode p
    | None => dechdr raw
    end
  else Some (latin1_to_utf8 raw).

(* ---------- keys ---------- *)
Inductive key := KB (b : bytes) | KT (u : bytes).     (* bytes key | str key (given by its UTF-8 octets) *)
Definition key_utf8 (k : key) : bytes := match k with KB b => to_unicode b | KT u => u end.

(* CaseInsensitiveDict.formatkey: to_unicode(key).title() *)
Definition tkey (k : key) : bytes :=
  let u := key_utf8 k in if forallb is_ascii u then title u else utitle u.

Definition spell (t : bytes) : bytes := match assoc t HEADER_SPELLING with Some s => s | None => t end.

(* Headers.formatkey: None = InvalidHeader *)
Definition formatkey (k : key) : option bytes :=
  match vkey with
  | Repaired => let u := key_utf8 k in if name_ok u then Some (canon u) else None
  | AsFound => let t := tkey k in if name_ok t then Some (spell t) else None
  end.

(* Element.join of HEADER.get(key, HeaderElement) *)
Definition key_sep (k : key) : bytes :=
  match assoc (tkey k) HEADER_JOIN with Some s => s | None => DEFAULT_JOIN end.

(* ---------- values ---------- *)
Inductive val := VB (b : bytes) | VT (t : text).
Definition formatvalue (v : val) : option bytes :=
  match v with VB b => Some b | VT t => encode_rfc2047 t end.

(* ---------- Headers.parse with the state it leaves behind when it raises ---------- *)
Fixpoint hparse_st (h : hdrs) (cur : option (bytes * bytes)) (lines : list bytes) : hdrs * bool :=
  match lines with
  | [] => (commit h cur, true)
  | l :: rest =>
      match cur with
      | Some (name, raw) =>
          if starts_ws l then hparse_st h (Some (name, raw ++ tl l)) rest
          else match parse_line l with
               | Some nv => hparse_st (commit h cur) (Some nv) rest
               | None => (commit h cur, false)
               end
      | None =>
          match parse_line l with
          | Some nv => hparse_st h (Some nv) rest
          | None => (h, false)
          end
      end
  end.

(* ---------- the split functions of list-element fields ---------- *)
(* RE_SPLIT / RE_PARAMS .split: a separator splits iff an even number of double quotes follows it.
   Right to left: (odd number of quotes so far?, piece under construction, finished pieces) *)
Fixpoint psplit_aux (sep : byte) (l : bytes) : bool * bytes * list bytes :=
  match l with
  | [] => (false, [], [])
  | c :: r =>
      let '(odd, h, t) := psplit_aux sep r in
      if beq c DQ then (negb odd, c :: h, t)
      else if beq c sep && negb odd then (odd, [], h :: t)
      else (odd, c :: h, t)
  end.
Definition psplit (sep : byte) (l : bytes) : list bytes := let '(_, h, t) := psplit_aux sep l in h :: t.

(* HeaderElement.split *)
Definition esplit (v : bytes) : list bytes := map strip (psplit COMMA v).

(* SetCookie.split first puts the date of an expires attribute between double quotes (re.sub, case-insensitive:
   the word expires, an equals sign, one octet that is not a double quote, then one or more octets that are not
   a semicolon; the pattern text is pinned in harness/tables/headers_api.py) *)
Definition EXPIRES : bytes := [x65; x78; x70; x69; x72; x65; x73].
Definition exp_match (l : bytes) : bool :=
  bytes_eqb (lower (firstn 7 l)) EXPIRES &&
  match skipn 7 l with
  | q :: x :: y :: _ => beq q EQ && negb (beq x DQ) && negb (beq y SEMI)
  | _ => false
  end.
Inductive smode := MNormal | MPre (n : nat) | MRaw (n : nat) | MInQ.
Fixpoint sub_exp (m : smode) (l : bytes) : bytes :=
  match l with
  | [] => match m with MInQ => [DQ] | _ => [] end
  | c :: r =>
      match m with
      | MNormal => if exp_match l then c :: sub_exp (MPre 7) r else c :: sub_exp MNormal r
      | MPre (S (S k)) => c :: sub_exp (MPre (S k)) r
      | MPre _ => c :: DQ :: sub_exp (MRaw 2) r
      | MRaw (S (S k)) => c :: sub_exp (MRaw (S k)) r
      | MRaw _ => c :: sub_exp MInQ r
      | MInQ => if beq c SEMI then DQ :: c :: sub_exp MNormal r else c :: sub_exp MInQ r
      end
  end.
Definition setcookie_split (v : bytes) : list bytes := esplit (sub_exp MNormal v).

(* AuthElement.split: RE_SPACE_SPLIT (maximal whitespace runs followed by an even number of quotes), then
   one element per piece that is neither "," nor contains "=" (pieces before the first such piece are dropped) *)
Definition re_ws (c : byte) : bool := inmask RE_WS c.
Fixpoint wsplit_aux (l : bytes) : bool * bool * bytes * list bytes :=
  match l with
  | [] => (false, false, [], [])
  | c :: r =>
      let '(odd, inrun, h, t) := wsplit_aux r in
      if beq c DQ then (negb odd, false, c :: h, t)
      else if re_ws c && negb odd then
        if inrun then (odd, true, h, t) else (odd, true, [], h :: t)
      else (odd, false, c :: h, t)
  end.
Definition wsplit (l : bytes) : list bytes := let '(_, _, h, t) := wsplit_aux l in h :: t.
Definition auth_start (p : bytes) : bool := negb (bytes_eqb p [COMMA]) && negb (existsb (fun c => beq c EQ) p).
Fixpoint auth_grp (ps : list bytes) : list bytes * list bytes :=
  match ps with
  | [] => ([], [])
  | p :: r =>
      let '(pend, gs) := auth_grp r in
      if auth_start p then ([], join_with [SP] (p :: pend) :: gs) else (p :: pend, gs)
  end.
Definition auth_split (v : bytes) : list bytes := snd (auth_grp (wsplit v)).

Definition lsplit (kind : N) (v : bytes) : list bytes :=
  if kind =? 0 then esplit v else if kind =? 1 then setcookie_split v else auth_split v.

(* ---------- Headers.compose ---------- *)
Definition known (t : bytes) : bool := existsb (bytes_eqb t) HEADER_KNOWN.
(* key = Element.__name__ for registered fields; .encode('ascii', 'ignore') *)
Definition wire_name (k : bytes) : bytes :=
  let t := title k in filter is_ascii (if known t then spell t else k).
Definition list_kind (k : bytes) : option N := assoc (title k) HEADER_LIST.
Definition enc_item (kv : bytes * bytes) : list (bytes * bytes) :=
  let k' := wire_name (fst kv) in
  match list_kind (fst kv) with
  | Some kind => map (fun e => (k', e)) (lsplit kind (snd kv))
  | None => [(k', snd kv)]
  end.

(* sorted(..., key = priority or name): bytes are compared as octet strings; the sort is stable *)
Definition sort_key (k' : bytes) : bytes :=
  match assoc (title k') HEADER_PRIORITY with
  | Some p => if nonempty_b p then p else k'
  | None => k'
  end.
Fixpoint bytes_ltb (a b : bytes) : bool :=
  match a, b with
  | _, [] => false
  | [], _ :: _ => true
  | x :: a', y :: b' => (bN x <? bN y) || ((bN x =? bN y) && bytes_ltb a' b')
  end.
Definition bytes_leb (a b : bytes) : bool := negb (bytes_ltb b a).
Fixpoint insert_item (x : bytes * bytes) (l : list (bytes * bytes)) : list (bytes * bytes) :=
  match l with
  | [] => [x]
  | y :: r => if bytes_leb (sort_key (fst x)) (sort_key (fst y)) then x :: l else y :: insert_item x r
  end.
Definition sort_items (l : list (bytes * bytes)) : list (bytes * bytes) := fold_right insert_item [] l.

Definition hline (kv : bytes * bytes) : bytes := fst kv ++ [COLON; SP] ++ snd kv.
Definition hlines (h : hdrs) : list bytes := map hline (sort_items (flat_map enc_item h)).
Definition hcompose (h : hdrs) : bytes := concat_bytes (map (fun l => l ++ CRLF) (hlines h)) ++ CRLF.
(* what the message parser hands to Headers.parse: the block without the final CRLF CRLF *)
Definition hblock (h : hdrs) : bytes := join_with CRLF (hlines h).

(* ---------- well-formedness of a collection for the wire round trip (boolean) ----------
   values (for list-element fields: every element) contain no CRLF and have no leading or trailing
   whitespace; list-element fields are in joined-canonical form; names are valid and stored canonically;
   names are distinct *)
Definition wf_elem (e : bytes) : bool := negb (contains CRLF e) && bytes_eqb (strip e) e.
Definition wf_item (kv : bytes * bytes) : bool :=
  let k := fst kv in
  let v := snd kv in
  name_ok k && bytes_eqb (canon k) k &&
  match list_kind k with
  | Some kind =>
      let es := lsplit kind v in
      match es with [] => false | _ => forallb wf_elem es && bytes_eqb (join_with (join_sep k) es) v end
  | None => wf_elem v
  end.
Fixpoint uniqb (ks : list bytes) : bool :=
  match ks with
  | [] => true
  | k :: r => negb (existsb (bytes_eqb k) r) && uniqb r
  end.
Definition wf_hdrs (h : hdrs) : bool :=
  match h with [] => false | _ => forallb wf_item h && uniqb (map fst h) end.

(* ---------- the operations ---------- *)
Inductive op :=
| OSet (k : key) (v : val)       (* h[k] = v *)
| OAppend (k : key) (v : val)    (* h.append(k, v) *)
| ODel (k : key)                 (* del h[k] *)
| OPop (k : key)                 (* h.pop(k) *)
| OMem (k : key)                 (* k in h *)
| OGetBytes (k : key)            (* h.getbytes(k) *)
| OGet (k : key)                 (* h.get(k) *)
| OParse (d : bytes)             (* h.parse(d) *)
| OCompose                       (* bytes(h) *)
| OClear.                        (* h.clear() *)

Inductive res :=
| RUnit | RBool (b : bool) | ROpt (o : option bytes) | RBytes (b : bytes)
| RInvalid        (* InvalidHeader *)
| RKeyError
| RUnicode.       (* UnicodeEncodeError *)

Definition step (h : hdrs) (o : op) : hdrs * res :=
  match o with
  | OSet k v =>
      match formatkey k with
      | None => (h, RInvalid)
      | Some ck => match formatvalue v with
                   | None => (h, RUnicode)
                   | Some b => (hset ck b h, RUnit)
                   end
      end
  | OAppend k v =>
      match formatvalue v with
      | None => (h, RUnicode)
      | Some b =>
          match formatkey k with
          | None => (h, RInvalid)
          | Some ck =>
              match hget ck h with
              | None => (hset ck b h, RUnit)
              | Some old =>
                  match decode_rfc2047 old with
                  | None => (h, RInvalid)
                  | Some [] => (hset ck b h, RUnit)
                  | Some _ => (hset ck (old ++ key_sep k ++ b) h, RUnit)
                  end
              end
          end
      end
  | ODel k =>
      match formatkey k with
      | None => (h, RInvalid)
      | Some ck => if hmem ck h then (hdel ck h, RUnit) else (h, RKeyError)
      end
  | OPop k =>
      match formatkey k with
      | None => (h, RInvalid)
      | Some ck => (hdel ck h, ROpt (hget ck h))
      end
  | OMem k =>
      match formatkey k with
      | None => (h, RInvalid)
      | Some ck => (h, RBool (hmem ck h))
      end
  | OGetBytes k =>
      match formatkey k with
      | None => (h, RInvalid)
      | Some ck => (h, ROpt (hget ck h))
      end
  | OGet k =>
      match formatkey k with
      | None => (h, RInvalid)
      | Some ck =>
          match hget ck h with
          | None => (h, ROpt None)
          | Some raw => match decode_rfc2047 raw with
                        | Some u => (h, ROpt (Some u))
                        | None => (h, RInvalid)
                        end
          end
      end
  | OParse d =>
      let '(h', ok) := hparse_st h None (split_all CRLF d) in (h', if ok then RUnit else RInvalid)
  | OCompose => (h, RBytes (hcompose h))
  | OClear => ([], RUnit)
  end.

(* ---------- the same state machine over an arbitrary key normaliser ----------
   [gstep canon id] is [step] on the repaired tree (lemma step_gstep); [gstep lower conc] is the reference:
   a map keyed by the lower-cased name that knows nothing about title-casing or the spelling table. *)
Section Generic.
Variable norm : bytes -> bytes.
Variable view : hdrs -> hdrs.      (* how the stored collection is shown to compose *)

Definition gkey (k : key) : option bytes :=
  let u := key_utf8 k in if name_ok u then Some (norm u) else None.

Definition gcommit (h : hdrs) (cur : option (bytes * bytes)) : hdrs :=
  match cur with
  | None => h
  | Some (name, raw) =>
      let value := rstrip raw in
      let key := norm name in
      match hget key h with
      | Some old => hset key (old ++ join_sep name ++ value) h
      | None => hset key value h
      end
  end.

Fixpoint gparse_st (h : hdrs) (cur : option (bytes * bytes)) (lines : list bytes) : hdrs * bool :=
  match lines with
  | [] => (gcommit h cur, true)
  | l :: rest =>
      match cur with
      | Some (name, raw) =>
          if starts_ws l then gparse_st h (Some (name, raw ++ tl l)) rest
          else match parse_line l with
               | Some nv => gparse_st (gcommit h cur) (Some nv) rest
               | None => (gcommit h cur, false)
               end
      | None =>
          match parse_line l with
          | Some nv => gparse_st h (Some nv) rest
          | None => (h, false)
          end
      end
  end.

Definition gstep (h : hdrs) (o : op) : hdrs * res :=
  match o with
  | OSet k v =>
      match gkey k with
      | None => (h, RInvalid)
      | Some ck => match formatvalue v with
                   | None => (h, RUnicode)
                   | Some b => (hset ck b h, RUnit)
                   end
      end
  | OAppend k v =>
      match formatvalue v with
      | None => (h, RUnicode)
      | Some b =>
          match gkey k with
          | None => (h, RInvalid)
          | Some ck =>
              match hget ck h with
              | None => (hset ck b h, RUnit)
              | Some old =>
                  match decode_rfc2047 old with
                  | None => (h, RInvalid)
                  | Some [] => (hset ck b h, RUnit)
                  | Some _ => (hset ck (old ++ join_sep (key_utf8 k) ++ b) h, RUnit)
                  end
              end
          end
      end
  | ODel k =>
      match gkey k with
      | None => (h, RInvalid)
      | Some ck => if hmem ck h then (hdel ck h, RUnit) else (h, RKeyError)
      end
  | OPop k =>
      match gkey k with
      | None => (h, RInvalid)
      | Some ck => (hdel ck h, ROpt (hget ck h))
      end
  | OMem k =>
      match gkey k with
      | None => (h, RInvalid)
      | Some ck => (h, RBool (hmem ck h))
      end
  | OGetBytes k =>
      match gkey k with
      | None => (h, RInvalid)
      | Some ck => (h, ROpt (hget ck h))
      end
  | OGet k =>
      match gkey k with
      | None => (h, RInvalid)
      | Some ck =>
          match hget ck h with
          | None => (h, ROpt None)
          | Some raw => match decode_rfc2047 raw with
                        | Some u => (h, ROpt (Some u))
                        | None => (h, RInvalid)
                        end
          end
      end
  | OParse d =>
      let '(h', ok) := gparse_st h None (split_all CRLF d) in (h', if ok then RUnit else RInvalid)
  | OCompose => (h, RBytes (hcompose (view h)))
  | OClear => ([], RUnit)
  end.

Fixpoint grun (h : hdrs) (ops : list op) : hdrs * list res :=
  match ops with
  | [] => (h, [])
  | o :: r => let '(h1, x) := gstep h o in let '(h2, xs) := grun h1 r in (h2, x :: xs)
  end.
End Generic.

(* abstraction to the reference map, and the way back *)
Definition abs (h : hdrs) : hdrs := map (fun kv => (lower (fst kv), snd kv)) h.
Definition conc (r : hdrs) : hdrs := map (fun kv => (canon (fst kv), snd kv)) r.
(* the reference: keys are lower-cased names *)
Definition rstep := gstep lower conc.
Definition rrun := grun lower conc.

Fixpoint run (h : hdrs) (ops : list op) : hdrs * list res :=
  match ops with
  | [] => (h, [])
  | o :: r => let '(h1, x) := step h o in let '(h2, xs) := run h1 r in (h2, x :: xs)
  end.
End Api.

(* Model of httoop/uri/uri.py: URI.parse (the partition cascade), URI._unquote_host, the port setter,
   the tuple setter, URI.compose (= __bytes__) with _compose_absolute_iter / _compose_authority_iter /
   _compose_relative_iter, and the path_segments / query setters.  Definitions only; proofs are in
   Proofs/UriSplit.v and Proofs/UriSyntax.v.  Tables come from Gen/PercentT.v and Gen/UriT.v.

   Text (Python str) is represented by its UTF-8 octets: URI.encoding is 'UTF-8' (checked by T1), every
   str operation the code performs has ASCII arguments (split('/'), replace('/', '%2f'), startswith('/'),
   lower() of an ASCII scheme) and therefore commutes with the encoding.  What the charset decoder accepts
   ([valid]), socket.inet_pton/inet_ntop ([inet4], [inet6]) and the IDNA codec ([idna_dec], [idna_enc])
   are Section parameters. *)
From Coq Require Export ZArith.
From Httoop Require Export Lib.Bytes Lib.Variant Gen.PercentT Gen.UriT Model.Percent.
Local Open Scope N_scope.

Definition COLON : byte := x3a.
Definition SLASH : byte := x2f.
Definition QMARK : byte := x3f.
Definition HASH : byte := x23.
Definition AT : byte := x40.
Definition LBR : byte := x5b.
Definition RBR : byte := x5d.
Definition DOT : byte := x2e.
Definition LOWER_V : byte := x76.
Definition CSS : bytes := [COLON; SLASH; SLASH].   (* b'://' *)

(* ---------- Python bytes primitives ---------- *)

(* sep in data, one octet *)
Definition contains (sep : byte) (l : bytes) : bool := existsb (fun c => beq c sep) l.

Fixpoint starts_with (p l : bytes) : bool :=
  match p, l with
  | [], _ => true
  | a :: p', b :: l' => beq a b && starts_with p' l'
  | _ :: _, [] => false
  end.

(* data.endswith(c), one octet *)
Definition ends_with1 (c : byte) (l : bytes) : bool :=
  match rev l with x :: _ => beq x c | [] => false end.

(* data.partition(sep), one octet: (before, sep found, after);  not found = (data, '', '') *)
Fixpoint partf (sep : byte) (l : bytes) : bytes * bool * bytes :=
  match l with
  | [] => ([], false, [])
  | c :: r => if beq c sep then ([], true, r) else let '(a, f, b) := partf sep r in (c :: a, f, b)
  end.

(* data.rpartition(sep) for a non-empty separator: Some (before, after) at the LAST occurrence *)
Fixpoint rpart (sep l : bytes) : option (bytes * bytes) :=
  match l with
  | [] => None
  | c :: r =>
      match rpart sep r with
      | Some (a, b) => Some (c :: a, b)
      | None => if starts_with sep l then Some ([], skipn (List.length sep) l) else None
      end
  end.

(* data.strip(chars) with the character set as a mask *)
Fixpoint lstripm (m : N) (l : bytes) : bytes :=
  match l with
  | c :: r => if inmask m c then lstripm m r else l
  | [] => []
  end.
Definition stripm (m : N) (l : bytes) : bytes := rev (lstripm m (rev (lstripm m l))).

Definition is_digit (c : byte) : bool := let n := bN c in (48 <=? n) && (n <=? 57).
(* bytes.isdigit() *)
Definition isdigit (l : bytes) : bool := nonempty l && forallb is_digit l.

Definition lower1 (c : byte) : byte := let n := bN c in if (65 <=? n) && (n <=? 90) then Nb (n + 32) else c.
Definition lower (l : bytes) : bytes := map lower1 l.

Definition is_ascii (l : bytes) : bool := forallb (fun c => bN c <? 128) l.

(* int(data) for bytes without whitespace (httoop.util.integer; whitespace cannot reach it: the URI is
   checked to be printable non-blank ASCII first): optional sign, decimal digits, single underscores
   between digits; more than INT_MAX_STR_DIGITS digits is a ValueError in CPython >= 3.11 *)
Fixpoint int_digits (l : bytes) (acc : N) (cnt : N) (prev_digit : bool) : option (N * N) :=
  match l with
  | [] => if prev_digit then Some (acc, cnt) else None
  | c :: r =>
      if is_digit c then int_digits r (10 * acc + (bN c - 48)) (cnt + 1) true
      else if beq c x5f && prev_digit then
        match r with
        | d :: _ => if is_digit d then int_digits r acc cnt false else None
        | [] => None
        end
      else None
  end.

Definition py_int (l : bytes) : option Z :=
  let '(neg, body) :=
    match l with
    | c :: r => if beq c x2d then (true, r) else if beq c x2b then (false, r) else (false, l)
    | [] => (false, [])
    end in
  match int_digits body 0 0 false with
  | Some (n, cnt) =>
      if (0 <? INT_MAX_STR_DIGITS) && (INT_MAX_STR_DIGITS <? cnt) then None
      else Some (if neg then Z.opp (Z.of_N n) else Z.of_N n)
  | None => None
  end.

(* b'%d' % n *)
Definition digit_of (n : N) : byte := Nb (48 + n).
Fixpoint print_dec_fuel (fuel : nat) (n : N) : bytes :=
  match fuel with
  | O => [digit_of (n mod 10)]
  | S f => if n <? 10 then [digit_of n] else print_dec_fuel f (n / 10) ++ [digit_of (n mod 10)]
  end.
Definition print_dec (n : N) : bytes := print_dec_fuel (N.size_nat n) n.

(* scheme -> default port: URI.SCHEMES.get(scheme, URI).PORT, exact key *)
Definition scheme_port (scheme : bytes) : option N :=
  match find (fun kv => bytes_eqb (fst kv) scheme) URI_SCHEMES with
  | Some kv => snd kv
  | None => URI_BASE_PORT
  end.

(* text.replace('/', '%2f') *)
Definition esc_slash (l : bytes) : bytes :=
  flat_map (fun c => if beq c SLASH then [PCT; x32; x66] else [c]) l.

(* ---------- the eight slots ---------- *)

Record uri := mkUri {
  u_scheme : bytes; u_user : bytes; u_pass : bytes; u_host : bytes;
  u_port : option N;                      (* the _port slot: None or an int *)
  u_path : bytes; u_query : bytes; u_frag : bytes }.

(* the pieces URI.parse cuts the octet string into, before any decoding *)
Record raw := mkRaw {
  r_scheme : bytes; r_user : bytes; r_pass : bytes; r_host : bytes; r_port : bytes;
  r_path : bytes; r_query : bytes; r_frag : bytes }.

Inductive err := EInvalid (* InvalidURI *) | EUnicode (* UnicodeDecodeError escapes *).
Inductive res (A : Type) := Ok (a : A) | Err (e : err).
Arguments Ok {A} a.
Arguments Err {A} e.
Definition bind {A B} (r : res A) (f : A -> res B) : res B :=
  match r with Ok a => f a | Err e => Err e end.
Notation "x <- e ;; f" := (bind e (fun x => f)) (at level 61, e at next level, right associativity).

Fixpoint mapM {A B} (f : A -> res B) (l : list A) : res (list B) :=
  match l with
  | [] => Ok []
  | x :: r => y <- f x ;; ys <- mapM f r ;; Ok (y :: ys)
  end.

(* the port setter: port = port or self.PORT; 0 < integer(port) <= 65535 *)
Definition check_port (z : Z) : res (option N) :=
  if ((0 <? z) && (z <=? 65535))%Z then Ok (Some (Z.to_N z)) else Err EInvalid.

(* ... called with the octets found in a URI *)
Definition port_of_bytes (default : option N) (port : bytes) : res (option N) :=
  if nonempty port then
    match py_int port with Some z => check_port z | None => Err EInvalid end
  else Ok default.      (* a default port is already a valid int *)

(* ... called with an int or None through the API *)
Definition port_of_int (default : option N) (port : option N) : res (option N) :=
  match port with
  | Some 0 | None => Ok default
  | Some p => check_port (Z.of_N p)
  end.

(* self.port = self._port or self.PORT *)
Definition eff_port (slot default : option N) : option N :=
  match slot with Some 0 | None => default | Some p => Some p end.

(* PATH without ':' and '@' *)
Definition PATH_NOSCHEME : N := N.clearbit (N.clearbit PCT_PATH 58) 64.
(* the safe set of the user name: USERINFO, after the repair of D18 without ':' *)
Definition user_safe (vu : variant) : N :=
  match vu with AsFound => PCT_USERINFO | Repaired => N.clearbit PCT_USERINFO 58 end.

Definition path_of_segments (segs : list bytes) : bytes := join [SLASH] (map esc_slash segs).
Definition query_of_pairs (vq : variant) (ps : list (bytes * bytes)) : bytes := form_encode vq QS_UNQUOTED ps.

Section Uri.
(* bytes.decode('utf-8') succeeds *)
Variable valid : bytes -> bool.
(* inet_ntop(AF, inet_pton(AF, text)): canonical text, None = socket.error *)
Variable inet4 inet6 : bytes -> option bytes.
(* ascii-host.decode('idna').lower() and host.encode('idna') as UTF-8 / ASCII octets, None = UnicodeError *)
Variable idna_dec idna_enc : bytes -> option bytes.
(* vq: escape width of Percent.quote (D1); vu: ':' in user names (D18); v7: what an undecodable escape raises (D7) *)
Variable vq vu v7 : variant.

(* URI.unquote: Percent.unquote(data).decode('UTF-8') *)
Definition uq (d : bytes) : res bytes :=
  let u := unquote d in
  if valid u then Ok u else Err (match v7 with AsFound => EUnicode | Repaired => EInvalid end).

Definition unquote_host (host : bytes) : res bytes :=
  if starts_with [LBR] host && ends_with1 RBR host then
    let inner := removelast (tl host) in          (* host[1:-1] *)
    match inet6 inner with
    | Some t => Ok ([LBR] ++ t ++ [RBR])
    | None =>
        (* IPvFuture *)
        if starts_with [LOWER_V] inner && contains DOT inner && isdigit (fst (partition1 DOT (tl inner)))
        then Ok ([LBR] ++ inner ++ [RBR]) else Err EInvalid
    end
  else if forallb isdigit (split1 DOT host) then
    match inet4 host with Some t => Ok t | None => Err EInvalid end
  else if nonempty (stripm (N.lor (N.lor PCT_UNRESERVED PCT_SUB_DELIMS) (N.shiftl 1 37)) host) then Err EInvalid
  else
    h <- uq host ;;
    if is_ascii h then match idna_dec h with Some t => Ok t | None => Err EInvalid end
    else Err EInvalid.

(* the tuple setter; the query string has already been normalised *)
Definition assign (scheme user pass host : bytes) (port : res (option N)) (path query frag : bytes) : res uri :=
  p <- port ;; Ok (mkUri scheme user pass host p path query frag).

Definition norm_query (qs : bytes) : res bytes :=
  if nonempty qs then
    match qs_decode QS_INVALID qs with
    | None => Err EInvalid
    | Some ps =>
        if forallb (fun p => valid (fst p) && valid (snd p)) ps then Ok (form_encode vq QS_UNQUOTED ps)
        else Err (match v7 with AsFound => EUnicode | Repaired => EInvalid end)
    end
  else Ok qs.

(* the partition cascade of URI.parse: the eight raw pieces of the octet string *)
Definition uri_split (data : bytes) : raw :=
  let '(d1, fragment) := partition1 HASH data in
  let '(d2, query) := partition1 QMARK d1 in
  let '(scheme, authx, rest) :=
    match rpart CSS d2 with
    | Some (a, b) => (a, true, b)
    | None => ([], false, d2)
    end in
  let '(authx, rest) :=
    if negb authx && starts_with [SLASH; SLASH] rest then (true, skipn 2 rest) else (authx, rest) in
  let '(scheme, rest) :=
    if negb authx && contains COLON rest then partition1 COLON rest else (scheme, rest) in
  let '(authority, path) :=
    if authx then let '(a, f, p) := partf SLASH rest in (a, (if f then [SLASH] else []) ++ p)
    else ([], rest) in
  let '(userinfo, hostport) :=
    match rpart [AT] authority with Some (a, b) => (a, b) | None => ([], authority) end in
  let '(username, password) := partition1 COLON userinfo in
  let '(host, port) :=
    if contains COLON hostport && negb (ends_with1 RBR hostport) then
      match rpart [COLON] hostport with Some (a, b) => (a, b) | None => (hostport, []) end
    else (hostport, []) in
  mkRaw scheme username password host port path query fragment.

(* ... and what URI.parse then does with the pieces, in its order of evaluation *)
Definition uri_decode (r : raw) : res uri :=
  segs <- mapM (fun s => t <- uq s ;; Ok (esc_slash t)) (split1 SLASH (r_path r)) ;;
  let path' := join [SLASH] segs in
  let scheme' := lower (r_scheme r) in
  if nonempty scheme' && nonempty (stripm URI_SCHEME_CHARS scheme') then Err EInvalid else
  query' <- norm_query (r_query r) ;;
  user' <- uq (r_user r) ;;
  pass' <- uq (r_pass r) ;;
  host' <- unquote_host (r_host r) ;;
  frag' <- uq (r_frag r) ;;
  assign scheme' user' pass' host' (port_of_bytes (scheme_port scheme') (r_port r)) path' query' frag'.

Definition uri_parse (data : bytes) : res uri :=
  if nonempty data && nonempty (stripm URI_PRINTABLE data) then Err EInvalid
  else uri_decode (uri_split data).

(* URI(scheme=..., username=..., ..., port=int-or-None, ...): the dict / tuple setter *)
Definition uri_set (scheme user pass host : bytes) (port : option N) (path query frag : bytes) : res uri :=
  assign scheme user pass host (port_of_int (scheme_port scheme) port) path query frag.

Definition compose_authority (u : uri) : option bytes :=
  if nonempty (u_host u) then
    match idna_enc (u_host u) with
    | None => None       (* UnicodeError escapes *)
    | Some h =>
        let default := scheme_port (u_scheme u) in
        let port := eff_port (u_port u) default in
        Some ((if nonempty (u_user u)
               then quote vq (user_safe vu) (u_user u)
                    ++ (if nonempty (u_pass u) then [COLON] ++ quote vq PCT_USERINFO (u_pass u) else [])
                    ++ [AT]
               else [])
              ++ h
              ++ match port with
                 | Some p => if (p =? 0) || opt_eqb N.eqb port default then [] else [COLON] ++ print_dec p
                 | None => []
                 end)
    end
  else Some [].

Definition compose_relative (u : uri) : bytes :=
  let PATH := if negb (nonempty (u_scheme u)) && negb (starts_with [SLASH] (u_path u)) then PATH_NOSCHEME else PCT_PATH in
  join [SLASH] (map (quote vq PATH) (split1 SLASH (u_path u)))
  ++ (if nonempty (u_query u) then [QMARK] ++ u_query u else [])
  ++ (if nonempty (u_frag u) then [HASH] ++ quote vq PCT_FRAGMENT (u_frag u) else []).

(* bytes(uri); None = an exception (UnicodeError of the IDNA encoder) *)
Definition uri_compose (u : uri) : option bytes :=
  match compose_authority u with
  | None => None
  | Some authority =>
      Some ((if nonempty (u_scheme u) then quote vq PCT_SCHEME (u_scheme u) ++ [COLON] else [])
            ++ (if nonempty authority then [SLASH; SLASH] else [])
            ++ authority
            ++ compose_relative u)
  end.

End Uri.

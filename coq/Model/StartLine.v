(* Model of the start-line components of httoop:
     httoop/messages/method.py     Method.parse / compose            (METHOD_RE)
     httoop/messages/protocol.py   Protocol.parse / compose / __eq__ / __lt__ / __gt__   (PROTOCOL_RE)
     httoop/meta.py                Semantic.__ne__ / __le__ / __ge__
     httoop/status/status.py       Status.parse / compose            (STATUS_RE)
     httoop/messages/request.py    Request.parse / compose           (line.strip().split(None, 2))
     httoop/messages/response.py   Response.parse / compose          (line.strip().split(None, 1))
     httoop/server/__init__.py     check_request_protocol / set_response_protocol
   Definitions only; proofs are in Proofs/StartLine.v.  Octet classes, literals of the composers, the
   server's protocol version and CPython's int<->str digit limit come from Gen/StartLineT.v. *)
From Coq Require Export Decimal.
From Httoop Require Export Lib.Bytes Lib.Variant Gen.StartLineT.
Local Open Scope N_scope.

(* ------------------------------------------------------------------ Python bytes primitives *)

Definition isws (c : byte) : bool := inmask SL_WS c.

(* bytes.lstrip() / rstrip() / strip() without argument *)
Fixpoint lstrip (l : bytes) : bytes :=
  match l with
  | c :: r => if isws c then lstrip r else l
  | [] => []
  end.
Definition rstrip (l : bytes) : bytes := rev (lstrip (rev l)).
Definition strip (l : bytes) : bytes := rstrip (lstrip l).

Definition cons_head (c : byte) (l : list bytes) : list bytes :=
  match l with
  | h :: t => (c :: h) :: t
  | [] => [[c]]
  end.

(* bytes.split(None, k): runs of whitespace separate the items, at most [k] splits are made, the
   last item then is the remainder from its first non-blank octet to the end of the string.
   [inw] = currently inside an item (whose remaining octets are the head of the result). *)
Fixpoint split_ws_aux (k : nat) (inw : bool) (l : bytes) : list bytes :=
  match l with
  | [] => if inw then [[]] else []
  | c :: r =>
      if inw then
        if isws c then [] :: split_ws_aux k false r
        else cons_head c (split_ws_aux k true r)
      else
        if isws c then split_ws_aux k false r
        else match k with
             | O => [l]
             | S k' => cons_head c (split_ws_aux k' true r)
             end
  end.
Definition split_ws (k : nat) (l : bytes) : list bytes := split_ws_aux k false l.

(* bytes.split() without a limit, used only to state "number of fields" *)
Fixpoint words_aux (inw : bool) (l : bytes) : list bytes :=
  match l with
  | [] => if inw then [[]] else []
  | c :: r =>
      if isws c then (if inw then [] :: words_aux false r else words_aux false r)
      else cons_head c (words_aux true r)
  end.
Definition words (l : bytes) : list bytes := words_aux false l.
Definition nwords (l : bytes) : nat := List.length (words l).

Fixpoint strip_prefix (p l : bytes) : option bytes :=
  match p with
  | [] => Some l
  | a :: p' => match l with
               | c :: r => if beq a c then strip_prefix p' r else None
               | [] => None
               end
  end.
Definition startswith (p l : bytes) : bool := match strip_prefix p l with Some _ => true | None => false end.

(* longest prefix of octets in a class, and the rest  (a greedy  [class]*  ) *)
Fixpoint span (cls : N) (l : bytes) : bytes * bytes :=
  match l with
  | c :: r => if inmask cls c then let (a, b) := span cls r in (c :: a, b) else ([], l)
  | [] => ([], [])
  end.

Definition blen (l : bytes) : N := N.of_nat (List.length l).

(* ------------------------------------------------------------------ decimal numbers: int(digits), b'%d' *)

Definition dcons (d : N) (u : uint) : uint :=
  match d with
  | 0 => D0 u | 1 => D1 u | 2 => D2 u | 3 => D3 u | 4 => D4 u
  | 5 => D5 u | 6 => D6 u | 7 => D7 u | 8 => D8 u | _ => D9 u
  end.
Fixpoint uint_of_digits (l : bytes) : uint :=
  match l with
  | [] => Nil
  | c :: r => dcons (bN c - 48) (uint_of_digits r)
  end.
Fixpoint digits_of_uint (u : uint) : bytes :=
  match u with
  | Nil => []
  | D0 u => x30 :: digits_of_uint u | D1 u => x31 :: digits_of_uint u
  | D2 u => x32 :: digits_of_uint u | D3 u => x33 :: digits_of_uint u
  | D4 u => x34 :: digits_of_uint u | D5 u => x35 :: digits_of_uint u
  | D6 u => x36 :: digits_of_uint u | D7 u => x37 :: digits_of_uint u
  | D8 u => x38 :: digits_of_uint u | D9 u => x39 :: digits_of_uint u
  end.
(* int(ds) for a non-empty string of ASCII digits; b'%d' % n *)
Definition dec_val (ds : bytes) : N := N.of_uint (uint_of_digits ds).
Definition print_dec (n : N) : bytes := digits_of_uint (N.to_uint n).

(* CPython refuses int(text) when text has more than sys.get_int_max_str_digits() digits (0 = no limit) *)
Definition too_long (ds : bytes) : bool := (0 <? INT_MAX_STR_DIGITS) && (INT_MAX_STR_DIGITS <? blen ds).

(* ------------------------------------------------------------------ Method *)

Definition method_ok (m : bytes) : bool :=
  forallb (inmask METHOD_CLASS) m && (METHOD_MINLEN <=? blen m) && (blen m <=? METHOD_MAXLEN).
(* Method.parse: None = InvalidLine; Method.compose returns the stored octets *)
Definition method_parse (m : bytes) : option bytes := if method_ok m then Some m else None.
Definition method_compose (m : bytes) : bytes := m.

(* ------------------------------------------------------------------ Protocol *)

Definition version := (N * N)%type.

Inductive presult := PInvalid (* InvalidLine *) | PEscape (* ValueError from int() *) | POk (v : version).

(* Protocol.parse:  PROTOCOL_RE.match, then (int(group 2), int(group 3)).  [iv] says what happens beyond
   the interpreter's digit limit: AsFound = the ValueError escapes, Repaired = InvalidLine. *)
Definition proto_parse (iv : variant) (s : bytes) : presult :=
  match strip_prefix PROTO_PREFIX s with
  | None => PInvalid
  | Some r =>
      let (da, r1) := span PROTO_DIGIT r in
      match da with
      | [] => PInvalid
      | _ :: _ =>
          match strip_prefix PROTO_DOT r1 with
          | None => PInvalid
          | Some r2 =>
              let (db, r3) := span PROTO_DIGIT r2 in
              match db, r3 with
              | _ :: _, [] =>
                  if too_long da || too_long db
                  then match iv with AsFound => PEscape | Repaired => PInvalid end
                  else POk (dec_val da, dec_val db)
              | _, _ => PInvalid
              end
          end
      end
  end.

(* Protocol.compose:  b'%s/%d.%d' % (name, major, minor) *)
Definition proto_compose (v : version) : bytes :=
  PROTO_C_PREFIX ++ print_dec (fst v) ++ PROTO_C_SEP ++ print_dec (snd v).

(* tuple comparison of (major, minor) *)
Definition ver_eqb (x y : version) : bool := (fst x =? fst y) && (snd x =? snd y).
Definition ver_ltb (x y : version) : bool := (fst x <? fst y) || ((fst x =? fst y) && (snd x <? snd y)).

(* the right-hand operand of a comparison *)
Inductive operand :=
| OVer (v : version)      (* another Protocol *)
| OTuple (v : version)    (* a 2-tuple of ints *)
| OText (s : bytes)       (* bytes / ASCII str *)
| OInt (n : N).           (* a bare int: compared with the major version *)

Inductive cres := CB (b : bool) | CInvalid (* InvalidLine re-raised *) | CEscape.

(* Protocol.__eq__ *)
Definition proto_eq (iv : variant) (p : version) (o : operand) : cres :=
  match o with
  | OVer q | OTuple q => CB (ver_eqb p q)
  | OText s =>
      match proto_parse iv s with
      | POk q => CB (ver_eqb p q)
      | PInvalid => CB false
      | PEscape => CEscape
      end
  | OInt n => CB (fst p =? n)
  end.
(* Protocol.__lt__ *)
Definition proto_lt (iv : variant) (p : version) (o : operand) : cres :=
  match o with
  | OVer q | OTuple q => CB (ver_ltb p q)
  | OText s =>
      match proto_parse iv s with
      | POk q => CB (ver_ltb p q)
      | PInvalid => CInvalid
      | PEscape => CEscape
      end
  | OInt n => CB (fst p <? n)
  end.
(* Protocol.__gt__ *)
Definition proto_gt (iv : variant) (p : version) (o : operand) : cres :=
  match o with
  | OVer q | OTuple q => CB (ver_ltb q p)
  | OText s =>
      match proto_parse iv s with
      | POk q => CB (ver_ltb q p)
      | PInvalid => CInvalid
      | PEscape => CEscape
      end
  | OInt n => CB (n <? fst p)
  end.
(* Semantic.__ne__ / __le__ / __ge__ :  not ==,  == or <,  == or > *)
Definition proto_ne (iv : variant) (p : version) (o : operand) : cres :=
  match proto_eq iv p o with CB b => CB (negb b) | e => e end.
Definition proto_le (iv : variant) (p : version) (o : operand) : cres :=
  match proto_eq iv p o with CB true => CB true | CB false => proto_lt iv p o | e => e end.
Definition proto_ge (iv : variant) (p : version) (o : operand) : cres :=
  match proto_eq iv p o with CB true => CB true | CB false => proto_gt iv p o | e => e end.

(* ------------------------------------------------------------------ Status *)

(* Status.parse: STATUS_RE.match; code = int(group 1), reason = group 2 (after the greedy \s+).  None = InvalidLine *)
Definition status_parse (s : bytes) : option (N * bytes) :=
  match s with
  | a :: b :: c :: r =>
      if inmask STATUS_D1 a && inmask STATUS_D2 b && inmask STATUS_D3 c then
        match span STATUS_SEP r with
        | ([], _) => None
        | (_ :: _, reason) =>
            if forallb (inmask STATUS_REASON) reason then Some (dec_val [a; b; c], reason) else None
        end
      else None
  | _ => None
  end.
(* Status.compose:  b'%d %s' % (code, reason) *)
Definition status_compose (code : N) (reason : bytes) : bytes := print_dec code ++ STATUS_C_SEP ++ reason.

(* ------------------------------------------------------------------ Request line *)

Definition SLASH2 : bytes := [x2f; x2f].
Definition CONNECT : bytes := [x43; x4f; x4e; x4e; x45; x43; x54].

Inductive rq_result :=
| RqInvalidLine                    (* InvalidLine: field count, version, method *)
| RqEscape                         (* ValueError out of Protocol.parse *)
| RqInvalidURI                     (* target starts with "//" *)
| RqTarget (m target : bytes) (v : version).   (* uri.parse(target) is called next; its outcome is not modelled here *)

(* Request.parse up to the call of self.uri.parse:  bits = line.strip().split(None, 2);  method, uri, version = bits *)
Definition req_of_fields (iv : variant) (bits : list bytes) : rq_result :=
  match bits with
  | [m; u; vt] =>
      match proto_parse iv vt with
      | PInvalid => RqInvalidLine
      | PEscape => RqEscape
      | POk v =>
          match method_parse m with
          | None => RqInvalidLine
          | Some m' =>
              if startswith SLASH2 u then RqInvalidURI
              else RqTarget m' (if bytes_eqb m' CONNECT then SLASH2 ++ u else u) v
          end
      end
  | _ => RqInvalidLine
  end.
Definition req_parse (iv : variant) (line : bytes) : rq_result := req_of_fields iv (split_ws 2 (strip line)).

(* Request.compose:  b"%s %s %s\r\n" % (method, bytes(uri) or b'/', protocol); [u] is the composed target *)
Definition req_compose (m u : bytes) (v : version) : bytes :=
  method_compose m ++ REQ_C_SEP1 ++ u ++ REQ_C_SEP2 ++ proto_compose v ++ REQ_C_EOL.

(* ------------------------------------------------------------------ Status line *)

Inductive rs_result := RsInvalidLine | RsEscape | RsOk (v : version) (code : N) (reason : bytes).

(* Response.parse:  bits = line.strip().split(None, 1);  version, status = bits *)
Definition resp_of_fields (iv : variant) (bits : list bytes) : rs_result :=
  match bits with
  | [vt; st] =>
      match proto_parse iv vt with
      | PInvalid => RsInvalidLine
      | PEscape => RsEscape
      | POk v =>
          match status_parse st with
          | None => RsInvalidLine
          | Some (code, reason) => RsOk v code reason
          end
      end
  | _ => RsInvalidLine
  end.
Definition resp_parse (iv : variant) (line : bytes) : rs_result := resp_of_fields iv (split_ws 1 (strip line)).

Definition resp_compose (v : version) (code : N) (reason : bytes) : bytes :=
  proto_compose v ++ RESP_C_SEP ++ status_compose code reason ++ RESP_C_EOL.

(* ------------------------------------------------------------------ server-side negotiation *)

Inductive nres := NHttp (code : N) | NResp (v : version).

(* check_request_protocol:  if request.protocol > ServerProtocol: raise 505
   set_response_protocol:   response.protocol = min(request.protocol, ServerProtocol)
   (Python's min(a, b) is  b if b < a else a) *)
Definition negotiate (server req : version) : nres :=
  if ver_ltb server req then NHttp CODE_VERSION_NOT_SUPPORTED
  else NResp (if ver_ltb server req then server else req).

(* what a ServerStateMachine makes of a request line whose target passes the URI stage unchanged:
   400 for InvalidLine / InvalidURI, the negotiation result otherwise *)
Inductive sres := SHttp (code : N) | SEscape | SOk (m : bytes) (req resp : version).
Definition server_startline (iv : variant) (line : bytes) : sres :=
  match req_parse iv line with
  | RqInvalidLine | RqInvalidURI => SHttp CODE_BAD_REQUEST
  | RqEscape => SEscape
  | RqTarget m _ v =>
      match negotiate SERVER_PROTOCOL v with
      | NHttp c => SHttp c
      | NResp r => SOk m v r
      end
  end.

(* ClientStateMachine on a status line *)
Inductive cres_line := KHttp (code : N) | KEscape | KOk (v : version) (code : N) (reason : bytes).
Definition client_startline (iv : variant) (line : bytes) : cres_line :=
  match resp_parse iv line with
  | RsInvalidLine => KHttp CODE_BAD_REQUEST
  | RsEscape => KEscape
  | RsOk v c r => KOk v c r
  end.

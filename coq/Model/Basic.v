(* Model of httoop/authentication/basic.py (BasicAuthRequestScheme) and of the request-element
   dispatch around it (AuthElement.parseparams / AuthElement.compose, HeaderElement.parse).
   Definitions only; proofs are in Proofs/Basic.v.

   Finding D2 has two independent halves, each indexed by a variant chosen by a T1 probe:
     split variant  AsFound:  decoded.split(COLON)      - exactly two fields or ValueError
                    Repaired: decoded.split(COLON, 1)   - split at the first colon
     wrap variant   AsFound:  encodebytes(..).strip()   - inner line breaks of encodebytes stay
                    Repaired: encodebytes(..).replace(NL, nothing) *)
From Httoop Require Export Model.Base64 Model.AuthCommon.
Local Open Scope N_scope.

(* BasicAuthRequestScheme.compose *)
Definition basic_compose (wv : variant) (d : authinfo) : res bytes :=
  u <- req (L "username") (d_username d) ;;
  p <- req (L "password") (d_password d) ;;
  let e := encodebytes (u ++ [COLON] ++ p) in
  Ok (match wv with AsFound => strip_ws e | Repaired => remove_byte B64NL e end).

(* BasicAuthRequestScheme.parse *)
Definition basic_parse (sv : variant) (authinfo : bytes) : res (bytes * bytes) :=
  match decodebytes (strip_ws authinfo) with
  | None => Err EBase64
  | Some cred =>
      match sv with
      | AsFound => match split1 COLON cred with
                   | [u; p] => Ok (u, p)
                   | _ => Err ENoColon
                   end
      | Repaired => match cut1 COLON cred with
                    | Some (u, p) => Ok (u, p)
                    | None => Err ENoColon
                    end
      end
  end.

(* Model of httoop/authentication/digest.py is in Model/Digest.v; the element layer below takes the
   digest scheme functions as arguments so that it can be shared. *)
Section Element.
Variable digest_compose_f : authinfo -> res bytes.
Variable digest_parse_f : bytes -> res alist.

(* AuthElement.compose:  value = the scheme name the element was created with (ASCII) *)
Definition auth_compose (wv : variant) (value : bytes) (d : authinfo) : res bytes :=
  match scheme_of value with
  | None => Err EUnsupported
  | Some s =>
      info <- key_to_missing (if s =? 0 then basic_compose wv d else digest_compose_f d) ;;
      Ok (title value ++ [SP] ++ info)
  end.

(* HeaderElement.parse -> AuthElement.parseparams *)
Definition auth_parse (sv : variant) (value : bytes) : pres :=
  if rfc2047_guard value then PUnmodelled else
  match cut1 SP value with
  | None => PErr ENoScheme
  | Some (scheme, info) =>
      match scheme_of scheme with
      | None => PErr EUnsupported
      | Some s =>
          if s =? 0 then
            match basic_parse sv info with
            | Ok (u, p) => POk (title scheme) [(L "username", u); (L "password", p)]
            | Err e => PErr e
            end
          else
            match key_to_missing (digest_parse_f info) with
            | Ok ps => POk (title scheme) ps
            | Err e => PErr e
            end
      end
  end.
End Element.

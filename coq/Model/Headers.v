(* Model of httoop/header/headers.py: the collection (insertion-ordered association list keyed by the
   canonical field name, raw octet values) and Headers.parse.  Tables from Gen/HeadersT.v. *)
From Httoop Require Export Lib.Bytes Lib.Split Gen.HeadersT.
Local Open Scope N_scope.

Definition hdrs := list (bytes * bytes).

Fixpoint hget (k : bytes) (h : hdrs) : option bytes :=
  match h with
  | [] => None
  | (k', v) :: r => if bytes_eqb k k' then Some v else hget k r
  end.
Definition hmem (k : bytes) (h : hdrs) : bool := match hget k h with Some _ => true | None => false end.

(* dict.__setitem__: replace in place, else append at the end *)
Fixpoint hset (k v : bytes) (h : hdrs) : hdrs :=
  match h with
  | [] => [(k, v)]
  | (k', v') :: r => if bytes_eqb k k' then (k, v) :: r else (k', v') :: hset k v r
  end.
(* dict.pop / del: keys are unique in a dict, so removing every entry with the key is the same thing *)
Fixpoint hdel (k : bytes) (h : hdrs) : hdrs :=
  match h with
  | [] => []
  | (k', v') :: r => if bytes_eqb k k' then hdel k r else (k', v') :: hdel k r
  end.

Fixpoint assoc {A} (k : bytes) (l : list (bytes * A)) : option A :=
  match l with
  | [] => None
  | (k', v) :: r => if bytes_eqb k k' then Some v else assoc k r
  end.

(* Headers.formatkey on a name that passed the HEADER_RE test: title-case, then the spelling
   registered in HEADER (e.g. Etag -> ETag, Www-Authenticate -> WWW-Authenticate) *)
Definition name_ok (name : bytes) : bool := negb (existsb (inmask HEADER_RE_BAD) name).
Definition canon (name : bytes) : bytes :=
  let t := title name in
  match assoc t HEADER_SPELLING with Some s => s | None => t end.
(* Element.join separator of the field *)
Definition join_sep (name : bytes) : bytes :=
  match assoc (title name) HEADER_JOIN with Some s => s | None => DEFAULT_JOIN end.

Definition starts_ws (l : bytes) : bool := match l with c :: _ => beq c SP || beq c HT | [] => false end.

(* one header (name, first value part, continuation parts) is committed when the next
   non-continuation line (or the end of the block) is reached *)
Definition commit (h : hdrs) (cur : option (bytes * bytes)) : hdrs :=
  match cur with
  | None => h
  | Some (name, raw) =>
      let value := rstrip raw in
      let key := canon name in
      match hget key h with
      | Some old => hset key (old ++ join_sep name ++ value) h
      | None => hset key value h
      end
  end.

Definition parse_line (l : bytes) : option (bytes * bytes) :=
  match cut1 COLON l with
  | None => None                                   (* InvalidHeader: no colon *)
  | Some (name, value) => if name_ok name then Some (strip name, lstrip value) else None
  end.

Fixpoint hparse_lines (h : hdrs) (cur : option (bytes * bytes)) (lines : list bytes) : option hdrs :=
  match lines with
  | [] => Some (commit h cur)
  | l :: rest =>
      match cur with
      | Some (name, raw) =>
          if starts_ws l then hparse_lines h (Some (name, raw ++ tl l)) rest
          else match parse_line l with
               | Some nv => hparse_lines (commit h cur) (Some nv) rest
               | None => None
               end
      | None =>
          match parse_line l with
          | Some nv => hparse_lines h (Some nv) rest
          | None => None
          end
      end
  end.

(* Headers.parse(data): None = InvalidHeader *)
Definition hparse (h : hdrs) (data : bytes) : option hdrs := hparse_lines h None (split_all CRLF data).

(* Model of httoop/uri/uri.py at the level of the eight slots: __setattr__ (class switch on scheme),
   the port property, the tuple setter, normalize (103-116), join (73-101) and __eq__ (335-353).
   Definitions only.  Text is modelled by its UTF-8 octets; str.lower is a parameter [lower].
   The scheme -> default port registry comes from Gen/UriNormT.v (T1).
   Ports: [None] stands for every falsy value (None, '', 0); [Some n] for the integer n (1..65535 - the
   validation of the port setter belongs to the component property and is not modelled here). *)
From Httoop Require Export Lib.Bytes Lib.Variant Gen.UriNormT Model.UriPath.
Local Open Scope N_scope.

(* an instance: PORT of its current class (type(self).PORT) and the eight slots *)
Record nuri := U {
  u_dport : option N;
  u_scheme : bytes;
  u_user : bytes;
  u_pass : bytes;
  u_host : bytes;
  u_port : option N;     (* _port *)
  u_path : bytes;
  u_query : bytes;       (* query_string *)
  u_frag : bytes }.

Definition optN_eqb : option N -> option N -> bool := opt_eqb N.eqb.

(* self.tuple == other.tuple : the eight slots, not the class *)
Definition tuple_eqb (a b : nuri) : bool :=
  bytes_eqb (u_scheme a) (u_scheme b) && bytes_eqb (u_user a) (u_user b) && bytes_eqb (u_pass a) (u_pass b) &&
  bytes_eqb (u_host a) (u_host b) && optN_eqb (u_port a) (u_port b) && bytes_eqb (u_path a) (u_path b) &&
  bytes_eqb (u_query a) (u_query b) && bytes_eqb (u_frag a) (u_frag b).
Definition uri_eqb (a b : nuri) : bool := optN_eqb (u_dport a) (u_dport b) && tuple_eqb a b.

(* self.SCHEMES.get(value.encode(), URI).PORT *)
Definition class_port (s : bytes) : option N :=
  match find (fun kv => bytes_eqb (fst kv) s) SCHEME_PORTS with
  | Some kv => snd kv
  | None => BASE_PORT
  end.

(* __setattr__('scheme', v):  if value: self.__class__ = SCHEMES.get(value, URI)   -- an empty scheme keeps the class *)
Definition set_scheme (v : bytes) (u : nuri) : nuri :=
  U (if nonnil v then class_port v else u_dport u) v (u_user u) (u_pass u) (u_host u) (u_port u) (u_path u) (u_query u) (u_frag u).
Definition set_host (v : bytes) (u : nuri) : nuri :=
  U (u_dport u) (u_scheme u) (u_user u) (u_pass u) v (u_port u) (u_path u) (u_query u) (u_frag u).
Definition set_path (v : bytes) (u : nuri) : nuri :=
  U (u_dport u) (u_scheme u) (u_user u) (u_pass u) (u_host u) (u_port u) v (u_query u) (u_frag u).

Definition port_or (p d : option N) : option N := match p with Some _ => p | None => d end.
(* port getter:  self._port or self.PORT *)
Definition get_port (u : nuri) : option N := port_or (u_port u) (u_dport u).
(* port setter:  port = port or self.PORT ; self._port = port *)
Definition set_port (p : option N) (u : nuri) : nuri :=
  U (u_dport u) (u_scheme u) (u_user u) (u_pass u) (u_host u) (port_or p (u_dport u)) (u_path u) (u_query u) (u_frag u).

(* URI() : set(b'') -> parse(b'') -> every slot empty, _port = (b'' or None) *)
Definition fresh (d0 : option N) : nuri := U d0 [] [] [] [] d0 [] [] [].

(* K(t) for a tuple / dict / URI argument on a class K with K.PORT = d0: the tuple setter assigns
   scheme, username, password, host, port, path, query_string, fragment in this order *)
Definition construct (d0 : option N) (t : nuri) : nuri :=
  let u1 := set_scheme (u_scheme t) (fresh d0) in
  let u2 := set_port (u_port t) u1 in
  U (u_dport u2) (u_scheme u2) (u_user t) (u_pass t) (u_host t) (u_port u2) (u_path t) (u_query t) (u_frag t).

Definition lower_byte (c : byte) : byte :=
  let n := bN c in if (65 <=? n) && (n <=? 90) then Nb (n + 32) else c.
Definition lower_ascii (s : bytes) : bytes := map lower_byte s.

Section Lower.
Variable lower : bytes -> bytes.     (* str.lower on the UTF-8 octets *)

(* normalize():
     self.scheme = self.scheme.lower() ; self.host = self.host.lower()
     if not self.port: self.port = self.PORT          (AsFound: reads the PROPERTY, which already falls back to PORT,
                                                       so the assignment can only happen when PORT is falsy: a no-op)
     if not self._port: self.port = self.PORT         (Repaired, fix D30)
     self.abspath() ; prefix "/" when host, scheme and path are non-empty *)
Definition normalize (v : variant) (u : nuri) : nuri :=
  let u1 := set_scheme (lower (u_scheme u)) u in
  let u2 := set_host (lower (u_host u1)) u1 in
  let unset := match v with AsFound => negb (is_some (get_port u2)) | Repaired => negb (is_some (u_port u2)) end in
  let u3 := if unset then set_port (u_dport u2) u2 else u2 in
  set_path (normalize_path (nonnil (u_host u3)) (nonnil (u_scheme u3)) (u_path u3)) u3.

(* __eq__ on a class K (PORT d0):  K(self).normalize().tuple == K(other).normalize().tuple *)
Definition uri_eq (v : variant) (d0 : option N) (a b : nuri) : bool :=
  tuple_eqb (normalize v (construct d0 a)) (normalize v (construct d0 b)).

Definition P_UP : bytes := [SL; DT; DT; SL].   (* "/../" *)

(* self.join(other) with relative = URI(other) already constructed *)
Definition join (v : variant) (self rel : nuri) : nuri :=
  let cur0 := construct BASE_PORT self in            (* current = URI(self) *)
  if nonnil (u_scheme rel) then normalize v rel      (* current = relative; current.normalize(); return current *)
  else
    let j1 := set_scheme (u_scheme cur0) (fresh BASE_PORT) in
    let cur1 := if nonnil (u_host rel) then rel else cur0 in
    let j2 := set_port (get_port cur1)
                (U (u_dport j1) (u_scheme j1) (u_user cur1) (u_pass cur1) (u_host cur1) (u_port j1) [] [] []) in
    let cur2 := if nonnil (u_path rel) then rel else cur1 in
    let path :=
      if nonnil (u_path rel) && negb (starts_slash (u_path rel))
      then u_path self ++ (if ends_slash (u_path self) then [] else P_UP) ++ u_path rel
      else u_path cur2 in
    let cur3 := if nonnil (u_query rel) then rel else cur2 in
    let cur4 := if nonnil (u_frag rel) then rel else cur3 in
    normalize v (U (u_dport j2) (u_scheme j2) (u_user j2) (u_pass j2) (u_host j2) (u_port j2) path (u_query cur3) (u_frag cur4)).

(* ---------- the RFC side: five components, authority = (user, password, host, port) ---------- *)
Definition auth := (bytes * bytes * bytes * option N)%type.
Definition a_user (a : auth) : bytes := fst (fst (fst a)).
Definition a_pass (a : auth) : bytes := snd (fst (fst a)).
Definition a_host (a : auth) : bytes := snd (fst a).
Definition a_port (a : auth) : option N := snd a.
Definition no_auth : auth := ([], [], [], None).
Definition odflt (o : option bytes) : bytes := match o with Some x => x | None => [] end.

(* httoop's (lossy) representation of a parsed reference: URI(text) -- undefined components become empty *)
Definition view (r : ref5 auth) : nuri :=
  let a := match r_auth r with Some a => a | None => no_auth end in
  construct BASE_PORT (U None (odflt (r_scheme r)) (a_user a) (a_pass a) (a_host a) (a_port a) (r_path r) (odflt (r_query r)) (odflt (r_frag r))).

(* the five components of an httoop URI used as a base *)
Definition base5 (b : nuri) : ref5 auth :=
  Ref5 (Some (u_scheme b)) (Some (u_user b, u_pass b, u_host b, u_port b)) (u_path b)
       (if nonnil (u_query b) then Some (u_query b) else None) None.
End Lower.

(* T3: str.lower as observed by the harness on the (non-ASCII) strings of a case, ASCII lower-casing otherwise *)
Definition tlower (tbl : list (bytes * bytes)) (s : bytes) : bytes :=
  match find (fun kv => bytes_eqb (fst kv) s) tbl with
  | Some kv => snd kv
  | None => lower_ascii s
  end.

(* Model of httoop/uri/percent_encoding.py (Percent.quote / Percent.unquote),
   httoop/codecs/application/x_www_form_urlencoded.py and httoop/uri/query_string.py.
   Definitions only; proofs are in Proofs/Percent.v.  Tables come from Gen/PercentT.v. *)
From Httoop Require Export Lib.Bytes Lib.Variant Gen.PercentT.
Local Open Scope N_scope.

(* escape width: the pinned tree formats with "%%%X" (one digit below 0x10), the repair with "%%%02X" *)


Definition PCT : byte := x25.   (* % *)
Definition AMP : byte := x26.   (* & *)
Definition EQS : byte := x3d.   (* = *)
Definition PLUS : byte := x2b.  (* + *)
Definition SPC : byte := x20.

(* upper-case hex digit of a nibble, as "%X" prints it *)
Definition hexU (n : N) : byte := Nb (if n <? 10 then 48 + n else 55 + n).

Definition esc (v : variant) (c : byte) : bytes :=
  let n := bN c in
  match v with
  | Repaired => [PCT; hexU (n / 16); hexU (n mod 16)]
  | AsFound => if n <? 16 then [PCT; hexU n] else [PCT; hexU (n / 16); hexU (n mod 16)]
  end.

(* charset = set(charset) - {'%'} *)
Definition eff_safe (safe : N) (c : byte) : bool := inmask safe c && negb (beq c PCT).

Definition quote1 (v : variant) (safe : N) (c : byte) : bytes :=
  if eff_safe safe c then [c] else esc v c.

Definition quote (v : variant) (safe : N) (d : bytes) : bytes := flat_map (quote1 v safe) d.

(* Python bytes.split on a one-octet separator: always at least one item *)
Fixpoint split1 (sep : byte) (l : bytes) : list bytes :=
  match l with
  | [] => [[]]
  | c :: r =>
      if beq c sep then [] :: split1 sep r
      else match split1 sep r with
           | h :: t => (c :: h) :: t
           | [] => [[c]]
           end
  end.

Definition hex_lookup (a b : byte) : option byte :=
  match find (fun kv => N.eqb (fst kv) (bN a)) HEX_MAP with
  | Some (_, row) =>
      match find (fun kv => N.eqb (fst kv) (bN b)) row with
      | Some kv => Some (Nb (snd kv))
      | None => None
      end
  | None => None
  end.

(* one item of data.split('%')[1:]:  HEX_MAP[item[:2]] + item[2:]  or  '%' + item on KeyError *)
Definition dec_item (item : bytes) : bytes :=
  match item with
  | a :: b :: rest =>
      match hex_lookup a b with
      | Some c => c :: rest
      | None => PCT :: item
      end
  | _ => PCT :: item
  end.

Definition unquote (d : bytes) : bytes :=
  match split1 PCT d with
  | [] => []
  | h :: t => h ++ flat_map dec_item t
  end.

(* ---------- form-urlencoded (octet level: pairs are already charset-encoded) ---------- *)

Definition nonempty (l : bytes) : bool := match l with [] => false | _ => true end.

Fixpoint join (sep : bytes) (l : list bytes) : bytes :=
  match l with
  | [] => []
  | [x] => x
  | x :: r => x ++ sep ++ join sep r
  end.

(* data.replace(b'%20', b'+') *)
Fixpoint repl20 (l : bytes) : bytes :=
  match l with
  | [] => []
  | c :: r =>
      match r with
      | a :: b :: r' =>
          if beq c PCT && beq a x32 && beq b x30 then PLUS :: repl20 r' else c :: repl20 r
      | _ => c :: repl20 r
      end
  end.

Definition encode_pair (v : variant) (safe : N) (p : bytes * bytes) : bytes :=
  let n := quote v safe (fst p) in
  let w := quote v safe (snd p) in
  if nonempty n && nonempty w then n ++ [EQS] ++ w else n ++ w.

Definition form_encode (v : variant) (safe : N) (ps : list (bytes * bytes)) : bytes :=
  repl20 (join [AMP] (map (encode_pair v safe) ps)).

Fixpoint lstrip1 (c : byte) (l : bytes) : bytes :=
  match l with
  | x :: r => if beq x c then lstrip1 c r else l
  | [] => []
  end.
Definition rstrip1 (c : byte) (l : bytes) : bytes := rev (lstrip1 c (rev l)).
Definition strip1 (c : byte) (l : bytes) : bytes := rstrip1 c (lstrip1 c l).

(* bytes.partition(sep)[::2] for a one-octet separator *)
Fixpoint partition1 (sep : byte) (l : bytes) : bytes * bytes :=
  match l with
  | [] => ([], [])
  | c :: r => if beq c sep then ([], r) else let (a, b) := partition1 sep r in (c :: a, b)
  end.

Definition plus_to_space (l : bytes) : bytes := map (fun c => if beq c PLUS then SPC else c) l.

Definition form_decode (data : bytes) : list (bytes * bytes) :=
  if nonempty data then
    let fields := split1 AMP (strip1 AMP (plus_to_space data)) in
    map (fun f => let (n, w) := partition1 EQS f in (unquote n, unquote w)) (filter nonempty fields)
  else [].

(* QueryString.decode: stringprep C.2.1 check on the percent-decoded data, then the form decoder *)
Definition qs_decode (c21 : N) (data : bytes) : option (list (bytes * bytes)) :=
  if existsb (inmask c21) (unquote data) then None else Some (form_decode data).

(* ---------- text level: the charset codec (str.encode / bytes.decode) is a parameter ---------- *)
Section Text.
Context {text : Type}.
Variable enc : text -> bytes.
Variable dec : bytes -> option text.

Definition enc_pair (p : text * text) : bytes * bytes := (enc (fst p), enc (snd p)).
Definition dec_pair (p : bytes * bytes) : option (text * text) :=
  match dec (fst p), dec (snd p) with
  | Some a, Some b => Some (a, b)
  | _, _ => None   (* UnicodeDecodeError *)
  end.
Fixpoint all_some {A} (l : list (option A)) : option (list A) :=
  match l with
  | [] => Some []
  | None :: _ => None
  | Some x :: r => match all_some r with Some r' => Some (x :: r') | None => None end
  end.

Definition form_encode_text (v : variant) (safe : N) (ps : list (text * text)) : bytes :=
  form_encode v safe (map enc_pair ps).
Definition form_decode_text (data : bytes) : option (list (text * text)) :=
  all_some (map dec_pair (form_decode data)).
(* URI.query setter then getter: QueryString.encode / QueryString.decode *)
Definition query_get_set (c21 : N) (v : variant) (ps : list (text * text)) : option (list (text * text)) :=
  match qs_decode c21 (form_encode_text v QS_UNQUOTED ps) with
  | Some l => all_some (map dec_pair l)
  | None => None   (* InvalidURI *)
  end.
End Text.

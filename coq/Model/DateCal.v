(* Proleptic-Gregorian calendar arithmetic over Z: the concrete model of the callees
   time.gmtime and calendar.timegm used by httoop/date.py.  Definitions only (no tables, no proofs);
   validated against CPython by the C15 correspondence run (CGmtime / CTimegm cases).

   Z.div / Z.modulo are floor division / non-negative remainder for positive divisors, exactly Python's
   // and %, so the functions are total and meaningful for negative days and years as well. *)
From Coq Require Export ZArith.
Local Open Scope Z_scope.

(* days in one 400-year cycle, and the shift that moves the epoch to 0000-03-01 (start of an era) *)
Definition ERA_DAYS : Z := 146097.
Definition EPOCH_SHIFT : Z := 719468.

(* day of the era [0, 146096]  ->  (year of era [0,399], month, day), years starting on 1 March *)
Definition civil_of_doe (doe : Z) : Z * Z * Z :=
  let yoe := (doe - doe / 1460 + doe / 36524 - doe / 146096) / 365 in
  let doy := doe - (365 * yoe + yoe / 4 - yoe / 100) in
  let mp := (5 * doy + 2) / 153 in
  let d := doy - (153 * mp + 2) / 5 + 1 in
  let m := if mp <? 10 then mp + 3 else mp - 9 in
  (yoe, m, d).

(* days since 1970-01-01  ->  (year, month 1..12, day 1..31) *)
Definition civil_from_days (z : Z) : Z * Z * Z :=
  let z' := z + EPOCH_SHIFT in
  let era := z' / ERA_DAYS in
  let doe := z' mod ERA_DAYS in
  let '(yoe, m, d) := civil_of_doe doe in
  let y := yoe + era * 400 in
  (if m <=? 2 then y + 1 else y, m, d).

(* day of the era from (year of era, month, day) *)
Definition doe_of_civil (yoe m d : Z) : Z :=
  let doy := (153 * (if 2 <? m then m - 3 else m + 9) + 2) / 5 + d - 1 in
  yoe * 365 + yoe / 4 - yoe / 100 + doy.

(* (year, month, day) -> days since 1970-01-01; linear in [d] (calendar.timegm adds day - 1 to the
   ordinal of the first of the month, so out-of-range days simply run on) *)
Definition days_from_civil (y m d : Z) : Z :=
  let y' := if m <=? 2 then y - 1 else y in
  let era := y' / 400 in
  let yoe := y' mod 400 in
  era * ERA_DAYS + doe_of_civil yoe m d - EPOCH_SHIFT.

(* tm_wday: Monday = 0; 1970-01-01 was a Thursday *)
Definition weekday (days : Z) : Z := (days + 3) mod 7.

Record tm := mkTm { tm_year : Z; tm_mon : Z; tm_mday : Z; tm_hour : Z; tm_min : Z; tm_sec : Z; tm_wday : Z }.

(* time.gmtime(t) for an integer t *)
Definition gmtime (t : Z) : tm :=
  let days := t / 86400 in
  let r := t mod 86400 in
  let '(y, m, d) := civil_from_days days in
  mkTm y m d (r / 3600) (r mod 3600 / 60) (r mod 60) (weekday days).

(* calendar.timegm((y, m, d, hh, mm, ss, ...)) without its range check on the year *)
Definition timegm (y m d hh mi ss : Z) : Z :=
  ((days_from_civil y m d * 24 + hh) * 60 + mi) * 60 + ss.

(* last representable instant of the property: 9999-12-31 23:59:59 *)
Definition MAX_T : Z := 253402300799.
(* last instant whose two-digit year is read back correctly (POSIX pivot): 2068-12-31 23:59:59 *)
Definition MAX_T_850 : Z := 3124223999.

(* the hypotheses of the round-trip theorems, as boolean predicates *)
Definition in_range (t : Z) : bool := (0 <=? t) && (t <=? MAX_T).
Definition in_range_850 (t : Z) : bool := (0 <=? t) && (t <=? MAX_T_850).

(* Model of the parameter handling of httoop/header/element.py (HeaderElement.formatparam / compose,
   parseparams / parseparam / unescape_param / unescape_key, _rfc2231_and_continuation_params, parse,
   split / join) for the generic element, Content-Type (boundary sanitising), Content-Disposition and the
   cookie elements (empty tspecials class, attribute-name keys, name=value re-parsing).
   Builds on Model/HeadersApi.v (RFC 2047 value coding, quote-parity split) and Model/Percent.v (RFC 5987 values).
   Definitions only; lemmas are in Proofs/Element.v.  Tables: Gen/ElementT.v, Gen/PercentT.v. *)
From Coq Require Import ZArith.
From Httoop Require Export Model.HeadersApi Model.Percent Lib.PyInt Gen.ElementT.
Local Open Scope N_scope.

(* ---------- compose direction ---------- *)
(* a parameter value as the caller gives it: None / bytes / str *)
Inductive pval := PNone | PB (b : bytes) | PT (t : text).

(* value.replace(b'\\', b'\\\\').replace(b'"', b'\\"') *)
Definition escape_q (v : bytes) : bytes :=
  flat_map (fun c => if beq c BSL then [BSL; BSL] else if beq c DQ then [BSL; DQ] else [c]) v.

Definition has_tsp (tsp : N) (v : bytes) : bool := existsb (inmask tsp) v.

Definition fmt_kv (tsp : N) (k v : bytes) : bytes :=
  if has_tsp tsp v then k ++ [EQ; DQ] ++ escape_q v ++ [DQ] else k ++ [EQ] ++ v.

(* HeaderElement.formatparam(param, value); [pv] = escape width of Percent.quote (finding D1).
   None = UnicodeEncodeError (lone surrogate) *)
Definition formatparam (tsp : N) (pv : variant) (k : bytes) (v : pval) : option bytes :=
  match v with
  | PNone => Some k
  | PB b => if nonempty_b b then Some (fmt_kv tsp k b) else Some k
  | PT t =>
      match t with
      | [] => Some k
      | _ =>
          if is_ascii_text t then Some (fmt_kv tsp k (latin1_enc t))
          else match utf8_enc t with
               | Some u => Some (fmt_kv tsp (k ++ [STAR]) (EXT_PREFIX ++ quote pv PCT_DEFAULT_SAFE u))
               | None => None
               end
      end
  end.

Fixpoint fmt_params (tsp : N) (pv : variant) (ps : list (bytes * pval)) : option bytes :=
  match ps with
  | [] => Some []
  | (k, v) :: r =>
      match formatparam tsp pv k v, fmt_params tsp pv r with
      | Some a, Some b => Some ([SEMI; SP] ++ a ++ b)
      | _, _ => None
      end
  end.

(* HeaderElement.compose with the value already in its wire octets *)
Definition compose_raw (tsp : N) (pv : variant) (value : bytes) (ps : list (bytes * pval)) : option bytes :=
  match fmt_params tsp pv ps with Some p => Some (value ++ p) | None => None end.

(* ... and with a str value (encode_rfc2047) *)
Definition compose_elem (tsp : N) (pv : variant) (value : text) (ps : list (bytes * pval)) : option bytes :=
  match encode_rfc2047 value with Some v => compose_raw tsp pv v ps | None => None end.

(* ---------- parse direction ---------- *)
(* re.sub(b'\\\\(?!\\\\)', b'', s): every backslash that is not followed by a backslash is removed *)
Fixpoint unesc (l : bytes) : bytes :=
  match l with
  | [] => []
  | c :: r =>
      if beq c BSL && negb (match r with d :: _ => beq d BSL | [] => false end) then unesc r
      else c :: unesc r
  end.

Definition mid (v : bytes) : bytes := removelast (tl v).    (* value[1:-1] *)

Fixpoint count1 (c : byte) (l : bytes) : nat :=
  match l with [] => O | x :: r => (if beq x c then 1 else 0) + count1 c r end.

(* bytes.rpartition for a one-octet separator: None when the separator does not occur *)
Definition rcut1 (sep : byte) (l : bytes) : option (bytes * bytes) :=
  match cut1 sep (rev l) with
  | Some (a, b) => Some (rev b, rev a)
  | None => None
  end.

(* int(num) for bytes as util.integer applies it to a continuation index: ASCII whitespace around, optional
   sign, decimal digits with single underscores between them; b' ' anywhere is refused by integer() *)
Definition py_int10_bytes (maxdigits : N) (l : bytes) : option Z :=
  if existsb (fun c => beq c SP) l then None else
  let s := strip l in
  let (neg, r) := split_sign s in
  match r with
  | c :: _ =>
      if beq c UNDERSCORE then None
      else match scan_digits decdigit_val 10 true r 0 0 false with
           | Some (v, nd) => if (maxdigits <? nd) && negb (maxdigits =? 0) then None else Some (signed neg v)
           | None => None
           end
  | [] => None
  end.

(* "%d" % z *)
Definition dec_of_Z (z : Z) : bytes :=
  match z with
  | Zneg p => x2d :: dec_of_N (Npos p)
  | _ => dec_of_N (Z.to_N z)
  end.

Fixpoint zget {A} (k : Z) (l : list (Z * A)) : option A :=
  match l with
  | [] => None
  | (k', v) :: r => if Z.eqb k k' then Some v else zget k r
  end.
Fixpoint zset {A} (k : Z) (v : A) (l : list (Z * A)) : list (Z * A) :=
  match l with
  | [] => [(k, v)]
  | (k', v') :: r => if Z.eqb k k' then (k, v) :: r else (k', v') :: zset k v r
  end.
Fixpoint zdel {A} (k : Z) (l : list (Z * A)) : list (Z * A) :=
  match l with
  | [] => []
  | (k', v') :: r => if Z.eqb k k' then zdel k r else (k', v') :: zdel k r
  end.

(* continuations.setdefault(key_, {})[num] = value *)
Fixpoint cont_add (k : bytes) (n : Z) (v : bytes) (cs : list (bytes * list (Z * bytes))) : list (bytes * list (Z * bytes)) :=
  match cs with
  | [] => [(k, [(n, v)])]
  | (k', ls) :: r => if bytes_eqb k k' then (k', zset n v ls) :: r else (k', ls) :: cont_add k n v r
  end.

(* for i in range(len(lines)): value += lines.pop(i), stopping at the first missing index *)
Fixpoint take_seq (fuel : nat) (i : Z) (ls : list (Z * bytes)) : bytes * list (Z * bytes) :=
  match fuel with
  | O => ([], ls)
  | S f =>
      match zget i ls with
      | Some v => let '(rest, lft) := take_seq f (i + 1)%Z (zdel i ls) in (v ++ rest, lft)
      | None => ([], ls)
      end
  end.

Section Parse.
Variable vew : variant.                                 (* D15 guard variant, as in Model/HeadersApi.v *)
Variable dechdr : bytes -> option bytes.                (* callee: email.header.decode_header path *)
Variable cs_other : bytes -> bytes -> option bytes.     (* callee: bytes.decode(charset) for a codec the alias table does not list *)
Variable tsp : N.                                       (* RE_TSPECIALS of the element class *)
Variable ckeys : bool.                                  (* cookie-style unescape_key *)

Definition unescape_key (k : bytes) : bytes :=
  let s := strip k in
  if ckeys then (if existsb (bytes_eqb (lower s)) COOKIE_LOWER_KEYS then lower s else s)
  else lower s.

(* None = InvalidHeader (unquoted value containing tspecials) *)
Definition unescape_param (v : bytes) : option (bytes * bool) :=
  if prefixb [DQ] v && suffixb [DQ] v then Some (unesc (mid v), true)
  else if has_tsp tsp v then None
  else Some (v, false).

Definition parseparam (atom : bytes) : option (bytes * bytes * bool) :=
  let (k, v) := partition1 EQ atom in
  match unescape_param (strip v) with
  | Some (w, q) => Some (unescape_key k, w, q)
  | None => None
  end.

(* Percent.unquote(value_).decode(encoding) for the sanitised charset name; result in UTF-8; None = InvalidHeader *)
Definition decode_cs (cs data : bytes) : option bytes :=
  match assoc cs CHARSETS with
  | Some kind =>
      if kind =? 0 then (if utf8_valid data then Some data else None)
      else if kind =? 1 then Some (latin1_to_utf8 data)
      else if kind =? 2 then (if forallb is_ascii data then Some data else None)
      else None
  | None => cs_other cs data
  end.

(* continuation index after the last asterisk: None = ValueError *)
Definition cont_num (num : bytes) : option Z :=
  if negb (bytes_eqb num [x30]) && prefixb [x30] num then None
  else py_int10_bytes INT_MAX_DIGITS num.

(* the second loop of _rfc2231_and_continuation_params; None = InvalidHeader (empty key) *)
Fixpoint flush (cs : list (bytes * list (Z * bytes))) : option (list (bytes * bytes)) :=
  match cs with
  | [] => Some []
  | (k, ls) :: r =>
      let '(value, lft) := take_seq (length ls) 0%Z ls in
      if nonempty_b k then
        match flush r with
        | Some out =>
            Some ((if nonempty_b value then [(k, value)] else []) ++
                  map (fun nv => (k ++ [STAR] ++ dec_of_Z (fst nv), snd nv)) lft ++ out)
        | None => None
        end
      else None
  end.

(* the first loop: [seen] = count, [cs] = continuations, [out] = what has been yielded so far *)
Fixpoint r2231 (ps : list (bytes * bytes * bool)) (seen : list bytes)
    (cs : list (bytes * list (Z * bytes))) (out : list (bytes * bytes)) : option (list (bytes * bytes)) :=
  match ps with
  | [] => match flush cs with Some l => Some (out ++ l) | None => None end
  | (k, v, q) :: r =>
      if existsb (bytes_eqb k) seen then None                      (* Parameter given twice *)
      else if existsb (fun c => beq c STAR) k then
        let ext := suffixb [STAR] k && negb q && negb (prefixb [SQ] v) && Nat.leb 2 (count1 SQ v) in
        let kv :=
          if ext then
            match cut1 SQ v with
            | Some (charset, rest) =>
                match cut1 SQ rest with
                | Some (_, data) =>
                    match decode_cs charset (unquote data) with
                    | Some t => Some (removelast k, t)
                    | None => None
                    end
                | None => None
                end
            | None => None
            end
          else Some (k, latin1_to_utf8 v) in
        match kv with
        | None => None
        | Some (k', t) =>
            match rcut1 STAR k' with
            | Some (k_, num) =>
                match cont_num num with
                | Some n => r2231 r (k :: seen) (cont_add k_ n t cs) out
                | None => r2231 r (k :: seen) cs (out ++ [(k', t)])
                end
            | None => r2231 r (k :: seen) cs (out ++ [(k', t)])
            end
        end
      else r2231 r (k :: seen) cs (out ++ [(k, latin1_to_utf8 v)])
  end.

Fixpoint all_some_l {A} (l : list (option A)) : option (list A) :=
  match l with
  | [] => Some []
  | None :: _ => None
  | Some x :: r => match all_some_l r with Some r' => Some (x :: r') | None => None end
  end.

(* dict(params): later items replace the value of an earlier equal key in place *)
Definition to_dict (l : list (bytes * bytes)) : list (bytes * bytes) :=
  fold_left (fun d kv => hset (fst kv) (snd kv) d) l [].

(* HeaderElement.parseparams: (value, params) ; None = InvalidHeader *)
Definition parseparams (s : bytes) : option (bytes * list (bytes * bytes)) :=
  let atoms := filter nonempty_b (map strip (psplit SEMI s)) in
  let atoms := match atoms with [] => [[]] | _ => atoms end in
  match atoms with
  | [] => None
  | value :: rest =>
      match all_some_l (map parseparam rest) with
      | Some ps => match r2231 ps [] [] [] with
                   | Some l => Some (value, to_dict l)
                   | None => None
                   end
      | None => None
      end
  end.

(* decode_rfc2047_charset followed by .encode(encoding): the octets handed to parseparams and whether the
   RFC 2047 path was taken (then they are UTF-8 and the value is decoded as UTF-8) *)
Definition pre_decode (s : bytes) : option (bytes * bool) :=
  if looks_encoded vew s then
    match (match ew_single s with Some p => ew_decode p | None => dechdr s end) with
    | Some u => Some (u, true)
    | None => None
    end
  else Some (s, false).

Definition as_text (utf8mode : bool) (b : bytes) : bytes := if utf8mode then b else latin1_to_utf8 b.

(* HeaderElement.parse for a class without sanitize(): (value, params), every str written in UTF-8 *)
Definition parse_elem (s : bytes) : option (bytes * list (bytes * bytes)) :=
  match pre_decode s with
  | Some (b, u8) =>
      match parseparams b with
      | Some (v, ps) => Some (as_text u8 v, ps)
      | None => None
      end
  | None => None
  end.
End Parse.

(* ---------- class-specific sanitize() ---------- *)
(* ContentType.sanitize_boundary on a str given as UTF-8 (every test is on ASCII octets only, and any other
   octet fails the class test exactly as a non-ASCII character does): double quotes stripped at both ends, then VALID_BOUNDARY *)
Definition in_range (lo hi : N) (c : byte) : bool := (lo <=? bN c) && (bN c <=? hi).
Definition strip_dq (l : bytes) : bytes := strip_by (fun c => beq c DQ) l.
Definition valid_boundary (b : bytes) : bool :=
  (* ^[ -~]{0,200}[!-~]$ : the dollar also matches before one trailing line feed *)
  let core := match rev b with c :: r => if beq c LF then rev r else b | [] => b end in
  match rev core with
  | last :: r => in_range 33 126 last && forallb (in_range 32 126) r && (N.of_nat (length core) <=? BOUNDARY_MAX)
  | [] => false
  end.
Definition BOUNDARY : bytes := [x62; x6f; x75; x6e; x64; x61; x72; x79].
Definition ct_sanitize (ps : list (bytes * bytes)) : option (list (bytes * bytes)) :=
  match hget BOUNDARY ps with
  | Some b => let b' := strip_dq b in if valid_boundary b' then Some (hset BOUNDARY b' ps) else None
  | None => Some ps
  end.

(* ContentDisposition.sanitize: value lower-cased, one of three types, no parameter named like another type *)
Definition ATTACHMENT : bytes := [x61; x74; x74; x61; x63; x68; x6d; x65; x6e; x74].
Definition INLINE : bytes := [x69; x6e; x6c; x69; x6e; x65].
Definition FORM_DATA : bytes := [x66; x6f; x72; x6d; x2d; x64; x61; x74; x61].
Definition has_key (k : bytes) (keys : list bytes) : bool := existsb (bytes_eqb k) keys.
Definition cd_sanitize (value : bytes) (keys : list bytes) : option bytes :=
  let v := lower value in
  if bytes_eqb v ATTACHMENT then (if has_key INLINE keys then None else Some v)
  else if bytes_eqb v INLINE then (if has_key ATTACHMENT keys then None else Some v)
  else if bytes_eqb v FORM_DATA then (if has_key FORM_DATA keys then None else Some v)
  else None.

(* UTF-8 text -> Latin-1 octets (str.encode('ISO8859-1')); None = UnicodeEncodeError / not UTF-8 *)
Fixpoint u8_to_l1 (l : bytes) : option bytes :=
  match l with
  | [] => Some []
  | c :: r =>
      if bN c <? 128 then match u8_to_l1 r with Some x => Some (c :: x) | None => None end
      else match r with
           | d :: r' =>
               if ((bN c =? 194) || (bN c =? 195)) && cont d
               then match u8_to_l1 r' with Some x => Some (Nb ((bN c - 192) * 64 + (bN d - 128)) :: x) | None => None end
               else None
           | [] => None
           end
  end.

Inductive eclass := EGeneric | EContentType | EDisposition | ECookie.
Definition cls_tsp (c : eclass) : N := match c with ECookie => COOKIE_TSPECIALS | _ => TSPECIALS end.
Definition cls_ckeys (c : eclass) : bool := match c with ECookie => true | _ => false end.

(* outcome of Element.parse: element (value, cookie name/value for cookies, params) | InvalidHeader | UnicodeEncodeError *)
Inductive presult :=
| PElem (value : bytes) (cookie : option (bytes * bytes)) (params : list (bytes * bytes))
| PInvalid
| PUnicode.

Section Classes.
Variable vew : variant.
Variable dechdr : bytes -> option bytes.
Variable cs_other : bytes -> bytes -> option bytes.

(* _CookieElement value setter: parseparam(value.encode('ISO8859-1')) ; decoded again as ISO8859-1 *)
Definition cookie_set (l1 : bytes) : bytes * bytes :=
  match parseparam COOKIE_TSPECIALS true l1 with
  | Some (n, v, _) => (n, v)
  | None => ([], [])      (* unreachable: the cookie tspecials class is empty (lemma) *)
  end.

Definition parse_cls (c : eclass) (s : bytes) : presult :=
  match parse_elem vew dechdr cs_other (cls_tsp c) (cls_ckeys c) s with
  | None => PInvalid
  | Some (v, ps) =>
      match c with
      | EGeneric => PElem v None ps
      | EContentType => match ct_sanitize ps with Some ps' => PElem v None ps' | None => PInvalid end
      | EDisposition => match cd_sanitize v (map fst ps) with Some v' => PElem v' None ps | None => PInvalid end
      | ECookie =>
          (* value is in UTF-8 here; cookie_name / cookie_value from parseparam(value), then the constructor
             re-parses name=value after encoding it as ISO8859-1 *)
          match u8_to_l1 v with
          | None => PUnicode
          | Some l1 =>
              match parseparam COOKIE_TSPECIALS true l1 with
              | None => PInvalid
              | Some (n, w, _) =>
                  let '(n', w') := cookie_set (n ++ [EQ] ++ w) in
                  PElem (latin1_to_utf8 (n' ++ [EQ] ++ w')) (Some (latin1_to_utf8 n', latin1_to_utf8 w')) ps
              end
          end
      end
  end.

(* ---------- lists:  Element.join / Element.split / Headers.elements ---------- *)
Inductive lclass := LGeneric | LCookie | LSetCookie.
Definition lsep (l : lclass) : bytes := match l with LCookie => [SEMI; SP] | _ => [COMMA; SP] end.
Definition split_list (l : lclass) (v : bytes) : list bytes :=
  match l with
  | LGeneric => esplit v
  | LCookie => map strip (split_all [SEMI; SP] v)
  | LSetCookie => setcookie_split v
  end.
Definition join_list (l : lclass) (es : list bytes) : bytes := join_with (lsep l) es.
Definition lelem (l : lclass) : eclass := match l with LGeneric => EGeneric | _ => ECookie end.
Definition parse_list (l : lclass) (v : bytes) : list presult :=
  match v with
  | [] => []                                    (* Headers.elements: "if not fieldvalue: return []" *)
  | _ => map (parse_cls (lelem l)) (split_list l v)
  end.
End Classes.

(* ---------- construction through the API followed by bytes(element) ---------- *)
Inductive cresult := COk (b : bytes) | CInvalid | CUnicode.
Definition of_opt (o : option bytes) : cresult := match o with Some b => COk b | None => CUnicode end.

Fixpoint pset (k : bytes) (v : pval) (ps : list (bytes * pval)) : list (bytes * pval) :=
  match ps with
  | [] => [(k, v)]
  | (k', v') :: r => if bytes_eqb k k' then (k, v) :: r else (k', v') :: pset k v r
  end.
Fixpoint pget (k : bytes) (ps : list (bytes * pval)) : option pval :=
  match ps with
  | [] => None
  | (k', v) :: r => if bytes_eqb k k' then Some v else pget k r
  end.

Section Compose.
Variable pv : variant.     (* escape width of Percent.quote (finding D1) *)

(* cls(value, params) then bytes(): value and parameter values are str (text) or bytes as the caller passes them *)
Definition compose_cls (c : eclass) (value : text) (cookie : text * text) (ps : list (bytes * pval)) : cresult :=
  match c with
  | EGeneric => of_opt (compose_elem TSPECIALS pv value ps)
  | EContentType =>
      match pget BOUNDARY ps with
      | Some (PT t) =>
          match utf8_enc t with
          | Some u =>
              let b := strip_dq u in
              if valid_boundary b then of_opt (compose_elem TSPECIALS pv value (pset BOUNDARY (PB b) ps)) else CInvalid
          | None => CInvalid
          end
      | _ => of_opt (compose_elem TSPECIALS pv value ps)     (* the harness never passes a bytes boundary (TypeError) *)
      end
  | EDisposition =>
      match utf8_enc value with
      | Some u => match cd_sanitize u (map fst ps) with
                  | Some v => of_opt (compose_raw TSPECIALS pv v ps)
                  | None => CInvalid
                  end
      | None => CInvalid
      end
  | ECookie =>
      let '(n, v) := cookie in
      if is_latin1 n && is_latin1 v then
        let '(n', v') := cookie_set (latin1_enc n ++ [EQ] ++ latin1_enc v) in
        of_opt (compose_raw COOKIE_TSPECIALS pv (n' ++ [EQ] ++ v') ps)
      else CUnicode
  end.
End Compose.

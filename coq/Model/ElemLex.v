(* Lexical helpers shared by the header-element models of C19 (Model/Accept.v) and C20
   (Model/Range.v): bytes.strip, bytes.partition, bytes.lower and the two "separator outside
   double quotes" regexes of httoop/header/element.py (HeaderElement.RE_SPLIT / RE_PARAMS).
   Definitions only; lemmas are in Proofs/ElemLex.v.  Tables come from Gen/ElemLexT.v. *)
From Httoop Require Export Lib.Bytes Gen.ElemLexT.
Local Open Scope N_scope.

Definition COMMA : byte := x2c.
Definition SEMI : byte := x3b.
Definition DQ : byte := x22.
Definition BSL : byte := x5c.
Definition EQC : byte := x3d.
Definition DASH : byte := x2d.
Definition SP : byte := x20.
Definition STAR : byte := x2a.
Definition SLASH : byte := x2f.
Definition QMARK : byte := x3f.

Definition isnil (l : bytes) : bool := match l with [] => true | _ :: _ => false end.

(* bytes.strip(): the octet set is regenerated (BYTES_WS) *)
Definition is_ws (c : byte) : bool := inmask BYTES_WS c.
Fixpoint lstrip (l : bytes) : bytes :=
  match l with
  | c :: r => if is_ws c then lstrip r else l
  | [] => []
  end.
Definition rstrip (l : bytes) : bytes := rev (lstrip (rev l)).
Definition strip (l : bytes) : bytes := rstrip (lstrip l).

(* bytes.partition(sep) for a one-octet separator: (head, separator found?, tail) *)
Fixpoint partition3 (sep : byte) (l : bytes) : bytes * bool * bytes :=
  match l with
  | [] => ([], false, [])
  | c :: r =>
      if beq c sep then ([], true, r)
      else let '(a, f, b) := partition3 sep r in (c :: a, f, b)
  end.

(* HeaderElement.RE_SPLIT / RE_PARAMS .split(l) (pattern text pinned in Gen/ElemLexT.v: the separator followed
   by a lookahead for an even number of double quotes up to the end): a separator splits iff an even number of
   double quotes follows it.  The auxiliary returns (odd number of quotes in l?, first piece, other pieces). *)
Fixpoint qsplit_aux (sep : byte) (l : bytes) : bool * bytes * list bytes :=
  match l with
  | [] => (false, [], [])
  | c :: r =>
      let '(odd, h, t) := qsplit_aux sep r in
      if beq c DQ then (negb odd, c :: h, t)
      else if beq c sep && negb odd then (odd, [], h :: t)
      else (odd, c :: h, t)
  end.
Definition qsplit (sep : byte) (l : bytes) : list bytes :=
  let '(_, h, t) := qsplit_aux sep l in h :: t.

(* bytes.lower() *)
Definition lower1 (c : byte) : byte := Nb (nth (N.to_nat (bN c)) LOWER_TAB (bN c)).
Definition lower (l : bytes) : bytes := map lower1 l.

(* b in l  for a two- or three-octet needle *)
Fixpoint has2 (a b : byte) (l : bytes) : bool :=
  match l with
  | x :: ((y :: _) as r) => (beq x a && beq y b) || has2 a b r
  | _ => false
  end.
Fixpoint has3 (a b c : byte) (l : bytes) : bool :=
  match l with
  | x :: ((y :: z :: _) as r) => (beq x a && beq y b && beq z c) || has3 a b c r
  | _ => false
  end.

Fixpoint join_with (sep : bytes) (l : list bytes) : bytes :=
  match l with
  | [] => []
  | [x] => x
  | x :: r => x ++ sep ++ join_with sep r
  end.

(* decimal rendering of a natural number ("%d"), fuelled by the number of binary digits *)
Fixpoint dec_fuel (f : nat) (n : N) : bytes :=
  match f with
  | O => [Nb (48 + n mod 10)]
  | S f' => if n <? 10 then [Nb (48 + n)] else dec_fuel f' (n / 10) ++ [Nb (48 + n mod 10)]
  end.
Definition dec (n : N) : bytes := dec_fuel (S (N.to_nat (N.log2 n))) n.

Definition len (l : bytes) : N := N.of_nat (List.length l).

(* An independent reading of RFC 7230 section 3 (message format), written from the RFC and not from httoop:

     HTTP-message = start-line *( header-field CRLF ) CRLF [ message-body ]
     request-line = method SP request-target SP HTTP-version         status-line = HTTP-version SP 3DIGIT SP reason-phrase
     header-field = field-name ":" OWS field-value OWS               field-name = token
     message body length (3.3.3): rule 1 (responses to HEAD, 1xx, 204, 304: no body - the caller says so with
       [bodiless]), Transfer-Encoding: chunked  ->  chunked-body = *chunk last-chunk trailer-part CRLF,
       Content-Length  ->  exactly that many octets, neither -> no body.  Both framings together are refused.

   [rd_message] returns a result only if the octets are EXACTLY ONE message (nothing may follow).
   This reader is used only to STATE property C05; it shares nothing with the composer or parser models except
   the byte-string primitives of Lib/Split.v (first occurrence of a separator, strip). *)
From Httoop Require Export Lib.Bytes Lib.Split.
Local Open Scope N_scope.

Definition rd_digit (c : byte) : bool := let n := bN c in (48 <=? n) && (n <=? 57).
Definition rd_alpha (c : byte) : bool := let n := bN c in ((65 <=? n) && (n <=? 90)) || ((97 <=? n) && (n <=? 122)).
(* tchar = "!" / "#" / "$" / "%" / "&" / "'" / "*" / "+" / "-" / "." / "^" / "_" / "`" / "|" / "~" / DIGIT / ALPHA *)
Definition rd_tchar (c : byte) : bool :=
  rd_digit c || rd_alpha c || existsb (N.eqb (bN c)) [33; 35; 36; 37; 38; 39; 42; 43; 45; 46; 94; 95; 96; 124; 126].
Definition rd_token (l : bytes) : bool := nonempty_b l && forallb rd_tchar l.
Definition rd_vchar (c : byte) : bool := let n := bN c in (33 <=? n) && (n <=? 126).
Definition rd_ows (c : byte) : bool := beq c SP || beq c HT.
Definition rd_trim (l : bytes) : bytes := strip_by rd_ows l.
(* field content: anything but CR and LF (obs-text and, leniently, other controls are let through) *)
Definition rd_no_crlf (l : bytes) : bool := forallb (fun c => negb (beq c CR || beq c LF)) l.

(* 1*DIGIT and 1*HEXDIG *)
Definition rd_dec (l : bytes) : option N :=
  if nonempty_b l && forallb rd_digit l then Some (fold_left (fun a c => a * 10 + (bN c - 48)) l 0) else None.
Definition rd_hexval (c : byte) : option N :=
  let n := bN c in
  if (48 <=? n) && (n <=? 57) then Some (n - 48)
  else if (65 <=? n) && (n <=? 70) then Some (n - 55)
  else if (97 <=? n) && (n <=? 102) then Some (n - 87)
  else None.
Fixpoint rd_hex_acc (l : bytes) (acc : N) : option N :=
  match l with
  | [] => Some acc
  | c :: r => match rd_hexval c with Some d => rd_hex_acc r (acc * 16 + d) | None => None end
  end.
Definition rd_hex (l : bytes) : option N := match l with [] => None | _ :: _ => rd_hex_acc l 0 end.

(* HTTP-version = "HTTP/" DIGIT "." DIGIT *)
Definition rd_version (l : bytes) : bool :=
  match l with
  | [h; t1; t2; p; s; a; dot; b] =>
      beq h x48 && beq t1 x54 && beq t2 x54 && beq p x50 && beq s x2f && rd_digit a && beq dot x2e && rd_digit b
  | _ => false
  end.
Definition rd_request_line (l : bytes) : bool :=
  match cut1 SP l with
  | Some (m, r) =>
      match cut1 SP r with
      | Some (t, v) => rd_token m && nonempty_b t && forallb rd_vchar t && rd_version v
      | None => false
      end
  | None => false
  end.
Definition rd_status_line (l : bytes) : bool :=
  match cut1 SP l with
  | Some (v, a :: b :: c :: s :: reason) =>
      rd_version v && rd_digit a && rd_digit b && rd_digit c && beq s SP &&
      forallb (fun x => beq x HT || beq x SP || rd_vchar x || (128 <=? bN x)) reason
  | _ => false
  end.

(* *( header-field CRLF ) CRLF : the fields and what follows the empty line *)
Fixpoint rd_fields (fuel : nat) (d : bytes) : option (list (bytes * bytes) * bytes) :=
  match fuel with
  | O => None
  | S f =>
      match cut CRLF d with
      | None => None
      | Some ([], rest) => Some ([], rest)
      | Some (line, rest) =>
          match cut1 COLON line with
          | None => None
          | Some (name, value) =>
              if rd_token name && rd_no_crlf value then
                match rd_fields f rest with
                | Some (fs, r) => Some ((name, rd_trim value) :: fs, r)
                | None => None
                end
              else None
          end
      end
  end.

Definition L_CONTENT_LENGTH : bytes := X "636f6e74656e742d6c656e677468".
Definition L_TRANSFER_ENCODING : bytes := X "7472616e736665722d656e636f64696e67".
Definition L_CHUNKED : bytes := X "6368756e6b6564".
Definition COMMA : bytes := [x2c].

(* field names are case-insensitive *)
Definition rd_values (lname : bytes) (fs : list (bytes * bytes)) : list bytes :=
  map snd (filter (fun f => bytes_eqb (lower (fst f)) lname) fs).
Definition rd_codings (fs : list (bytes * bytes)) : list bytes :=
  filter nonempty_b (map (fun x => lower (rd_trim x)) (flat_map (split_all COMMA) (rd_values L_TRANSFER_ENCODING fs))).

Inductive framing := FNone | FLength (n : N) | FChunked.

Definition rd_framing (fs : list (bytes * bytes)) : option framing :=
  match rd_values L_CONTENT_LENGTH fs, rd_codings fs with
  | [], [] => Some FNone
  | _ :: _, _ :: _ => None                                         (* both framings: refused *)
  | v :: vs, [] =>
      match rd_dec v with
      | Some n => if forallb (fun w => match rd_dec w with Some m => m =? n | None => false end) vs then Some (FLength n) else None
      | None => None
      end
  | [], [c] => if bytes_eqb c L_CHUNKED then Some FChunked else None   (* other transfer codings: not read *)
  | [], _ => None
  end.

(* *chunk last-chunk : the concatenated chunk data and what follows the last-chunk line *)
Fixpoint rd_chunks (fuel : nat) (d : bytes) : option (bytes * bytes) :=
  match fuel with
  | O => None
  | S f =>
      match cut CRLF d with
      | None => None
      | Some (line, rest) =>
          match rd_hex (match cut1 SEMI line with Some (a, _) => a | None => line end) with
          | None => None
          | Some n =>
              if n =? 0 then Some ([], rest)
              else if N.of_nat (List.length rest) <? n + 2 then None
              else
                let k := N.to_nat n in
                if prefixb CRLF (skipn k rest) then
                  match rd_chunks f (skipn (k + 2) rest) with
                  | Some (p, r) => Some (firstn k rest ++ p, r)
                  | None => None
                  end
                else None
          end
      end
  end.

Record rd_result := { rd_start : bytes; rd_fs : list (bytes * bytes); rd_frame : framing; rd_payload : bytes; rd_trailer : list (bytes * bytes) }.

Definition rd_message (is_request bodiless : bool) (d : bytes) : option rd_result :=
  match cut CRLF d with
  | None => None
  | Some (start, rest) =>
      if negb (if is_request then rd_request_line start else rd_status_line start) then None else
      match rd_fields (S (List.length rest)) rest with
      | None => None
      | Some (fs, body) =>
          match rd_framing fs with
          | None => None
          | Some fr =>
              let result p tr := Some {| rd_start := start; rd_fs := fs; rd_frame := fr; rd_payload := p; rd_trailer := tr |} in
              if bodiless then match body with [] => result [] [] | _ :: _ => None end
              else match fr with
                   | FChunked =>
                       match rd_chunks (S (List.length body)) body with
                       | None => None
                       | Some (p, r) =>
                           match rd_fields (S (List.length r)) r with
                           | Some (tr, []) => result p tr
                           | _ => None
                           end
                       end
                   | FLength n => if N.of_nat (List.length body) =? n then result body [] else None
                   | FNone => match body with [] => result [] [] | _ :: _ => None end
                   end
          end
      end
  end.

(* property C05, clause 1: the octets are exactly one well-framed message whose payload is [payload] *)
Definition wf_http1 (is_request bodiless : bool) (d payload : bytes) : Prop :=
  exists r, rd_message is_request bodiless d = Some r /\ rd_payload r = payload.

(* Model of the quality-value negotiation fields (C19): httoop/header/element.py
   (HeaderElement.split / parseparams / parseparam / unescape_param / formatparam / compose,
   _AcceptElement.parse / quality / sanitize / sorted / __lt__), httoop/header/messaging.py
   (Accept.sanitize) and Headers.elements (httoop/header/headers.py).
   float() is a concrete syntactic recogniser (float_parse) plus an abstract value/order (Section).
   Not modelled (the model answers [.. Unmodelled]): RFC 2047 encoded words (decode_rfc2047_charset
   guard true) and RFC 2231 parameter names (a '*' in a parameter name).
   Two variants (Lib/Variant.v; T1 probes EMPTY_Q_VARIANT and ACCEPT_EXT_VARIANT in Gen/AcceptT.v say which the
   working tree implements): [vq] - an empty q text gives the quality None (AsFound) or is handed to float() like
   every other text (Repaired); [vx] - parameters after the quality value are part of the text handed to float()
   (AsFound: always refused) or are appended to the parameters of the element (Repaired).
   Definitions only; proofs are in Proofs/Accept.v. *)
From Coq Require Import ZArith.
From Httoop Require Export Lib.Variant Model.ElemLex Gen.AcceptT Gen.PercentT Model.Percent.
Local Open Scope N_scope.

Definition LQ : byte := x71.  (* q *)

(* ---------- float(): syntax ---------- *)

Inductive fres :=
| FVal (neg : bool) (mant : N) (ndig : N) (e10 : Z)   (* (-1)^neg * mant * 10^e10 ; ndig mantissa digits were read *)
| FSpecial (neg : bool) (w : bytes)                   (* inf / infinity / nan, lower-cased *)
| FErr.                                               (* ValueError *)

Definition fdigit (c : byte) : bool := inmask FLOAT_DIGITS c.

(* every '_' must have a digit on both sides; returns the text without underscores *)
Fixpoint strip_underscores (l : bytes) (prev_digit : bool) : option bytes :=
  match l with
  | [] => Some []
  | c :: r =>
      if inmask FLOAT_UNDERSCORE c then
        if prev_digit then
          match r with
          | d :: _ => if fdigit d then strip_underscores r false else None
          | [] => None
          end
        else None
      else match strip_underscores r (fdigit c) with Some r' => Some (c :: r') | None => None end
  end.

(* leading digits: (value accumulated, how many, rest) *)
Fixpoint take_digits (l : bytes) (acc cnt : N) : N * N * bytes :=
  match l with
  | c :: r => if fdigit c then take_digits r (10 * acc + (bN c - 48)) (cnt + 1) else (acc, cnt, l)
  | [] => (acc, cnt, [])
  end.

Definition split_fsign (l : bytes) : bool * bytes :=
  match l with
  | c :: r => if inmask FLOAT_SIGNS c then (inmask FLOAT_MINUS c, r) else (false, l)
  | [] => (false, [])
  end.

(* the numeric part after the sign: digits [. digits] [e [sign] digits], at least one mantissa digit *)
Definition float_number (neg : bool) (l : bytes) : fres :=
  let '(m1, n1, r1) := take_digits l 0 0 in
  let '(m2, n2, r2) :=
    match r1 with
    | c :: r => if inmask FLOAT_POINT c then let '(m, n, r') := take_digits r m1 0 in (m, n, r') else (m1, 0, r1)
    | [] => (m1, 0, r1)
    end in
  if n1 + n2 =? 0 then FErr
  else
    match r2 with
    | [] => FVal neg m2 (n1 + n2) (- Z.of_N n2)
    | c :: r =>
        if inmask FLOAT_EXP c then
          let '(eneg, r') := split_fsign r in
          let '(e, ne, r'') := take_digits r' 0 0 in
          if (ne =? 0) || negb (isnil r'') then FErr
          else FVal neg m2 (n1 + n2) ((if eneg then - Z.of_N e else Z.of_N e) - Z.of_N n2)
        else FErr
    end.

Fixpoint lstrip_m (m : N) (l : bytes) : bytes :=
  match l with
  | c :: r => if inmask m c then lstrip_m m r else l
  | [] => []
  end.
Definition strip_m (m : N) (l : bytes) : bytes := rev (lstrip_m m (rev (lstrip_m m l))).

(* float(text): [is_bytes] selects the white space set (bytes argument / str argument) *)
Definition float_parse (is_bytes : bool) (text : bytes) : fres :=
  let s := strip_m (if is_bytes then FLOAT_WS_B else FLOAT_WS_S) text in
  if isnil s then FErr
  else
    match strip_underscores s false with
    | None => FErr
    | Some s' =>
        let '(neg, r) := split_fsign s' in
        if existsb (bytes_eqb (lower r)) FLOAT_WORDS then FSpecial neg (lower r)
        else float_number neg r
    end.

(* ---------- quality values ---------- *)

(* what the (abstract) value function says about a q text *)
Inductive qres (Q : Type) := QVal (q : Q) | QBad | QUnk.
Arguments QVal {Q} q.
Arguments QBad {Q}.
Arguments QUnk {Q}.

(* the concrete instance used by the correspondence run: decimals with at most 15 mantissa digits and a
   decimal exponent within +-40 as integers scaled by 10^40 (order-isomorphic to their doubles);
   non-finite words are refused (repair of D24); everything else numeric is "unknown to the model" *)
Definition QSCALE : Z := 40.
Definition concrete_q (is_bytes : bool) (text : bytes) : qres Z :=
  match float_parse is_bytes text with
  | FErr => QBad
  | FSpecial _ _ => QBad
  | FVal neg m nd e =>
      if m =? 0 then QVal 0%Z
      else if (nd <=? 15) && (Z.leb (- QSCALE) e) && (Z.leb e QSCALE)
      then QVal ((if neg then -1 else 1) * Z.of_N m * 10 ^ (QSCALE + e))%Z
      else QUnk
  end.

(* ---------- RE_Q_SEPARATOR.split(s, 1): leftmost  ; ws* q ws* = ws*  ---------- *)

Fixpoint skip_rws (l : bytes) : bytes :=
  match l with
  | c :: r => if inmask RE_WS c then skip_rws r else l
  | [] => []
  end.

(* [l] is what follows a ';' : the rest after the separator if it matches here *)
Definition qsep_match (l : bytes) : option bytes :=
  match skip_rws l with
  | c :: r =>
      if beq c LQ then
        match skip_rws r with
        | e :: r' => if beq e EQC then Some (skip_rws r') else None
        | [] => None
        end
      else None
  | [] => None
  end.

Fixpoint qsep_split (l : bytes) : bytes * option bytes :=
  match l with
  | [] => ([], None)
  | c :: r =>
      match (if beq c SEMI then qsep_match r else None) with
      | Some rest => ([], Some rest)
      | None => let '(a, b) := qsep_split r in (c :: a, b)
      end
  end.

(* ---------- parseparams ---------- *)

Inductive pres := POk (value : bytes) (params : list (bytes * bytes)) | PInvalid | PUnmodelled.

Definition startswith_dq (l : bytes) : bool := match l with c :: _ => beq c DQ | [] => false end.
Definition endswith_dq (l : bytes) : bool := match rev l with c :: _ => beq c DQ | [] => false end.

(* re.sub(backslash not followed by a backslash, empty, x) *)
Fixpoint unbackslash (l : bytes) : bytes :=
  match l with
  | [] => []
  | c :: r =>
      if beq c BSL then
        match r with
        | d :: _ => if beq d BSL then c :: unbackslash r else unbackslash r
        | [] => []
        end
      else c :: unbackslash r
  end.

(* unescape_param: None = InvalidHeader (unquoted value with TSPECIALS) *)
Definition unescape_param (v : bytes) : option bytes :=
  if startswith_dq v && endswith_dq v then Some (unbackslash (removelast (tl v)))
  else if existsb (inmask TSPECIALS) v then None
  else Some v.

Definition parseparam (atom : bytes) : option (bytes * bytes) :=
  let '(k, _, v) := partition3 EQC atom in
  match unescape_param (strip v) with
  | Some v' => Some (lower (strip k), v')
  | None => None
  end.

Fixpoint has_dup_key (seen : list bytes) (l : list (bytes * bytes)) : bool :=
  match l with
  | [] => false
  | (k, _) :: r => existsb (bytes_eqb k) seen || has_dup_key (k :: seen) r
  end.

Fixpoint all_some_p (l : list (option (bytes * bytes))) : option (list (bytes * bytes)) :=
  match l with
  | [] => Some []
  | None :: _ => None
  | Some x :: r => match all_some_p r with Some r' => Some (x :: r') | None => None end
  end.

Definition parseparams (s : bytes) : pres :=
  let atoms := filter (fun x => negb (isnil x)) (map strip (qsplit SEMI s)) in
  let '(value, rest) := match atoms with [] => ([], []) | v :: r => (v, r) end in
  (* a '*' in a parameter name: RFC 2231 extended / continuation parameters are outside the model *)
  if existsb (fun a => let '(k, _, _) := partition3 EQC a in existsb (beq STAR) k) rest then PUnmodelled
  else
    match all_some_p (map parseparam rest) with
    | None => PInvalid
    | Some ps => if has_dup_key [] ps then PInvalid else POk value ps
    end.

(* ---------- formatparam / compose ---------- *)

(* value.replace('\\', '\\\\').replace('"', '\\"') *)
Definition escape_quoted (v : bytes) : bytes :=
  flat_map (fun c => if beq c BSL then [BSL; BSL] else if beq c DQ then [BSL; DQ] else [c]) v.

(* str (ISO-8859-1 decoded) -> UTF-8 *)
Definition utf8_of_latin1 (v : bytes) : bytes :=
  flat_map (fun c => let n := bN c in if n <? 128 then [c] else [Nb (192 + n / 64); Nb (128 + n mod 64)]) v.

Definition is_ascii (v : bytes) : bool := forallb (fun c => bN c <? 128) v.

(* [is_str]: the value is a str (decoded parameter) rather than bytes (the q parameter set by _AcceptElement.parse) *)
Definition formatparam (k : bytes) (is_str : bool) (v : bytes) : bytes :=
  if isnil v then k
  else if is_str && negb (is_ascii v)
  then k ++ [STAR; EQC] ++ X "7574662d382727" ++ quote IMPL_VARIANT PCT_DEFAULT_SAFE (utf8_of_latin1 v)
  else if existsb (inmask TSPECIALS) v then k ++ [EQC; DQ] ++ escape_quoted v ++ [DQ]
  else k ++ [EQC] ++ v.

(* decode_rfc2047_charset may try to decode encoded words: the value contains "=?" and no double quote directly
   before one.  (The pinned code additionally declines when "==?" occurs; the scheduled repair D15 narrows that to
   "==?" not followed by "=".  Both behaviours are outside the model, so every such value is answered Unmodelled.) *)
Definition rfc2047_guard (l : bytes) : bool :=
  has2 EQC QMARK l && negb (has3 DQ EQC QMARK l).

(* ---------- one element ---------- *)

Section Quality.
Context {Q : Type}.
Variable parse_q : bool -> bytes -> qres Q.     (* float(text) for a bytes / str argument *)
Variable qeqb qltb : Q -> Q -> bool.            (* == and < on the values *)
Variable vq vx : variant.                       (* empty q text / accept-ext parameters: as found or repaired *)

Record elem := mkelem {
  e_value : bytes;
  e_params : list (bytes * bytes);
  e_qbytes : bool;            (* the q parameter is a bytes object (came through the q separator) *)
  e_quality : option Q;       (* None: the Python value None (empty q text) *)
  e_text : bytes              (* compose(): the text compared when qualities are equal *)
}.

Inductive eres := EOk (e : elem) | EInvalid | EUnmodelled.

Definition QKEY : bytes := [LQ].
Definition ONE : bytes := [x31].

Fixpoint set_param (k v : bytes) (ps : list (bytes * bytes)) : list (bytes * bytes) :=
  match ps with
  | [] => [(k, v)]
  | (k', v') :: r => if bytes_eqb k' k then (k, v) :: r else (k', v') :: set_param k v r
  end.
Fixpoint get_param (k : bytes) (ps : list (bytes * bytes)) : option bytes :=
  match ps with
  | [] => None
  | (k', v') :: r => if bytes_eqb k' k then Some v' else get_param k r
  end.

Definition compose (value : bytes) (qbytes : bool) (ps : list (bytes * bytes)) : bytes :=
  value ++ flat_map (fun kv => [SEMI; SP] ++ formatparam (fst kv) (negb (qbytes && bytes_eqb (fst kv) QKEY)) (snd kv)) ps.

(* the q part after the separator goes through HeaderElement.parse:
   the q text and the accept-ext parameters that follow it.
   AsFound: the q parameter is bytes() of that element, so with parameters the text handed to float() contains ';'
   and is never a float: invalid.  Repaired: the q parameter is the value alone, the parameters are kept. *)
Inductive qpart := QNoSep | QText (t : bytes) (ext : list (bytes * bytes)) | QInvalid | QUnmodelled.
Definition parse_qpart (after : option bytes) : qpart :=
  match after with
  | None => QNoSep
  | Some a =>
      let a' := strip a in
      if rfc2047_guard a' then QUnmodelled
      else match parseparams a' with
           | POk v [] => QText v []
           | POk v (x :: r) => match vx with AsFound => QInvalid | Repaired => QText v (x :: r) end
           | PInvalid => QInvalid
           | PUnmodelled => QUnmodelled
           end
  end.

Definition has_key (ps : list (bytes * bytes)) (kv : bytes * bytes) : bool :=
  match get_param (fst kv) ps with Some _ => true | None => false end.

(* _AcceptElement.parse followed by __init__/sanitize; [star]: the class rewrites "*" to "*/*" (Accept) *)
Definition accept_parse (star : bool) (s : bytes) : eres :=
  if rfc2047_guard s then EUnmodelled
  else
    let '(before, after) := qsep_split s in
    match parse_qpart after with
    | QUnmodelled => EUnmodelled
    | QInvalid => EInvalid
    | qp =>
        match parseparams (strip before) with
        | PUnmodelled => EUnmodelled
        | PInvalid => EInvalid
        | POk mt ps =>
            let '(qbytes, ps0, ext) := match qp with QText t ext => (true, set_param QKEY t ps, ext) | _ => (false, ps, []) end in
            if existsb (has_key ps0) ext then EInvalid          (* Parameter given twice (an accept-ext name that is q or a media-range parameter) *)
            else
              let ps' := ps0 ++ ext in
              let qtext := match get_param QKEY ps' with Some t => t | None => ONE end in
              let value := if star && bytes_eqb mt [STAR] then [STAR; SLASH; STAR] else mt in
              let mk q := EOk (mkelem value ps' qbytes q (compose value qbytes ps')) in
              if (match vq with AsFound => isnil qtext | Repaired => false end) then mk None
              else match parse_q qbytes qtext with
                   | QVal q => mk (Some q)
                   | QBad => EInvalid          (* Quality value must be float. *)
                   | QUnk => EUnmodelled
                   end
        end
    end.

(* ---------- __lt__ and sorted(reverse=True) ---------- *)

Fixpoint bytes_ltb (a b : bytes) : bool :=
  match a, b with
  | [], [] => false
  | [], _ :: _ => true
  | _ :: _, [] => false
  | x :: a', y :: b' => if bN x <? bN y then true else if bN y <? bN x then false else bytes_ltb a' b'
  end.

Definition oq_eqb (a b : option Q) : bool :=
  match a, b with
  | Some x, Some y => qeqb x y
  | None, None => true
  | _, _ => false
  end.
Definition oq_ltb (a b : option Q) : bool :=
  match a, b with
  | Some x, Some y => qltb x y
  | _, _ => false       (* None < float raises TypeError: excluded before sorting *)
  end.

Definition lt_elem (a b : elem) : bool :=
  if oq_eqb (e_quality a) (e_quality b) then bytes_ltb (e_text a) (e_text b)
  else oq_ltb (e_quality a) (e_quality b).

(* stable ascending insertion sort for a "less than" *)
Fixpoint insert_by {A} (lt : A -> A -> bool) (x : A) (l : list A) : list A :=
  match l with
  | [] => [x]
  | y :: r => if lt x y then x :: l else y :: insert_by lt x r
  end.
Definition isort {A} (lt : A -> A -> bool) (l : list A) : list A := fold_left (fun acc x => insert_by lt x acc) l [].
(* list(sorted(l, reverse=True)): reverse, stable ascending sort, reverse *)
Definition sorted_rev {A} (lt : A -> A -> bool) (l : list A) : list A := rev (isort lt (rev l)).

(* ---------- Headers.elements(name) ---------- *)

Inductive fres_e := FOk (es : list elem) | FInvalid | FTypeError | FUnmodelled.

Fixpoint collect (l : list eres) : option (option (list elem)) :=   (* None: unmodelled; Some None: invalid *)
  match l with
  | [] => Some (Some [])
  | EUnmodelled :: _ => None
  | EInvalid :: r => match collect r with None => None | Some _ => Some None end
  | EOk e :: r => match collect r with None => None | Some None => Some None | Some (Some es) => Some (Some (e :: es)) end
  end.

Definition is_some {A} (x : option A) : bool := match x with Some _ => true | None => false end.

Definition elements (star : bool) (fieldvalue : bytes) : fres_e :=
  if isnil fieldvalue then FOk []
  else
    match collect (map (fun p => accept_parse star (strip p)) (qsplit COMMA fieldvalue)) with
    | None => FUnmodelled
    | Some None => FInvalid
    | Some (Some es) =>
        if existsb (fun e => rfc2047_guard (e_text e)) es then FUnmodelled       (* str(self) would decode encoded words *)
        else if existsb (fun e => is_some (e_quality e)) es && existsb (fun e => negb (is_some (e_quality e))) es
        then FTypeError                                                          (* None < float *)
        else FOk (sorted_rev lt_elem es)
    end.

End Quality.

Arguments mkelem {Q}.
Arguments EOk {Q}.
Arguments EInvalid {Q}.
Arguments EUnmodelled {Q}.
Arguments FOk {Q}.
Arguments FInvalid {Q}.
Arguments FTypeError {Q}.
Arguments FUnmodelled {Q}.

(* Model of httoop/header/range.py (Range.parse, prevent_denial_of_service, positions,
   get_range_content, ContentRange.compose), of the range part of
   httoop/semantic/response.py (range_conditions, prepare_ranges, prepare_range,
   multipart_byteranges) and of Multipart.encode (httoop/codecs/multipart/multipart.py).
   io.BytesIO seek/read is list slicing.  Definitions only; proofs are in Proofs/Range.v.
   Two findings are indexed by a variant each, chosen by a T1 probe (Gen/RangeT.v):
     vi (C20-lax-integer-syntax)       AsFound:  a byte position is whatever int() converts
                                       Repaired: x.isdigit() is demanded before integer(x)
     vu (C20-range-unit-not-validated) AsFound:  the range unit is never looked at
                                       Repaired: Range.RE_UNIT must match it (else InvalidHeader) and
                                                 prepare_ranges leaves the response alone unless value.lower() == 'bytes' *)
From Httoop Require Export Lib.Variant Model.ElemLex Gen.RangeT.
Local Open Scope N_scope.

(* ---------- int(bytes) in base 10 and httoop.util.integer ---------- *)

(* digits with single underscores between digits; [prev] = the previous octet was a digit *)
Fixpoint int_digits (l : bytes) (acc : N) (prev : bool) : option N :=
  match l with
  | [] => if prev then Some acc else None
  | c :: r =>
      if inmask INT_DIGITS c then int_digits r (10 * acc + (bN c - 48)) true
      else if inmask INT_UNDERSCORE c && prev then int_digits r acc false
      else None
  end.

Fixpoint lstrip_by (m : N) (l : bytes) : bytes :=
  match l with
  | c :: r => if inmask m c then lstrip_by m r else l
  | [] => []
  end.
Definition strip_by (m : N) (l : bytes) : bytes := rev (lstrip_by m (rev (lstrip_by m l))).

(* int(b): (value < 0 ?, magnitude) or ValueError *)
Definition pyint (b : bytes) : option (bool * N) :=
  match strip_by INT_WS b with
  | [] => None
  | c :: r =>
      if inmask INT_SIGNS c
      then match int_digits r 0 false with Some n => Some (inmask INT_MINUS c && negb (n =? 0), n) | None => None end
      else match int_digits (c :: r) 0 false with Some n => Some (false, n) | None => None end
  end.

(* integer(b) followed by the test "x and x < 0 -> ValueError" of Range.parse *)
Definition pynat (b : bytes) : option N :=
  match pyint b with
  | Some (neg, n) =>
      if existsb (beq SP) b then None          (* util.integer: b' ' in number *)
      else if neg then None                    (* negative *)
      else Some n
  | None => None
  end.

(* bytes.isdigit(): not empty and every octet in the digit class *)
Definition isdigit_all (b : bytes) : bool := negb (isnil b) && forallb (inmask BYTES_ISDIGIT) b.

(* one byte position of Range.parse *)
Definition pos_parse (vi : variant) (b : bytes) : option N :=
  match vi with
  | AsFound => pynat b
  | Repaired => if isdigit_all b then pynat b else None      (* any(x and not x.isdigit() ...) -> ValueError *)
  end.

(* ---------- Range.parse ---------- *)

Definition rspec := (option N * option N)%type.

Definition zero_or_none (x : option N) : bool := match x with None => true | Some n => n =? 0 end.

(* one byte-range-spec; None = InvalidHeader *)
Definition parse_one (vi : variant) (br : bytes) : option rspec :=
  let '(a, found, b) := partition3 DASH br in
  let start := strip a in
  let stop := strip b in
  if (isnil start && isnil stop) || negb found then None        (* no range start/stop *)
  else
    let s := if isnil start then Some None else option_map Some (pos_parse vi start) in
    let e := if isnil stop then Some None else option_map Some (pos_parse vi stop) in
    match s, e with
    | Some s, Some e =>
        if match s, e with Some x, Some y => y <=? x | _, _ => false end then None   (* start must be smaller than end *)
        else if zero_or_none s && zero_or_none e then None                            (* full range requested *)
        else Some (s, e)
    | _, _ => None                                                                    (* no range number *)
    end.

Fixpoint all_some {A} (l : list (option A)) : option (list A) :=
  match l with
  | [] => Some []
  | None :: _ => None
  | Some x :: r => match all_some r with Some r' => Some (x :: r') | None => None end
  end.

Definition optN_eqb (a b : option N) : bool := opt_eqb N.eqb a b.
Definition rspec_eqb (a b : rspec) : bool := optN_eqb (fst a) (fst b) && optN_eqb (snd a) (snd b).

(* ranges = set(): keep the first occurrence of each spec *)
Fixpoint dedupe (seen : list rspec) (l : list rspec) : list rspec :=
  match l with
  | [] => []
  | x :: r => if existsb (rspec_eqb x) seen then dedupe seen r else x :: dedupe (x :: seen) r
  end.

(* sorted(ranges, key=lambda x: x[0] if x[0] is not None else -1): key shifted by one *)
Definition skey (r : rspec) : N := match fst r with None => 0 | Some x => x + 1 end.
Fixpoint insert_r (x : rspec) (l : list rspec) : list rspec :=
  match l with
  | [] => [x]
  | y :: r => if skey x <=? skey y then x :: l else y :: insert_r x r
  end.
(* stable: an element is placed before the later elements with the same key *)
Definition sort_r (l : list rspec) : list rspec := fold_right insert_r [] l.

(* ---------- Range.prevent_denial_of_service ---------- *)

Definition count_if {A} (p : A -> bool) (l : list A) : N := N.of_nat (List.length (filter p l)).
Definition is_none {A} (x : option A) : bool := match x with None => true | Some _ => false end.
Definition or0 (x : option N) : N := match x with Some n => n | None => 0 end.

(* half-open intervals [s, e): set(range(s, e)) objects intersect *)
Definition overlap (a b : N * N) : bool := N.max (fst a) (fst b) <? N.min (snd a) (snd b).

Fixpoint no_dup_range (seen : list (N * N)) (l : list (N * N)) : bool :=
  match l with
  | [] => true
  | x :: r => if existsb (overlap x) seen then false else no_dup_range (x :: seen) r
  end.

Definition sumN (l : list N) : N := fold_right N.add 0 l.

(* stddev(lengths) > 2.0 : exact on the integers ( n*sum(l^2) - (sum l)^2 > 4 n^2 );
   a range without end gives float('inf') -> nan -> the comparison is False *)
Definition stddev_gt2 (rs : list rspec) : bool :=
  if existsb (fun r => is_none (snd r)) rs then false
  else
    let ls := map (fun r => or0 (snd r) - or0 (fst r)) rs in
    let n := N.of_nat (List.length ls) in
    4 * n * n + sumN ls * sumN ls <? n * sumN (map (fun l => l * l) ls).

Definition dos_ok (rs : list rspec) : bool :=
  (count_if (fun r => is_none (fst r)) rs <=? 1) && (count_if (fun r => is_none (snd r)) rs <=? 1) &&
  (let m := fold_right N.max 0 (map (fun r => or0 (snd r) + 1) rs) in
   no_dup_range [] (map (fun r => (or0 (fst r), match snd r with Some y => y | None => m end)) rs)) &&
  negb (stddev_gt2 rs).

(* Range.RE_UNIT.match(unit): one or more octets of the class, nothing else *)
Definition unit_ok (vu : variant) (u : bytes) : bool :=
  match vu with
  | AsFound => true
  | Repaired => negb (isnil u) && forallb (inmask RANGE_UNIT_CHARS) u
  end.

(* Headers.element('Range'): (unit, ranges) or InvalidHeader; [accept] is the DoS filter *)
Definition range_specs_v (vi vu : variant) (v : bytes) : bytes * option (list rspec) :=
  let '(u, _, rest) := partition3 EQC v in
  (u, if unit_ok vu u then all_some (map (fun p => parse_one vi (strip p)) (qsplit COMMA rest)) else None).

Definition range_parse_v (vi vu : variant) (accept : list rspec -> bool) (v : bytes) : option (bytes * list rspec) :=
  match range_specs_v vi vu v with
  | (u, Some l) => let rs := sort_r (dedupe [] l) in if accept rs then Some (u, rs) else None
  | (_, None) => None
  end.

(* the working tree, as probed *)
Definition range_specs := range_specs_v RANGE_INT_VARIANT RANGE_UNIT_VARIANT.
Definition range_parse_with := range_parse_v RANGE_INT_VARIANT RANGE_UNIT_VARIANT.
Definition range_parse := range_parse_with dos_ok.

(* ---------- Range.positions + get_range_content on a BytesIO ---------- *)

Definition nat_of (n : N) : nat := N.to_nat n.

Definition slice (d : bytes) (r : rspec) : bytes :=
  match r with
  | (None, Some e) => skipn (nat_of (len d - e)) d                    (* seek(-e, SEEK_END) clamps at 0; read() *)
  | (Some s, None) => skipn (nat_of s) d                               (* seek(s); read() *)
  | (Some s, Some e) => firstn (nat_of (e + 1 - s)) (skipn (nat_of s) d)  (* seek(s); read(e + 1 - s) *)
  | (None, None) => d
  end.

(* ContentRange('bytes', range, length).compose(): start or 0, end or integer(length) *)
Definition content_range (r : rspec) (total : N) : bytes :=
  X "627974657320" ++ dec (or0 (fst r)) ++ [DASH] ++
  dec (match snd r with Some e => if e =? 0 then total else e | None => total end) ++ [SLASH] ++ dec total.
Definition content_range_unsat (total : N) : bytes := X "6279746573202a2f" ++ dec total.   (* bytes */total *)

(* ---------- Multipart.encode of the parts built by multipart_byteranges ---------- *)

Definition CRLF : bytes := [x0d; x0a].
Definition DD : bytes := [DASH; DASH].
Definition part_headers (ctype : bytes) (cr : bytes) : bytes := PART_HDR_1 ++ cr ++ PART_HDR_2 ++ ctype ++ PART_HDR_3.
Definition mp_part (bd : bytes) (hdrs content : bytes) : bytes := DD ++ bd ++ CRLF ++ hdrs ++ content ++ CRLF.
Definition mp_encode (bd : bytes) (parts : list (bytes * bytes)) : bytes :=
  flat_map (fun p => mp_part bd (fst p) (snd p)) parts ++ DD ++ bd ++ DD ++ CRLF.

(* ---------- ComposedResponse.prepare: the range part ---------- *)

Record pre := mkpre {
  p_resp11 : bool;     (* response.protocol >= (1, 1) *)
  p_req11 : bool;      (* request.protocol >= (1, 1) *)
  p_status200 : bool;  (* response.status == 200 *)
  p_get : bool;        (* request.method == 'GET' *)
  p_etag : bool;       (* 'Etag' in response.headers *)
  p_lastmod : bool;    (* 'Last-Modified' in response.headers *)
  p_arset : bool;      (* the application already put Accept-Ranges: bytes on the response *)
  p_chunked : bool;    (* Transfer-Encoding: chunked on the response *)
  p_fileable : bool    (* body is a BytesIO (read/write/close) rather than a plain iterable *)
}.

(* Accept-Ranges: bytes is set:  status == 200 and fileable and not chunked and Etag  or  Last-Modified *)
Definition accept_ranges_set (c : pre) : bool :=
  (p_status200 c && p_fileable c && negb (p_chunked c) && p_etag c) || p_lastmod c || p_arset c.

Definition range_conditions (c : pre) (has_range : bool) (d : bytes) : bool :=
  p_resp11 c && p_req11 c && p_status200 c && has_range && p_get c && accept_ranges_set c &&
  negb (p_chunked c) && negb (isnil d) && p_fileable c.

Inductive outcome :=
| Unchanged                                        (* status and body as they were, no Content-Range *)
| Unsatisfiable (crange : bytes)                   (* 416, body unchanged, Content-Range: bytes */len *)
| Partial (crange : option bytes) (ctype : option bytes) (clen : N) (body : bytes).
   (* 206; Content-Range header (single range), new Content-Type (multipart), Content-Length, body *)

Definition multipart_ctype (bd : bytes) : bytes :=
  X "6d756c7469706172742f6279746572616e6765733b20626f756e646172793d22" ++ bd ++ [DQ].  (* multipart/byteranges; boundary="bd" *)

Definition prepare_range (rs : list rspec) (d ctype bd : bytes) : outcome :=
  match rs with
  | [r] => let b := slice d r in Partial (Some (content_range r (len d))) None (len b) b
  | _ =>
      let b := mp_encode bd (map (fun r => (part_headers ctype (content_range r (len d)), slice d r)) rs) in
      Partial None (Some (multipart_ctype bd)) (len b) b
  end.

(* range_.value.lower() != 'bytes' -> return False (RFC 7233 3.1: a unit that is not understood is ignored) *)
Definition BYTES_UNIT : bytes := X "6279746573".
Definition unit_served (vu : variant) (u : bytes) : bool :=
  match vu with
  | AsFound => true
  | Repaired => bytes_eqb (lower u) BYTES_UNIT
  end.

Definition prepare_ranges_v (vi vu : variant) (accept : list rspec -> bool) (c : pre) (range : option bytes) (d ctype bd : bytes) : outcome :=
  match range with
  | Some v =>
      if range_conditions c true d then
        match range_parse_v vi vu accept v with
        | Some (u, rs) => if unit_served vu u then prepare_range rs d ctype bd else Unchanged
        | None => Unsatisfiable (content_range_unsat (len d))
        end
      else Unchanged
  | None => Unchanged
  end.
Definition prepare_ranges_with := prepare_ranges_v RANGE_INT_VARIANT RANGE_UNIT_VARIANT.
Definition prepare_ranges := prepare_ranges_with dos_ok.

Definition status_of (o : outcome) (before : N) : N :=
  match o with Unchanged => before | Unsatisfiable _ => 416 | Partial _ _ _ _ => 206 end.

(* Model of httoop's content codings and media-type codecs (property C14):
     httoop/messages/body.py            compress / decompress / __iter__ (pieces, per-piece coding)
     httoop/codecs/codec.py             Codec.decode(data, None): ASCII text
     httoop/codecs/application/gzip.py, zlib.py      wrappers around CPython's gzip / zlib (Section callees)
     httoop/codecs/application/json.py, text/plain.py    wrappers around json / the charset codecs (Section callees)
     httoop/codecs/multipart/multipart.py            delimiter framing (httoop's own logic, fully modelled)
     httoop/codecs/message/http.py                    start line + header block + body
     httoop/header/headers.py           Headers.compose for fields that are composed as one line
   Definitions only; proofs in Proofs/Codecs*.v.  Tables from Gen/CodecsT.v and Gen/HeadersT.v. *)
From Httoop Require Export Lib.Bytes Lib.Split Lib.Variant Lib.Utf8 Model.Headers Gen.CodecsT.
Local Open Scope N_scope.

Definition DASH : byte := x2d.
Definition DASH2 : bytes := [DASH; DASH].
Definition CRLF2 : bytes := CRLF ++ CRLF.
Definition K_CT : bytes := X "436f6e74656e742d54797065".     (* Content-Type *)

(* ------------------------------------------------------------------ content codings *)

Inductive coding := Gzip | Deflate.
Definition coding_eqb (a b : coding) : bool :=
  match a, b with Gzip, Gzip | Deflate, Deflate => true | _, _ => false end.

(* ContentEncoding(value).codec for the two implemented codings (names from T1) *)
Definition coding_of_name (name : bytes) : option coding :=
  if existsb (bytes_eqb name) CE_GZIP_NAMES then Some Gzip
  else if existsb (bytes_eqb name) CE_DEFLATE_NAMES then Some Deflate
  else None.

(* outcome of Codec.decode / Body.decompress: octets | DecodeError | UnicodeDecodeError *)
Inductive cres := COk (b : bytes) | CDecodeError | CUnicodeError.
Definition cres_eqb (a b : cres) : bool :=
  match a, b with
  | COk x, COk y => bytes_eqb x y
  | CDecodeError, CDecodeError | CUnicodeError, CUnicodeError => true
  | _, _ => false
  end.

(* Codec.decode(data, None) = data.decode('ascii'): the text is represented by its (ASCII) octets *)
Definition default_decodable (d : bytes) : bool := forallb (inmask CODEC_DEFAULT_DECODABLE) d.

(* Body.__iter_fileable: read(MAX_CHUNK_SIZE) until the empty read *)
Fixpoint pieces_f (fuel n : nat) (d : bytes) : list bytes :=
  match fuel with
  | O => []
  | S f => match d with
           | [] => []
           | _ :: _ => match firstn n d with
                       | [] => []                       (* read(0) returns b'': the loop stops *)
                       | p => p :: pieces_f f n (skipn n d)
                       end
           end
  end.
Definition pieces (n : nat) (d : bytes) : list bytes := pieces_f (length d) n d.

Section Coding.
(* CPython callees *)
Variable gz : bytes -> bytes.                      (* gzip.GzipFile(mode='w').write(d); the whole file *)
Variable gunz : bytes -> option bytes.             (* gzip.GzipFile(fileobj).read(): every member; None = zlib.error/IOError/EOFError *)
Variable zc : bytes -> bytes.                      (* zlib.compress *)
Variable zd1 : bytes -> option bytes.              (* zlib.decompress: the first stream, what follows is ignored; None = zlib.error *)
Variable zst : bytes -> option (bytes * bytes).    (* zlib.decompressobj().decompress(d): (output, unused_data) when eof was reached *)
Variable cs_enc : bytes -> bytes.                  (* str.encode(body charset) on ASCII text (Body.set of a str) *)

Definition codec_encode (c : coding) (d : bytes) : bytes :=
  match c with Gzip => gz d | Deflate => zc d end.

(* the repaired deflate decoder: one zlib stream after the other until the input is used up *)
Fixpoint zloop (fuel : nat) (d acc : bytes) : option bytes :=
  match d with
  | [] => Some acc
  | _ :: _ =>
      match fuel with
      | O => None
      | S f => match zst d with
               | Some (out, rest) => zloop f rest (acc ++ out)
               | None => None
               end
      end
  end.

Definition deflate_raw (v : variant) (d : bytes) : option bytes :=
  match v with
  | AsFound => zd1 d
  | Repaired => zloop (length d) d []
  end.

Definition codec_raw (v : variant) (c : coding) (d : bytes) : option bytes :=
  match c with Gzip => gunz d | Deflate => deflate_raw v d end.

(* GZip.decode(data) / Deflate.decode(data): charset None *)
Definition codec_decode (v : variant) (c : coding) (d : bytes) : cres :=
  match codec_raw v c d with
  | None => CDecodeError
  | Some raw => if default_decodable raw then COk raw else CUnicodeError
  end.

(* Body.set(text): empty content stays empty, otherwise the text is encoded in the body's charset *)
Definition body_set_text (t : bytes) : bytes := if nonempty_b t then cs_enc t else [].

(* Body.compress() / Body.decompress() with content_codec = ce; vt = D12 variant, vd = D50 variant *)
Definition body_compress (ce : option coding) (content : bytes) : bytes :=
  match ce with Some c => codec_encode c content | None => content end.

Definition body_decompress (vt vd : variant) (ce : option coding) (content : bytes) : cres :=
  match ce with
  | None => COk content
  | Some c =>
      match vt with
      | AsFound => match codec_decode vd c content with
                   | COk t => COk (body_set_text t)
                   | e => e
                   end
      | Repaired => match codec_raw vd c content with      (* decoded and re-encoded as ISO8859-1: octets *)
                    | Some raw => COk raw
                    | None => CDecodeError
                    end
      end
  end.

(* Body.__iter__ without transfer coding: the content codec is applied to every non-empty piece *)
Definition body_iter (ce : option coding) (content : bytes) : list bytes :=
  match ce with
  | Some c => map (codec_encode c) (pieces BODY_MAX_CHUNK content)
  | None => pieces BODY_MAX_CHUNK content
  end.
(* what the chunk framing carries and the parser hands to Body.decompress after de-chunking *)
Definition wire_payload (ce : option coding) (content : bytes) : bytes := concat_bytes (body_iter ce content).
Definition wire_roundtrip (vt vd : variant) (c : coding) (content : bytes) : cres :=
  body_decompress vt vd (Some c) (wire_payload (Some c) content).
End Coding.

(* concrete charsets for Body.set(str) on ASCII text, used by the correspondence run and the D53 witness *)
Inductive bcs := CsAscii8 (* UTF-8, ISO-8859-x, ASCII, cp125x ...: ASCII text is its own encoding *)
               | CsUtf16 | CsUtf16LE | CsUtf16BE.
Definition cs_apply (c : bcs) (t : bytes) : bytes :=
  match c with
  | CsAscii8 => t
  | CsUtf16 => [xff; xfe] ++ flat_map (fun b => [b; x00]) t
  | CsUtf16LE => flat_map (fun b => [b; x00]) t
  | CsUtf16BE => flat_map (fun b => [x00; b]) t
  end.

(* ------------------------------------------------------------------ text codecs (json, text/plain) *)
Inductive charset := UTF8 | Latin1 | ASCII.
(* bytes.decode(charset) succeeds (strict) *)
Definition decodable (cs : charset) (d : bytes) : bool :=
  match cs with
  | UTF8 => utf8_valid d
  | Latin1 => true
  | ASCII => forallb (fun c => bN c <? 128) d
  end.

Section TextCodecs.
Context {text J : Type}.
Variable enc : charset -> text -> option bytes.     (* str.encode(cs); None = UnicodeEncodeError *)
Variable dec : charset -> bytes -> option text.     (* bytes.decode(cs); None = UnicodeDecodeError *)
Variable dumps : J -> text.                         (* json.dumps *)
Variable loads : text -> option J.                  (* json.loads; None = ValueError *)

Definition or_default (d : charset) (cs : option charset) : charset := match cs with Some c => c | None => d end.

(* PlainText.encode / decode: charset or 'UTF-8'; None = EncodeError / DecodeError *)
Definition plain_encode (cs : option charset) (t : text) : option bytes := enc (or_default UTF8 cs) t.
Definition plain_decode (cs : option charset) (d : bytes) : option text := dec (or_default UTF8 cs) d.

(* JSON.encode: dumps then encode(charset or 'UTF-8'); JSON.decode: decode(charset or 'ASCII') then loads *)
Definition json_encode (cs : option charset) (v : J) : option bytes := enc (or_default UTF8 cs) (dumps v).
Inductive jres := JOk (v : J) | JUnicodeError | JValueError.
Definition json_decode (cs : option charset) (d : bytes) : jres :=
  match dec (or_default ASCII cs) d with
  | None => JUnicodeError
  | Some t => match loads t with Some v => JOk v | None => JValueError end
  end.
End TextCodecs.

(* ------------------------------------------------------------------ Headers.compose *)

Fixpoint bytes_leb (a b : bytes) : bool :=
  match a, b with
  | [], _ => true
  | _ :: _, [] => false
  | x :: a', y :: b' => if bN x <? bN y then true else if bN y <? bN x then false else bytes_leb a' b'
  end.

(* sort key of a field: the priority of its element class, else its name *)
Definition sort_key (k : bytes) : bytes := match assoc k HEADER_PRIORITY with Some p => p | None => k end.

Fixpoint hinsert (x : bytes * bytes) (l : hdrs) : hdrs :=
  match l with
  | [] => [x]
  | y :: r => if bytes_leb (sort_key (fst x)) (sort_key (fst y)) then x :: l else y :: hinsert x r
  end.
(* sorted(): stable *)
Definition hsort (h : hdrs) : hdrs := fold_right hinsert [] h.

Definition COLON_SP : bytes := [COLON; SP].
Definition hline (kv : bytes * bytes) : bytes := fst kv ++ COLON_SP ++ snd kv.
Definition hline_crlf (kv : bytes * bytes) : bytes := hline kv ++ CRLF.

(* the header block as Headers.parse takes it (lines joined by CRLF) and as bytes(headers) emits it *)
Definition hblock_of (l : hdrs) : bytes := join_with CRLF (map hline l).
Definition hcompose_sorted (l : hdrs) : bytes := concat_bytes (map hline_crlf l) ++ CRLF.
Definition is_listel (k : bytes) : bool := existsb (bytes_eqb k) HEADER_LISTEL.
(* bytes(headers); None: a field that is composed one line per element (Set-Cookie, WWW-/Proxy-Authenticate) - not modelled here *)
Definition hcompose (h : hdrs) : option bytes :=
  if existsb (fun kv => is_listel (fst kv)) h then None else Some (hcompose_sorted (hsort h)).

(* ------------------------------------------------------------------ multipart *)

Definition delim (bd : bytes) : bytes := DASH2 ++ bd.

(* one part as Multipart.encode writes it; hb = bytes(part.headers), content = bytes(part) *)
Definition mp_part (bd : bytes) (p : bytes * bytes) : bytes := delim bd ++ CRLF ++ fst p ++ snd p ++ CRLF.
Definition mp_close (bd : bytes) : bytes := delim bd ++ DASH2 ++ CRLF.
Definition mp_encode (bd : bytes) (ps : list (bytes * bytes)) : bytes :=
  concat_bytes (map (mp_part bd) ps) ++ mp_close bd.

Inductive mperr := MpDecodeError | MpInvalidHeader | MpIndexError.
Inductive mpres (A : Type) := MpOk (a : A) | MpErr (e : mperr).
Arguments MpOk {A} a.
Arguments MpErr {A} e.

Fixpoint unsnoc {A} (l : list A) : option (list A * A) :=
  match l with
  | [] => None
  | [x] => Some ([], x)
  | x :: r => match unsnoc r with Some (i, z) => Some (x :: i, z) | None => None end
  end.

Definition drop_last2 (l : bytes) : bytes := firstn (length l - 2) l.

(* one element of data.split(delimiter)[1:-1];  dct = default_content_type of the codec class *)
Definition mp_part_decode (v : variant) (dct : bytes) (part : bytes) : mpres (hdrs * bytes) :=
  if negb (prefixb CRLF part) then MpErr MpDecodeError          (* Invalid boundary end *)
  else
    let part := skipn 2 part in
    let sp := match v with
              | Repaired => if prefixb CRLF part then Some ([], skipn 2 part) else cut CRLF2 part
              | AsFound => cut CRLF2 part
              end in
    match sp with
    | None => MpErr MpDecodeError                                (* no CRLF header separator *)
    | Some (hb, content) =>
        if negb (suffixb CRLF content) then MpErr MpDecodeError  (* does not end with CRLF *)
        else
          let hp := match v with
                    | Repaired => if nonempty_b hb then hparse [] hb else Some []
                    | AsFound => hparse [] hb
                    end in
          match hp with
          | None => MpErr MpInvalidHeader
          | Some h => MpOk (if hmem K_CT h then h else hset K_CT dct h, drop_last2 content)
          end
    end.

Fixpoint mp_parts (v : variant) (dct : bytes) (l : list bytes) : mpres (list (hdrs * bytes)) :=
  match l with
  | [] => MpOk []
  | p :: r => match mp_part_decode v dct p with
              | MpErr e => MpErr e
              | MpOk x => match mp_parts v dct r with MpOk xs => MpOk (x :: xs) | MpErr e => MpErr e end
              end
  end.

Definition mp_decode (v : variant) (dct bd data : bytes) : mpres (list (hdrs * bytes)) :=
  match split_all (delim bd) data with
  | [] => MpErr MpIndexError
  | first :: rest =>
      if nonempty_b first then MpErr MpDecodeError               (* Data before boundary *)
      else match unsnoc rest with
           | None => MpErr MpIndexError                          (* no delimiter at all: pop from empty list *)
           | Some (mid, last) =>
               if bytes_eqb last DASH2 || bytes_eqb last (DASH2 ++ CRLF) then mp_parts v dct mid
               else MpErr MpDecodeError                          (* Invalid multipart end *)
           end
  end.

(* ContentType.VALID_BOUNDARY = ^[ -~]{0,200}[!-~]$ ; Python's $ also matches before one trailing newline *)
Definition boundary_strict (bd : bytes) : bool :=
  match unsnoc bd with
  | None => false
  | Some (i, z) => forallb (inmask BOUNDARY_INNER) i && inmask BOUNDARY_LAST z && Nat.leb (length bd) BOUNDARY_MAXLEN
  end.
Definition boundary_valid (bd : bytes) : bool :=
  boundary_strict bd || match unsnoc bd with Some (i, z) => beq z LF && boundary_strict i | None => false end.

(* ------------------------------------------------------------------ message/http *)

Inductive htres (SL : Type) := HtOk (m : SL) (h : hdrs) (body : bytes) | HtValueError | HtInvalidLine | HtInvalidHeader.
Arguments HtOk {SL} m h body.
Arguments HtValueError {SL}.
Arguments HtInvalidLine {SL}.
Arguments HtInvalidHeader {SL}.

(* HTTP.encode: bytes(message) + bytes(message.headers) + bytes(message.body) *)
Definition http_encode (sl hb body : bytes) : bytes := sl ++ hb ++ body.

Section Http.
Context {SL : Type}.
Variable slp : bytes -> option SL.    (* Request().parse(line), on ValueError Response().parse(line); None = the second one raised too *)

Definition http_decode (v : variant) (data : bytes) : htres SL :=
  match cut CRLF data with
  | None => HtValueError                                         (* line, data = data.split(CRLF, 1) *)
  | Some (line, rest) =>
      match slp line with
      | None => HtInvalidLine
      | Some m =>
          let plain := match cut CRLF2 rest with
                       | None => HtValueError
                       | Some (hb, body) => match hparse [] hb with Some h => HtOk m h body | None => HtInvalidHeader end
                       end in
          match v with
          | AsFound => plain
          | Repaired => if prefixb CRLF rest then HtOk m [] (skipn 2 rest) else plain
          end
      end
  end.
End Http.

(* Model of httoop/date.py: Date.__compose, Date.parse (= email.utils.parsedate_tz on the ISO-8859-1
   decoded text followed by the conversion of the broken-down UTC time), the integer comparisons, and
   reference writers for the two obsolete textual forms (RFC 850, asctime) that the parser must accept.
   Definitions only; proofs are in Proofs/Date.v.  Tables come from Gen/DateT.v (T1).

   Text is the octet list of the ISO-8859-1 decoded string (code point = octet), so the [str] methods the
   parser applies (split, lower, isdigit, int) are modelled on octets with the classes from T1. *)
From Httoop Require Export Lib.Bytes Lib.Variant Model.DateCal Gen.DateT.
Local Open Scope Z_scope.

Definition COMMA : byte := x2c.
Definition PLUS : byte := x2b.
Definition MINUS : byte := x2d.
Definition COLON : byte := x3a.
Definition DOT : byte := x2e.
Definition USCORE : byte := x5f.
Definition SP : byte := x20.

(* ------------------------------------------------------------------ printing of integers *)
Definition zdigit (n : Z) : byte := Nb (Z.to_N (48 + n)).

Fixpoint dec_digits (fuel : nat) (n : Z) (acc : bytes) : bytes :=
  match fuel with
  | O => acc
  | S f => let acc' := zdigit (n mod 10) :: acc in
           if n <? 10 then acc' else dec_digits f (n / 10) acc'
  end.

(* "%d" of a non-negative integer *)
Definition dec (n : Z) : bytes := dec_digits (S (Z.to_nat (Z.log2_up (n + 1)))) n [].

Definition zlen (l : bytes) : Z := Z.of_nat (List.length l).

Definition lpad (c : byte) (w : Z) (l : bytes) : bytes := repeat c (Z.to_nat (w - zlen l)) ++ l.

(* "%0<w>d": the sign counts towards the width *)
Definition fmt0 (w n : Z) : bytes :=
  if n <? 0 then MINUS :: lpad x30 (w - 1) (dec (- n)) else lpad x30 w (dec n).

(* "%<w>d" for non-negative n (space padded) *)
Definition fmtsp (w n : Z) : bytes := lpad SP w (dec n).

(* ------------------------------------------------------------------ Date.__compose *)
Definition nthb (l : list bytes) (i : Z) : bytes := if i <? 0 then [] else nth (Z.to_nat i) l [].
Definition imf_sep (i : nat) : bytes := nth i IMF_SEPS [].
Definition imf_width (i : nat) : Z := nth i IMF_WIDTHS 0.

Definition compose_tm (g : tm) : bytes :=
  nthb WDAY_ABBR (tm_wday g) ++ imf_sep 0 ++
  fmt0 (imf_width 0) (tm_mday g) ++ imf_sep 1 ++
  nthb MONTH_ABBR (tm_mon g - 1) ++ imf_sep 2 ++
  fmt0 (imf_width 1) (tm_year g) ++ imf_sep 3 ++
  fmt0 (imf_width 2) (tm_hour g) ++ imf_sep 4 ++
  fmt0 (imf_width 3) (tm_min g) ++ imf_sep 5 ++
  fmt0 (imf_width 4) (tm_sec g) ++ imf_sep 6.

(* bytes(Date(t)) for an integer t *)
Definition compose (t : Z) : bytes := compose_tm (gmtime t).

(* ------------------------------------------------------------------ reference writers of the obsolete forms
   (C-locale strftime "%A, %d-%b-%y %H:%M:%S GMT" and time.asctime): what a peer may send for the same instant *)
Definition clock (g : tm) : bytes :=
  fmt0 2 (tm_hour g) ++ [COLON] ++ fmt0 2 (tm_min g) ++ [COLON] ++ fmt0 2 (tm_sec g).

Definition GMT : bytes := [x47; x4d; x54].

Definition write850_tm (g : tm) : bytes :=
  nthb DAY_FULL (tm_wday g) ++ [COMMA; SP] ++
  fmt0 2 (tm_mday g) ++ [MINUS] ++ nthb C_MONTH_ABBR (tm_mon g - 1) ++ [MINUS] ++ fmt0 2 (tm_year g mod 100) ++ [SP] ++
  clock g ++ [SP] ++ GMT.
Definition write850 (t : Z) : bytes := write850_tm (gmtime t).

Definition write_asctime_tm (g : tm) : bytes :=
  nthb C_DAY_ABBR (tm_wday g) ++ [SP] ++ nthb C_MONTH_ABBR (tm_mon g - 1) ++ fmtsp 3 (tm_mday g) ++ [SP] ++
  clock g ++ [SP] ++ dec (tm_year g).
Definition write_asctime (t : Z) : bytes := write_asctime_tm (gmtime t).

(* ------------------------------------------------------------------ str helpers on ISO-8859-1 text *)
Definition is_ws (c : byte) : bool := inmask STR_SPACE c.
Definition is_digit (c : byte) : bool := inmask STR_DIGIT c.      (* str.isdigit *)
Definition is_dec (c : byte) : bool := inmask STR_DECIMAL c.      (* accepted by int() *)

Definition lower1 (c : byte) : byte := Nb (nth (N.to_nat (bN c)) STR_LOWER 0%N).
Definition lower (l : bytes) : bytes := map lower1 l.

(* str.split() without argument: maximal runs of non-whitespace *)
Fixpoint split_ws (l : bytes) : list bytes :=
  match l with
  | [] => []
  | c :: r =>
      if is_ws c then split_ws r
      else match r with
           | [] => [[c]]
           | c' :: _ =>
               if is_ws c' then [c] :: split_ws r
               else match split_ws r with
                    | h :: t => (c :: h) :: t
                    | [] => [[c]]
                    end
           end
  end.

(* str.split(sep) for a one-character separator: always at least one item *)
Fixpoint split1 (sep : byte) (l : bytes) : list bytes :=
  match l with
  | [] => [[]]
  | c :: r =>
      if beq c sep then [] :: split1 sep r
      else match split1 sep r with
           | h :: t => (c :: h) :: t
           | [] => [[c]]
           end
  end.

(* str.find(c): index of the first occurrence *)
Fixpoint find_c (c : byte) (l : bytes) : option nat :=
  match l with
  | [] => None
  | x :: r => if beq x c then Some O else option_map S (find_c c r)
  end.

(* str.rfind(c): index of the last occurrence *)
Fixpoint rfind_c (c : byte) (l : bytes) : option nat :=
  match l with
  | [] => None
  | x :: r => match rfind_c c r with
              | Some i => Some (S i)
              | None => if beq x c then Some O else None
              end
  end.

Definition last_is (c : byte) (l : bytes) : bool :=
  match l with [] => false | _ => beq (last l x00) c end.

(* s[:-1] if s ends with a comma *)
Definition drop_comma (l : bytes) : bytes := if last_is COMMA l then removelast l else l.

Definition mem (x : bytes) (l : list bytes) : bool := existsb (bytes_eqb x) l.

Fixpoint index_of (x : bytes) (l : list bytes) : option nat :=
  match l with
  | [] => None
  | y :: r => if bytes_eqb x y then Some O else option_map S (index_of x r)
  end.

Definition is_nil (l : bytes) : bool := match l with [] => true | _ => false end.

(* int(s) for a str without surrounding whitespace: optional sign, decimal digits, single underscores
   between digits *)
Fixpoint int_digits (acc : Z) (prev_digit : bool) (l : bytes) : option Z :=
  match l with
  | [] => if prev_digit then Some acc else None
  | c :: r =>
      if is_dec c then int_digits (acc * 10 + (Z.of_N (bN c) - 48)) true r
      else if beq c USCORE && prev_digit then
        match r with
        | c' :: _ => if is_dec c' then int_digits acc false r else None
        | [] => None
        end
      else None
  end.

Definition py_int (l : bytes) : option Z :=
  match l with
  | [] => None
  | c :: r =>
      if beq c PLUS then int_digits 0 false r
      else if beq c MINUS then option_map Z.opp (int_digits 0 false r)
      else int_digits 0 false l
  end.

(* ------------------------------------------------------------------ email._parseaddr._parsedate_tz *)

(* the optional day name: "if data[0].endswith(',') or data[0].lower() in _daynames: del data[0]
   else: i = data[0].rfind(','); if i >= 0: data[0] = data[0][i+1:]" *)
Definition strip_dayname (data : list bytes) : list bytes :=
  match data with
  | [] => []
  | d0 :: rest =>
      if last_is COMMA d0 || mem (lower d0) PD_DAYNAMES then rest
      else match rfind_c COMMA d0 with
           | Some i => skipn (S i) d0 :: rest
           | None => data
           end
  end.

(* "if len(data) == 3: stuff = data[0].split('-'); if len(stuff) == 3: data = stuff + data[1:]" *)
Definition rfc850_split (data : list bytes) : list bytes :=
  match data with
  | [a; b; c] =>
      match split1 MINUS a with
      | [s1; s2; s3] => [s1; s2; s3; b; c]
      | _ => data
      end
  | _ => data
  end.

(* "if len(data) == 4: s = data[3]; i = s.find('+'); if i == -1: i = s.find('-');
    if i > 0: data[3:] = [s[:i], s[i:]] else: data.append('')" *)
Definition tz_split (data : list bytes) : list bytes :=
  match data with
  | [a; b; c; s] =>
      match (match find_c PLUS s with Some i => Some i | None => find_c MINUS s end) with
      | Some (S i) => [a; b; c; firstn (S i) s; skipn (S i) s]
      | _ => [a; b; c; s; []]
      end
  | _ => data
  end.

(* "_monthnames.index(mm) + 1; if mm > 12: mm -= 12" *)
Definition month_index (mm : bytes) : option Z :=
  match index_of mm PD_MONTHNAMES with
  | Some i => let k := Z.of_nat i + 1 in Some (if 12 <? k then k - 12 else k)
  | None => None
  end.

(* the time field: hh:mm[:ss], or hh.mm[.ss] *)
Definition parse_clock (tm : bytes) : option (bytes * bytes * bytes) :=
  match split1 COLON tm with
  | [hh; mi] => Some (hh, mi, [x30])
  | [hh; mi; ss] => Some (hh, mi, ss)
  | [one] =>
      match find_c DOT one with
      | Some _ =>
          match split1 DOT one with
          | [hh; mi] => Some (hh, mi, [x30])
          | [hh; mi; ss] => Some (hh, mi, ss)
          | _ => None
          end
      | None => None
      end
  | _ => None
  end.

(* two-digit years, POSIX pivot *)
Definition fix_year (yy : Z) : Z := if yy <? 100 then (if 68 <? yy then yy + 1900 else yy + 2000) else yy.

Definition fields := (Z * Z * Z * Z * Z * Z)%type.   (* year month day hour minute second *)

Definition pd_fields (dd mm yy tm tz : bytes) : option fields :=
  if is_nil dd || is_nil mm || is_nil yy then None else
  let mm := lower mm in
  match (match month_index mm with
         | Some k => Some (dd, k)
         | None => match month_index (lower dd) with Some k => Some (mm, k) | None => None end
         end) with
  | None => None
  | Some (dd, mon) =>
      let dd := drop_comma dd in
      let '(yy, tm) := match find_c COLON yy with Some (S _) => (tm, yy) | _ => (yy, tm) end in
      let yy := drop_comma yy in
      if is_nil yy then None else
      let yy := match yy with c :: _ => if is_digit c then yy else tz | [] => yy end in
      let tm := drop_comma tm in
      match parse_clock tm with
      | None => None
      | Some (hh, mi, ss) =>
          match py_int yy, py_int dd, py_int hh, py_int mi, py_int ss with
          | Some y, Some d, Some h, Some m, Some s => Some (fix_year y, mon, d, h, m, s)
          | _, _, _, _, _ => None
          end
      end
  end.

(* parsedate_tz(text)[:6]; None = the function returned None *)
Definition parsedate (text : bytes) : option fields :=
  match tz_split (rfc850_split (strip_dayname (split_ws text))) with
  | dd :: mm :: yy :: tm :: tz :: _ => pd_fields dd mm yy tm tz
  | _ => None
  end.

(* ------------------------------------------------------------------ broken-down UTC time -> timestamp *)
Inductive pres := POk (t : Z) | PInvalid | PValueError | POverflow.

Definition INT_MAX : Z := 2147483647.
Definition INT_MIN : Z := -2147483648.
Definition fits_int (z : Z) : bool := (INT_MIN <=? z) && (z <=? INT_MAX).

(* Repaired: calendar.timegm -- datetime.date(year, month, 1) takes a C int in 1..9999, the rest is
   unbounded integer arithmetic.
   AsFound: time.mktime(t) - time.timezone -- every field is a C int; the fields are read as LOCAL time, so
   the result is the UTC reading minus whatever daylight-saving shift [dst] the zone applies there. *)
Definition to_timestamp (v : variant) (dst : Z -> Z) (f : fields) : pres :=
  let '(y, m, d, hh, mi, ss) := f in
  match v with
  | Repaired =>
      if negb (fits_int y) then POverflow
      else if (1 <=? y) && (y <=? 9999) then POk (timegm y m d hh mi ss)
      else PValueError
  | AsFound =>
      if fits_int y && fits_int d && fits_int hh && fits_int mi && fits_int ss && (INT_MIN + 1900 <=? y)
      then let T := timegm y m d hh mi ss in POk (T - dst T)
      else POverflow
  end.

(* int(Date.parse(text)) *)
Definition parse_v (v : variant) (dst : Z -> Z) (text : bytes) : pres :=
  match parsedate text with
  | None => PInvalid
  | Some f => to_timestamp v dst f
  end.

Definition no_dst (_ : Z) : Z := 0.

(* the repaired conversion does not look at the zone *)
Definition parse (text : bytes) : pres := parse_v Repaired no_dst text.

(* ------------------------------------------------------------------ comparisons (Date.__eq__/__lt__/__gt__,
   Semantic.__ne__/__le__/__ge__): the other operand is a Date, a text, or None *)
Inductive dval := DInt (t : Z) | DText (b : bytes) | DNone.

(* Date.__other: None and unparsable text count as the epoch; other exceptions escape *)
Definition other_int (v : variant) (dst : Z -> Z) (o : dval) : pres :=
  match o with
  | DNone => POk 0
  | DInt t => POk t
  | DText b => match parse_v v dst b with PInvalid => POk 0 | r => r end
  end.

Record cmps := mkCmps { c_lt : bool; c_gt : bool; c_eq : bool; c_ne : bool; c_le : bool; c_ge : bool }.

Definition cmp_ints (a b : Z) : cmps :=
  let lt := a <? b in let gt := b <? a in let eq := a =? b in
  mkCmps lt gt eq (negb eq) (eq || lt) (eq || gt).

(* the left operand is a Date built from an integer or from text (InvalidDate escapes from the constructor) *)
Definition left_int (v : variant) (dst : Z -> Z) (a : dval) : pres :=
  match a with
  | DInt t => POk t
  | DText b => parse_v v dst b
  | DNone => PInvalid
  end.

Definition date_cmp (v : variant) (dst : Z -> Z) (a o : dval) : option cmps :=
  match left_int v dst a, other_int v dst o with
  | POk x, POk y => Some (cmp_ints x y)
  | _, _ => None
  end.

(* Concrete model of the base64 codec httoop uses (httoop.util.encode_base64 = base64.encodebytes,
   decode_base64 = base64.decodebytes = binascii.a2b_base64 in its default, non-strict mode), on octet
   lists.  Definitions only; proofs are in Proofs/Base64.v.  Alphabet, decoding table, pad, line
   terminator and the line size come from Gen/Base64T.v (T1). *)
From Httoop Require Export Lib.Bytes Gen.Base64T.
Local Open Scope N_scope.

Definition B64PAD : byte := Nb B64_PAD.
Definition B64NL : byte := Nb B64_NL.

(* sextet -> character, character -> sextet (64 = not a digit) *)
Definition enc_char (s : N) : byte := Nb (nth (N.to_nat s) B64_ALPHABET 0).
Definition dec_char (c : byte) : N := nth (N.to_nat (bN c)) B64_DEC 64.

(* ---------- encoder: binascii.b2a_base64 without the trailing newline ---------- *)
(* 3 octets -> 4 sextets *)
Definition sx0 (a : N) : N := a / 4.
Definition sx1 (a b : N) : N := (a mod 4) * 16 + b / 16.
Definition sx2 (b c : N) : N := (b mod 16) * 4 + c / 64.
Definition sx3 (c : N) : N := c mod 64.

Fixpoint b64enc (l : bytes) : bytes :=
  match l with
  | a :: b :: c :: r =>
      enc_char (sx0 (bN a)) :: enc_char (sx1 (bN a) (bN b)) :: enc_char (sx2 (bN b) (bN c)) :: enc_char (sx3 (bN c)) :: b64enc r
  | [a; b] => [enc_char (sx0 (bN a)); enc_char (sx1 (bN a) (bN b)); enc_char (sx2 (bN b) 0); B64PAD]
  | [a] => [enc_char (sx0 (bN a)); enc_char (sx1 (bN a) 0); B64PAD; B64PAD]
  | [] => []
  end.

(* binascii.b2a_base64(chunk): one line *)
Definition b2a_line (l : bytes) : bytes := b64enc l ++ [B64NL].

(* base64.encodebytes: b"".join(b2a_base64(s[i:i+MAXBINSIZE]) for i in range(0, len(s), MAXBINSIZE)).
   Fuel = length of the input (every turn consumes at least one octet when the line size is positive). *)
Fixpoint encodebytes_f (fuel : nat) (n : nat) (l : bytes) : bytes :=
  match fuel with
  | O => []
  | S f =>
      match l with
      | [] => []
      | _ => b2a_line (firstn n l) ++ encodebytes_f f n (skipn n l)
      end
  end.
Definition encodebytes_n (n : nat) (l : bytes) : bytes := encodebytes_f (length l) n l.
Definition encodebytes (l : bytes) : bytes := encodebytes_n (N.to_nat B64_MAXBIN) l.

(* ---------- decoder: the loop of binascii_a2b_base64_impl (CPython 3.12), strict_mode = 0 ----------
   state: quad_pos, leftchar, pads.  None = binascii.Error ("Incorrect padding" / "... 1 more than a multiple of 4"). *)
Definition ocons (c : byte) (o : option bytes) : option bytes :=
  match o with Some l => Some (c :: l) | None => None end.

Fixpoint a2b_loop (l : bytes) (qp left pads : N) : option bytes :=
  match l with
  | [] => if qp =? 0 then Some [] else None
  | c :: r =>
      if beq c B64PAD then
        if 2 <=? qp then
          if 4 <=? qp + (pads + 1) then Some []            (* goto done: the rest is not looked at *)
          else a2b_loop r qp left (pads + 1)
        else a2b_loop r qp left pads
      else
        let v := dec_char c in
        if 64 <=? v then a2b_loop r qp left pads            (* not a base64 digit: skipped *)
        else if qp =? 0 then a2b_loop r 1 v 0
        else if qp =? 1 then ocons (Nb (left * 4 + v / 16)) (a2b_loop r 2 (v mod 16) 0)
        else if qp =? 2 then ocons (Nb (left * 16 + v / 4)) (a2b_loop r 3 (v mod 4) 0)
        else ocons (Nb (left * 64 + v)) (a2b_loop r 0 0 0)
  end.

Definition a2b_base64 (l : bytes) : option bytes := a2b_loop l 0 0 0.
Definition decodebytes := a2b_base64.

(* ---------- strict decoder (specification; RFC 4648 section 4 with canonical padding bits) ----------
   accepts exactly the unbroken canonical encodings: only alphabet characters, length a multiple of four,
   padding only in the last quad, unused low bits of the last digit zero. *)
Definition digit (c : byte) : option N :=
  let v := dec_char c in if 64 <=? v then None else Some v.

Definition dec_full (c0 c1 c2 c3 : byte) : option bytes :=
  match digit c0, digit c1, digit c2, digit c3 with
  | Some v0, Some v1, Some v2, Some v3 =>
      Some [Nb (v0 * 4 + v1 / 16); Nb ((v1 mod 16) * 16 + v2 / 4); Nb ((v2 mod 4) * 64 + v3)]
  | _, _, _, _ => None
  end.

(* the last quad may carry one or two pad characters *)
Definition dec_last (c0 c1 c2 c3 : byte) : option bytes :=
  if beq c3 B64PAD then
    match digit c0, digit c1 with
    | Some v0, Some v1 =>
        if beq c2 B64PAD then
          if v1 mod 16 =? 0 then Some [Nb (v0 * 4 + v1 / 16)] else None
        else match digit c2 with
             | Some v2 => if v2 mod 4 =? 0 then Some [Nb (v0 * 4 + v1 / 16); Nb ((v1 mod 16) * 16 + v2 / 4)] else None
             | None => None
             end
    | _, _ => None
    end
  else dec_full c0 c1 c2 c3.

Definition oappl (a b : option bytes) : option bytes :=
  match a, b with Some x, Some y => Some (x ++ y) | _, _ => None end.

Fixpoint b64dec_strict (l : bytes) : option bytes :=
  match l with
  | [] => Some []
  | c0 :: c1 :: c2 :: c3 :: r =>
      match r with
      | [] => dec_last c0 c1 c2 c3
      | _ => oappl (dec_full c0 c1 c2 c3) (b64dec_strict r)
      end
  | _ => None
  end.

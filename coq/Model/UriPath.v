(* Model of the path algebra of httoop/uri/uri.py -- URI.abspath (lines 118-145) and the path clause of
   URI.normalize (114-116) -- next to the LITERAL algorithms of RFC 3986: section 5.2.4
   (remove_dot_segments, on octet strings, fuelled) and section 5.2.2/5.2.3 (reference resolution over
   the five components of Appendix B).  Definitions only; proofs are in Proofs/UriPath.v.
   Self-contained: depends on Lib/Bytes.v only (it is reused by the request-target property).
   Python text is modelled by its UTF-8 octets: "/" and "." are ASCII and never occur inside a
   multi-octet sequence, so str.split(u'/'), the regex /{2,} and the comparisons with u'.' / u'..'
   act on the octets exactly as they act on the code points. *)
From Httoop Require Export Lib.Bytes.

Definition SL : byte := x2f.    (* / *)
Definition DT : byte := x2e.   (* . *)

Definition nonnil (l : bytes) : bool := match l with [] => false | _ :: _ => true end.
Definition is_dot (s : bytes) : bool := match s with [c] => beq c DT | _ => false end.
Definition is_dotdot (s : bytes) : bool := match s with [c; d] => beq c DT && beq d DT | _ => false end.
Definition starts_slash (p : bytes) : bool := match p with c :: _ => beq c SL | [] => false end.
Definition ends_slash (p : bytes) : bool := starts_slash (rev p).

(* str.split(u'/'): always at least one item *)
Fixpoint psplit (l : bytes) : list bytes :=
  match l with
  | [] => [[]]
  | c :: r =>
      if beq c SL then [] :: psplit r
      else match psplit r with
           | h :: t => (c :: h) :: t
           | [] => [[c]]
           end
  end.

(* u'/'.join(items) *)
Fixpoint pjoin (l : list bytes) : bytes :=
  match l with
  | [] => []
  | x :: r => match r with [] => x | _ :: _ => x ++ SL :: pjoin r end
  end.

(* re.sub(u'\\/{2,}', u'/', path): every maximal run of two or more slashes becomes one slash *)
Fixpoint collapse (p : bytes) : bytes :=
  match p with
  | [] => []
  | c :: r =>
      if beq c SL then
        match r with
        | d :: _ => if beq d SL then collapse r else c :: collapse r
        | [] => [c]
        end
      else c :: collapse r
  end.

(* one turn of the loop of abspath; the state is (unsplit kept REVERSED, directory).
     if part == u'..' and (not unsplit or unsplit.pop() is not None):   -- pop() of a str is never None:
         directory = True                                               -- the branch is taken for every '..'
     elif part != u'.':  unsplit.append(part); directory = False
     else:               directory = True
   Popping can remove the leading empty item that stands for the root ("/.." -> "/", "/../a" -> "a"). *)
Definition pstep (st : list bytes * bool) (part : bytes) : list bytes * bool :=
  if is_dotdot part then (tl (fst st), true)
  else if negb (is_dot part) then (part :: fst st, false)
  else (fst st, true).

(* if directory: unsplit.append(u'') ;  self.path = u'/'.join(unsplit) or u'/' *)
Definition pfinal (st : list bytes * bool) : list bytes := if snd st then [] :: fst st else fst st.
Definition pfinish (st : list bytes * bool) : bytes :=
  match pjoin (rev (pfinal st)) with
  | [] => [SL]
  | r => r
  end.

Definition abspath_core (q : bytes) : bytes := pfinish (fold_left pstep (psplit q) ([], false)).

Definition abspath (p : bytes) : bytes :=
  match collapse p with
  | [] => p                       (* if not path: return  -- self.path stays as it is (it is empty) *)
  | (_ :: _) as q => abspath_core q
  end.

(* normalize():  self.abspath()
                 if not self.path.startswith(u'/') and self.host and self.scheme and self.path: self.path = u'/%s' % path *)
Definition normalize_path (has_host has_scheme : bool) (p : bytes) : bytes :=
  let q := abspath p in
  if negb (starts_slash q) && has_host && has_scheme && nonnil q then SL :: q else q.

(* ---------- what the property asks of a normalised path ---------- *)
Definition no_dot_seg (p : bytes) : bool := forallb (fun s => negb (is_dot s || is_dotdot s)) (psplit p).
Fixpoint no_dslash (p : bytes) : bool :=
  match p with
  | [] => true
  | c :: r => negb (beq c SL && starts_slash r) && no_dslash r
  end.

(* ---------- RFC 3986 section 5.2.4, literally, on octet strings ---------- *)
Fixpoint starts (pre l : bytes) : bool :=
  match pre, l with
  | [], _ => true
  | a :: pre', b :: l' => beq b a && starts pre' l'
  | _ :: _, [] => false
  end.

Fixpoint until_slash (l : bytes) : bytes :=
  match l with
  | [] => []
  | c :: r => if beq c SL then [] else c :: until_slash r
  end.

(* 2E: "the first path segment in the input buffer ..., including the initial "/" character (if any) and any
   subsequent characters up to, but not including, the next "/" character or the end of the input buffer" *)
Definition first_segment (inp : bytes) : bytes :=
  match inp with
  | c :: r => if beq c SL then c :: until_slash r else until_slash inp
  | [] => []
  end.

Fixpoint after_slash (l : bytes) : bytes :=
  match l with
  | [] => []
  | c :: r => if beq c SL then r else after_slash r
  end.
(* 2C: "removing the last segment and its preceding "/" (if any) from the output buffer" *)
Definition remove_last_segment (out : bytes) : bytes := rev (after_slash (rev out)).

Definition P_DD_S : bytes := [DT; DT; SL].        (* "../"  *)
Definition P_D_S : bytes := [DT; SL].              (* "./"   *)
Definition P_S_D_S : bytes := [SL; DT; SL].        (* "/./"  *)
Definition P_S_D : bytes := [SL; DT].              (* "/."   *)
Definition P_S_DD_S : bytes := [SL; DT; DT; SL].  (* "/../" *)
Definition P_S_DD : bytes := [SL; DT; DT].        (* "/.."  *)

(* the while loop of step 2; [None] = fuel exhausted (excluded by rds_total) *)
Fixpoint rds (fuel : nat) (inp out : bytes) : option bytes :=
  match fuel with
  | O => None
  | S f =>
      match inp with
      | [] => Some out
      | _ :: _ =>
          if starts P_DD_S inp then rds f (skipn 3 inp) out                                   (* A *)
          else if starts P_D_S inp then rds f (skipn 2 inp) out                               (* A *)
          else if starts P_S_D_S inp then rds f (SL :: skipn 3 inp) out                       (* B *)
          else if bytes_eqb inp P_S_D then rds f [SL] out                                     (* B *)
          else if starts P_S_DD_S inp then rds f (SL :: skipn 4 inp) (remove_last_segment out)  (* C *)
          else if bytes_eqb inp P_S_DD then rds f [SL] (remove_last_segment out)              (* C *)
          else if bytes_eqb inp [DT] || bytes_eqb inp [DT; DT] then rds f [] out           (* D *)
          else let s := first_segment inp in rds f (skipn (length s) inp) (out ++ s)          (* E *)
      end
  end.

Definition rfc_rds (p : bytes) : option bytes := rds (S (length p)) p [].
(* total version (the fuel never runs out: Proofs/UriPath.rfc_rds_total) *)
Definition remove_dot_segments (p : bytes) : bytes := match rfc_rds p with Some x => x | None => [] end.

(* ---------- RFC 3986 section 5.2.2 / 5.2.3 over the five components; the authority is opaque ---------- *)
Record ref5 (A : Type) := Ref5 {
  r_scheme : option bytes;
  r_auth : option A;
  r_path : bytes;
  r_query : option bytes;
  r_frag : option bytes }.
Arguments Ref5 {A}.
Arguments r_scheme {A}.
Arguments r_auth {A}.
Arguments r_path {A}.
Arguments r_query {A}.
Arguments r_frag {A}.

Fixpoint from_slash (l : bytes) : bytes :=
  match l with
  | [] => []
  | c :: r => if beq c SL then l else from_slash r
  end.
(* "all but the last segment of the base URI's path (i.e., excluding any characters after the right-most "/" ...,
   or excluding the entire base URI path if it does not contain any "/" characters)" *)
Definition upto_last_slash (p : bytes) : bytes := rev (from_slash (rev p)).

(* 5.2.3 *)
Definition merge (base_has_authority : bool) (bpath rpath : bytes) : bytes :=
  if base_has_authority && negb (nonnil bpath) then SL :: rpath
  else upto_last_slash bpath ++ rpath.

Definition is_some {T} (o : option T) : bool := match o with Some _ => true | None => false end.

(* 5.2.2 (strict parser) *)
Definition rfc_resolve {A} (B R : ref5 A) : ref5 A :=
  match r_scheme R with
  | Some s => Ref5 (Some s) (r_auth R) (remove_dot_segments (r_path R)) (r_query R) (r_frag R)
  | None =>
      match r_auth R with
      | Some a => Ref5 (r_scheme B) (Some a) (remove_dot_segments (r_path R)) (r_query R) (r_frag R)
      | None =>
          match r_path R with
          | [] =>
              Ref5 (r_scheme B) (r_auth B) (r_path B)
                   (match r_query R with Some q => Some q | None => r_query B end) (r_frag R)
          | _ :: _ =>
              Ref5 (r_scheme B) (r_auth B)
                   (if starts_slash (r_path R) then remove_dot_segments (r_path R)
                    else remove_dot_segments (merge (is_some (r_auth B)) (r_path B) (r_path R)))
                   (r_query R) (r_frag R)
          end
      end
  end.

(* T2 for C08: case type and checker evaluated by vm_compute on generated case files.
   The two callees outside the model (str.title() on non-ASCII text, email.header.decode_header on anything
   but a single word in httoop's own framing) are instantiated by the finite tables the harness recorded from
   the implementation for this case; a lookup miss yields an impossible value, hence a disagreement. *)
From Httoop Require Import Lib.Bytes Lib.Split Lib.Utf8 Lib.Variant Gen.HeadersT Gen.HeadersApiT Model.Headers Model.HeadersApi.
Local Open Scope N_scope.

Definition MISS : bytes := [xff].
Definition tab_title (tab : list (bytes * bytes)) (u : bytes) : bytes :=
  match assoc u tab with Some t => t | None => MISS end.
Definition tab_dechdr (tab : list (bytes * option bytes)) (v : bytes) : option bytes :=
  match assoc v tab with Some r => r | None => Some MISS end.

Definition obytes_eqb := opt_eqb bytes_eqb.
Definition res_eqb (a b : res) : bool :=
  match a, b with
  | RUnit, RUnit | RInvalid, RInvalid | RKeyError, RKeyError | RUnicode, RUnicode => true
  | RBool x, RBool y => Bool.eqb x y
  | ROpt x, ROpt y => obytes_eqb x y
  | RBytes x, RBytes y => bytes_eqb x y
  | _, _ => false
  end.
Definition hdrs_eqb : hdrs -> hdrs -> bool :=
  list_eqb (fun p q => bytes_eqb (fst p) (fst q) && bytes_eqb (snd p) (snd q)).

Inductive case :=
(* a sequence of operations on a fresh Headers(): the results the implementation gave and list(dict.items()) at the end *)
| COps (tu : list (bytes * bytes)) (td : list (bytes * option bytes)) (ops : list op) (out : list res) (final : hdrs)
(* Element.split of a list-element field class: 0 HeaderElement, 1 SetCookie, 2 AuthElement *)
| CSplit (kind : N) (v : bytes) (out : list bytes)
(* HeaderElement.decode_rfc2047(raw) *)
| CDecode (td : list (bytes * option bytes)) (raw : bytes) (out : option bytes)
(* HeaderElement.encode_rfc2047(text) *)
| CEncode (t : text) (out : option bytes)
(* Headers.formatkey(key) *)
| CKey (tu : list (bytes * bytes)) (k : key) (out : option bytes)
(* text.encode('utf-8') *)
| CUtf8Enc (t : text) (out : option bytes)
(* Headers().parse(block): outcome and state left behind *)
| CParse (d : bytes) (ok : bool) (final : hdrs).

Definition check (c : case) : bool :=
  match c with
  | COps tu td ops out final =>
      let '(h, rs) := run FORMATKEY_VARIANT EW_GUARD_VARIANT (tab_title tu) (tab_dechdr td) [] ops in
      list_eqb res_eqb rs out && hdrs_eqb h final
  | CSplit kind v out => list_eqb bytes_eqb (lsplit kind v) out
  | CDecode td raw out => obytes_eqb (decode_rfc2047 EW_GUARD_VARIANT (tab_dechdr td) raw) out
  | CEncode t out => obytes_eqb (encode_rfc2047 t) out
  | CKey tu k out => obytes_eqb (formatkey FORMATKEY_VARIANT (tab_title tu) k) out
  | CUtf8Enc t out => obytes_eqb (utf8_enc t) out
  | CParse d ok final =>
      let '(h, b) := hparse_st [] None (split_all CRLF d) in
      Bool.eqb b ok && hdrs_eqb h final &&
      (* Model/Headers.v's hparse (used by the parser model) is the same function without the partial state *)
      match hparse [] d with Some h' => ok && hdrs_eqb h' final | None => negb ok end
  end.

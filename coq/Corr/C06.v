(* T2/T3 for C06: case type and checker evaluated by vm_compute on generated case files.
   The Section parameters of Model/ServerTarget.v are instantiated per case by the finite tables of
   (argument, result) pairs the harness recorded from the implementation's run.  A lookup miss yields
   an answer the recorded run cannot have produced (a host containing NUL, an escaping exception,
   port 4242), so that a model asking a callee something the code never asked shows as a disagreement;
   str.lower falls back to ASCII lower-casing (only non-ASCII strings are recorded). *)
From Coq Require Import ZArith.
From Httoop Require Import Lib.Bytes Lib.Variant Lib.Utf8 Gen.PercentT Gen.UriT Gen.UriNormT Gen.StartLineT Gen.ServerTargetT.
From Httoop Require Import Model.Percent Model.StartLine Model.UriSyntax Model.UriPath Model.UriNorm Model.ServerTarget.
Local Open Scope N_scope.

Definition tbl := list (bytes * option bytes).
Definition MISS : bytes := [x00; x4d; x49; x53; x53].
Definition lookup (t : tbl) (k : bytes) : option bytes :=
  match find (fun kv => bytes_eqb (fst kv) k) t with
  | Some kv => snd kv
  | None => Some MISS
  end.
Definition lookup_elem (t : list (bytes * elres)) (k : bytes) : elres :=
  match find (fun kv => bytes_eqb (fst kv) k) t with
  | Some kv => snd kv
  | None => ElEscape
  end.
Definition lookup_udig (t : list (bytes * option (option Z))) (k : bytes) : option (option Z) :=
  match find (fun kv => bytes_eqb (fst kv) k) t with
  | Some kv => snd kv
  | None => Some (Some 4242%Z)
  end.

Record tables := {
  t_ip4 : tbl; t_ip6 : tbl; t_idd : tbl; t_ide : tbl;
  t_lower : list (bytes * bytes);
  t_elem : list (bytes * elres);
  t_udig : list (bytes * option (option Z)) }.

(* what the real ServerStateMachine did with one request head *)
Inductive obs :=
| ODeliver (cport : option N) (scheme user pass host : bytes) (port : option N) (path query frag : bytes)
           (m : bytes) (vmaj vmin : N)
| ORedirect (location : bytes)
| OStatus (code : N)
| OEscape.

Inductive case :=
| CHead (dscheme dhost : bytes) (dport : option N) (T : tables) (line : bytes) (hostv : option bytes) (o : obs)
| CHost (T : tables) (value : bytes) (o : option (bytes * option Z))     (* Host(value): (host, port) or InvalidHeader *)
| CAll (cs : list case).

Definition optN_eqb := opt_eqb N.eqb.

Definition uri_eqb (u : nuri) (cport : option N) (s us pw h : bytes) (p : option N) (pa q f : bytes) : bool :=
  optN_eqb (u_dport u) cport && bytes_eqb (UriNorm.u_scheme u) s && bytes_eqb (UriNorm.u_user u) us
  && bytes_eqb (UriNorm.u_pass u) pw && bytes_eqb (UriNorm.u_host u) h && optN_eqb (UriNorm.u_port u) p
  && bytes_eqb (UriNorm.u_path u) pa && bytes_eqb (UriNorm.u_query u) q && bytes_eqb (UriNorm.u_frag u) f.

Definition final_eqb (r : final) (o : obs) : bool :=
  match r, o with
  | FDeliver u m v, ODeliver cport s us pw h p pa q f m' a b =>
      uri_eqb u cport s us pw h p pa q f && bytes_eqb m m' && (fst v =? a) && (snd v =? b)
  | FRedirect _ loc, ORedirect loc' => bytes_eqb loc loc'
  | F400, OStatus c => c =? CODE_BAD_REQUEST_ST
  | F505, OStatus c => c =? CODE_VERSION_NOT_SUPPORTED
  | FEscape, OEscape => true
  | _, _ => false
  end.

Definition model_head (ds dh : bytes) (dp : option N) (T : tables) (line : bytes) (hostv : option bytes) : final :=
  request_head utf8_valid (lookup (t_ip4 T)) (lookup (t_ip6 T)) (lookup (t_idd T)) (lookup (t_ide T))
    (tlower (t_lower T)) (lookup_elem (t_elem T)) (lookup_udig (t_udig T))
    IMPL_INTLIMIT IMPL_VARIANT URI_USER_VARIANT URI_UNICODE_VARIANT NORM_VARIANT LOCATION_VARIANT ds dh dp line hostv.

Definition hostobs_eqb (a b : option (bytes * option Z)) : bool :=
  opt_eqb (fun x y => bytes_eqb (fst x) (fst y) && opt_eqb Z.eqb (snd x) (snd y)) a b.

Fixpoint check (c : case) : bool :=
  match c with
  | CHead ds dh dp T line hostv o => final_eqb (model_head ds dh dp T line hostv) o
  | CHost T value o =>
      hostobs_eqb (host_sanitize (lookup (t_ip4 T)) (lookup (t_ip6 T)) (tlower (t_lower T)) (lookup_udig (t_udig T)) value) o
  | CAll cs => forallb check cs
  end.

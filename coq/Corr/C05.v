(* T2/T3 for the composer model: callee tables recorded from the implementation, operation sequences
   (prepare / compose / chunked setter) replayed on the model, every intermediate observation compared. *)
From Httoop Require Import Model.Composer.
Local Open Scope N_scope.

Definition pair_eqb (p q : bytes * bytes) : bool := bytes_eqb (fst p) (fst q) && bytes_eqb (snd p) (snd q).
Definition hdrs_eqb : hdrs -> hdrs -> bool := list_eqb pair_eqb.

Record tables := {
  t_comp : list ((N * bytes) * bytes);
  t_lsplit : list ((bytes * bytes) * list bytes);
  t_ce : list (bytes * option N) }.

Fixpoint lookup {K V} (eq : K -> K -> bool) (k : K) (l : list (K * V)) (d : V) : V :=
  match l with
  | [] => d
  | (k', v) :: r => if eq k k' then v else lookup eq k r d
  end.

Definition MISS : bytes := X "004d49535300".
(* a lookup miss yields a value the implementation never produces: the case then disagrees *)
Definition callees_of (t : tables) : ccallees := {|
  cc_comp := fun id d => lookup (fun a b => (fst a =? fst b) && bytes_eqb (snd a) (snd b)) (id, d) (t_comp t) MISS;
  cc_lsplit := fun k v => lookup pair_eqb (k, v) (t_lsplit t) [MISS];
  cc_ce := fun v => lookup bytes_eqb v (t_ce t) None |}.

Inductive op := OpPrepare (now : bytes) | OpCompose | OpChunked (c : bool).
(* type of body.fd and fd.tell() after the operation *)
Inductive srcobs := KBytesIO (pos : N) | KList | KGen | KFile (pos : N).
Inductive opobs :=
| ObsState (h : hdrs) (k : srcobs) (chunked : bool)     (* after prepare / the chunked setter *)
| ObsRaised
| ObsComposed (out : bytes) (k : srcobs).

Definition src_matches (s : source) (k : srcobs) : bool :=
  match s, k with
  | SBytesIO _ p, KBytesIO p' => p =? p'
  | SFile _ p, KFile p' => p =? p'
  | SList _, KList => true
  | SGen _ _, KGen => true
  | _, _ => false
  end.

Definition state_matches (h : hdrs) (b : body) (o : opobs) : bool :=
  match o with
  | ObsState h' k c => hdrs_eqb h h' && src_matches (b_src b) k && Bool.eqb (b_chunked b) c
  | _ => false
  end.

Section Run.
Variable C : ccallees.

Fixpoint run_q (q : request) (ops : list op) (obs : list opobs) : bool :=
  match ops, obs with
  | [], [] => true
  | o :: ops', x :: obs' =>
      match o with
      | OpPrepare now =>
          match q_prepare now q with
          | Some q' => state_matches (q_hdrs q') (q_body q') x && run_q q' ops' obs'
          | None => match x, obs' with ObsRaised, [] => true | _, _ => false end
          end
      | OpChunked c =>
          match set_chunked c (q_hdrs q) (q_body q) with
          | Some (h, b) => state_matches h b x && run_q (q_with q h b) ops' obs'
          | None => match x, obs' with ObsRaised, [] => true | _, _ => false end
          end
      | OpCompose =>
          let (out, q') := q_compose C CODING_VARIANT q in
          match x with
          | ObsComposed out' k => bytes_eqb out out' && src_matches (b_src (q_body q')) k && run_q q' ops' obs'
          | _ => false
          end
      end
  | _, _ => false
  end.

Fixpoint run_r (r : response) (ops : list op) (obs : list opobs) : bool :=
  match ops, obs with
  | [], [] => true
  | o :: ops', x :: obs' =>
      match o with
      | OpPrepare now =>
          match r_prepare C D59_VARIANT D29_VARIANT now r with
          | Some r' => state_matches (r_hdrs r') (r_body r') x && run_r r' ops' obs'
          | None => match x, obs' with ObsRaised, [] => true | _, _ => false end
          end
      | OpChunked c =>
          match set_chunked c (r_hdrs r) (r_body r) with
          | Some (h, b) => state_matches h b x && run_r (r_with r h b) ops' obs'
          | None => match x, obs' with ObsRaised, [] => true | _, _ => false end
          end
      | OpCompose =>
          let (out, r') := r_compose C CODING_VARIANT r in
          match x with
          | ObsComposed out' k => bytes_eqb out out' && src_matches (b_src (r_body r')) k && run_r r' ops' obs'
          | _ => false
          end
      end
  | _, _ => false
  end.
End Run.

Inductive case :=
| CReq (t : tables) (q : request) (ops : list op) (obs : list opobs)
| CResp (t : tables) (r : response) (ops : list op) (obs : list opobs)
| CDec (n : N) (out : bytes)                     (* str(n).encode() *)
| CHex (n : N) (out : bytes)                     (* b'%x' % n *)
| CHcompose (t : tables) (h : hdrs) (out : bytes)  (* bytes(Headers) ; h in dict order *)
| CBody (t : tables) (b : body) (len : N) (out : bytes) (k : srcobs).  (* len(body), b''.join(body), fd afterwards *)

Definition check (c : case) : bool :=
  match c with
  | CReq t q ops obs => run_q (callees_of t) q ops obs
  | CResp t r ops obs => run_r (callees_of t) r ops obs
  | CDec n out => bytes_eqb (dec_print n) out
  | CHex n out => bytes_eqb (hex_print n) out
  | CHcompose t h out => bytes_eqb (hcompose (callees_of t) h) out
  | CBody t b len out k =>
      let (n, b1) := body_len b in
      let (o, b2) := body_iter (callees_of t) CODING_VARIANT b1 in
      (n =? len) && bytes_eqb o out && src_matches (b_src b2) k
  end.

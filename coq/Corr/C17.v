(* T2 for C17: case type and checker evaluated by vm_compute on generated case files.
   The hash functions are instantiated by the finite table of (hash id, pre-image, digest) triples the
   implementation evaluated on the same input (T3): a lookup miss yields a marker that cannot equal a digest. *)
From Httoop Require Import Lib.Bytes Lib.Variant Gen.AuthT Model.AuthCommon Model.Base64 Model.Basic Model.Digest.
Local Open Scope N_scope.

Definition res_eqb {T} (eq : T -> T -> bool) (a b : res T) : bool :=
  match a, b with
  | Ok x, Ok y => eq x y
  | Err e, Err e' => aerr_eqb e e'
  | _, _ => false
  end.
Definition pair_eqb (p q : bytes * bytes) : bool := bytes_eqb (fst p) (fst q) && bytes_eqb (snd p) (snd q).
Definition alist_eqb : alist -> alist -> bool := list_eqb pair_eqb.
Definition pres_eqb (a b : pres) : bool :=
  match a, b with
  | POk s ps, POk s' ps' => bytes_eqb s s' && alist_eqb ps ps'
  | PErr e, PErr e' => aerr_eqb e e'
  | _, _ => false
  end.

Definition htable := list (N * bytes * bytes).
Definition Htab (t : htable) (h : N) (x : bytes) : bytes :=
  match find (fun e => (fst (fst e) =? h) && bytes_eqb (snd (fst e)) x) t with
  | Some e => snd e
  | None => L "<hash not evaluated by the implementation>"
  end.

Inductive case :=
| CA1 (d : authinfo) (t : htable) (out : res bytes)             (* DigestAuthRequestScheme.A1 *)
| CA2 (d : authinfo) (t : htable) (out : res bytes)             (* DigestAuthRequestScheme.A2 *)
| CCalc (d : authinfo) (t : htable) (out : res bytes)           (* calculate_request_digest *)
| CSchemeCompose (d : authinfo) (t : htable) (fresh : bytes) (out : res bytes)   (* DigestAuthRequestScheme.compose *)
| CCompose (value : bytes) (d : authinfo) (t : htable) (fresh : bytes) (out : res bytes)  (* bytes(Authorization(value, params)) *)
| CSchemeParse (info : bytes) (out : res alist)                  (* DigestAuthRequestScheme.parse *)
| CParse (value : bytes) (out : pres)                            (* Authorization.parse(value) *)
| CCheck (d : authinfo) (rp : alist) (t : htable) (out : res bool)   (* DigestAuthRequestScheme.check *)
| CFormat (k v out : bytes).                                     (* HeaderElement.formatparam(k, v) *)

Definition check (c : case) : bool :=
  match c with
  | CA1 d t out => res_eqb bytes_eqb (A1 (Htab t) d) out
  | CA2 d t out => res_eqb bytes_eqb (A2 (Htab t) DIGEST_A2_VARIANT d) out
  | CCalc d t out => res_eqb bytes_eqb (calc_digest (Htab t) DIGEST_A2_VARIANT d) out
  | CSchemeCompose d t fresh out => res_eqb bytes_eqb (digest_compose (Htab t) fresh DIGEST_A2_VARIANT d) out
  | CCompose value d t fresh out =>
      res_eqb bytes_eqb (auth_compose (digest_compose (Htab t) fresh DIGEST_A2_VARIANT) BASIC_WRAP_VARIANT value d) out
  | CSchemeParse info out => res_eqb alist_eqb (digest_parse info) out
  | CParse value out =>
      match auth_parse digest_parse BASIC_SPLIT_VARIANT value with
      | PUnmodelled => true
      | r => pres_eqb r out
      end
  | CCheck d rp t out => res_eqb Bool.eqb (digest_check (Htab t) DIGEST_A2_VARIANT d rp) out
  | CFormat k v out => bytes_eqb (formatparam k v) out
  end.

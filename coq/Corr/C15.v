(* T2 for C15: case type and checker evaluated by vm_compute on generated case files.
   Every case carries an input and what the implementation (run under TZ=UTC) produced for it; [check]
   recomputes the observation with the model variant that T1 found in the working tree. *)
From Httoop Require Import Lib.Bytes Lib.Variant Model.DateCal Gen.DateT Model.Date.
Local Open Scope Z_scope.

Definition pres_eqb (a b : pres) : bool :=
  match a, b with
  | POk x, POk y => x =? y
  | PInvalid, PInvalid => true
  | PValueError, PValueError => true
  | POverflow, POverflow => true
  | _, _ => false
  end.

Definition cmps_eqb (a b : cmps) : bool :=
  Bool.eqb (c_lt a) (c_lt b) && Bool.eqb (c_gt a) (c_gt b) && Bool.eqb (c_eq a) (c_eq b) &&
  Bool.eqb (c_ne a) (c_ne b) && Bool.eqb (c_le a) (c_le b) && Bool.eqb (c_ge a) (c_ge b).

Definition tm_eqb (a b : tm) : bool :=
  (tm_year a =? tm_year b) && (tm_mon a =? tm_mon b) && (tm_mday a =? tm_mday b) && (tm_hour a =? tm_hour b) &&
  (tm_min a =? tm_min b) && (tm_sec a =? tm_sec b) && (tm_wday a =? tm_wday b).

Inductive case :=
| CCompose (t : Z) (out : bytes)                 (* bytes(Date(t)) = out *)
| CGmtime (t : Z) (g : tm)                       (* Date(t).gmtime = time.gmtime(t) *)
| CTimegm (f : fields) (r : pres)                (* int(Date((y, m, d, hh, mi, ss, 0, 1, 0))) *)
| CParse (text : bytes) (r : pres)               (* int(Date.parse(text)); int(Date(text)) *)
| CRt (t : Z) (c w850 wasc : bytes) (p1 p2 p3 : pres)
    (* bytes(Date(t)) = c; the reference writers give w850 / wasc for t; Date.parse of the three texts *)
| CCmp (a o : dval) (r : option cmps).           (* Date(a) <,>,==,!=,<=,>= other ; None = an exception escaped *)

Definition check (c : case) : bool :=
  match c with
  | CCompose t out => bytes_eqb (compose t) out
  | CGmtime t g => tm_eqb (gmtime t) g
  | CTimegm f r => pres_eqb (to_timestamp DATE_VARIANT no_dst f) r
  | CParse text r => pres_eqb (parse_v DATE_VARIANT no_dst text) r
  | CRt t c w850 wasc p1 p2 p3 =>
      bytes_eqb (compose t) c && bytes_eqb (write850 t) w850 && bytes_eqb (write_asctime t) wasc &&
      pres_eqb (parse_v DATE_VARIANT no_dst c) p1 && pres_eqb (parse_v DATE_VARIANT no_dst w850) p2 &&
      pres_eqb (parse_v DATE_VARIANT no_dst wasc) p3
  | CCmp a o r => opt_eqb cmps_eqb (date_cmp DATE_VARIANT no_dst a o) r
  end.

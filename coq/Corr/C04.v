(* T2/T3 for C04: the composer model's octets for a generated API-level message are (a) the octets of the real
   composer and (b) what the parser model, fed those octets in one call with the callee tables recorded from the
   real opposite-side state machine, turns into exactly the delivery the implementation made. *)
From Coq Require Import ZArith.
From Httoop Require Import Model.Composer Model.Parser.
From Httoop Require Corr.C05 Corr.Parser.
Local Open Scope N_scope.

Inductive message := MReq (q : request) | MResp (r : response).

(* the octets of the LAST compose of the operation sequence, None if a prepare raised or nothing was composed *)
Fixpoint last_out_q (C : ccallees) (q : request) (ops : list Corr.C05.op) (last : option bytes) : option bytes :=
  match ops with
  | [] => last
  | Corr.C05.OpPrepare now :: r => match q_prepare now q with Some q' => last_out_q C q' r last | None => None end
  | Corr.C05.OpChunked c :: r => match Composer.set_chunked c (q_hdrs q) (q_body q) with Some (h, b) => last_out_q C (q_with q h b) r last | None => None end
  | Corr.C05.OpCompose :: r => let (o, q') := q_compose C CODING_VARIANT q in last_out_q C q' r (Some o)
  end.
Fixpoint last_out_r (C : ccallees) (x : response) (ops : list Corr.C05.op) (last : option bytes) : option bytes :=
  match ops with
  | [] => last
  | Corr.C05.OpPrepare now :: r => match r_prepare C D59_VARIANT D29_VARIANT now x with Some x' => last_out_r C x' r last | None => None end
  | Corr.C05.OpChunked c :: r => match Composer.set_chunked c (r_hdrs x) (r_body x) with Some (h, b) => last_out_r C (r_with x h b) r last | None => None end
  | Corr.C05.OpCompose :: r => let (o, x') := r_compose C CODING_VARIANT x in last_out_r C x' r (Some o)
  end.

Inductive case :=
| CRound (ct : Corr.C05.tables) (m : message) (ops : list Corr.C05.op) (octets : bytes)
         (pt : Corr.Parser.tables) (calls : list Corr.Parser.callobs) (final : option (bytes * bool)).

Definition check (c : case) : bool :=
  match c with
  | CRound ct m ops octets pt calls final =>
      let C := Corr.C05.callees_of ct in
      let out := match m with MReq q => last_out_q C q ops None | MResp r => last_out_r C r ops None end in
      match out with
      | None => false
      | Some o =>
          bytes_eqb o octets &&
          Corr.Parser.check (Corr.Parser.CParse (match m with MReq _ => Server | MResp _ => Client end) pt [o] calls final)
      end
  end.

(* T2 for C13: case type and checker evaluated by vm_compute on generated case files *)
From Httoop Require Import Lib.Bytes Lib.Utf8 Gen.PercentT Model.Percent.
Local Open Scope N_scope.

Definition pairs := list (bytes * bytes).
Definition pairs_eqb : pairs -> pairs -> bool :=
  list_eqb (fun p q => bytes_eqb (fst p) (fst q) && bytes_eqb (snd p) (snd q)).

(* decode outcome of a text-level call: pairs re-encoded in the charset | InvalidURI | UnicodeDecodeError *)
Inductive dres := DOk (ps : pairs) | DInvalid | DUnicode.

Inductive case :=
| CQuote (safe : N) (d out : bytes)            (* Percent.quote(d, safe) = out *)
| CUnquote (d out : bytes)                     (* Percent.unquote(d) = out *)
| CFormEnc (qs : bool) (ps : pairs) (out : bytes)   (* {Form,QueryString}.encode(pairs) ; pairs charset-encoded by the harness *)
| CFormDec (qs utf8 : bool) (d : bytes) (out : dres)  (* .decode(d, charset) *)
| CUtf8 (d : bytes) (ok : bool).               (* bytes.decode('utf-8') succeeds *)

Definition pairs_utf8 (ps : pairs) : bool := forallb (fun p => utf8_valid (fst p) && utf8_valid (snd p)) ps.

Definition check (c : case) : bool :=
  match c with
  | CQuote safe d out => bytes_eqb (quote IMPL_VARIANT safe d) out
  | CUnquote d out => bytes_eqb (unquote d) out
  | CFormEnc qs ps out => bytes_eqb (form_encode IMPL_VARIANT (if qs then QS_UNQUOTED else FORM_UNQUOTED) ps) out
  | CFormDec qs utf8 d out =>
      let r := if qs then qs_decode QS_INVALID d else Some (form_decode d) in
      match r, out with
      | None, DInvalid => true
      | Some ps, DOk ps' => (if utf8 then pairs_utf8 ps else true) && pairs_eqb ps ps'
      | Some ps, DUnicode => utf8 && negb (pairs_utf8 ps)
      | _, _ => false
      end
  | CUtf8 d ok => Bool.eqb (utf8_valid d) ok
  end.

(* T2 for C12: case type and checker evaluated by vm_compute on generated case files *)
From Httoop Require Import Lib.Bytes Lib.Variant Gen.UriNormT Model.UriPath Model.UriNorm.
Local Open Scope N_scope.

Definition ltab := list (bytes * bytes).
Definition ob_eqb : option bytes -> option bytes -> bool := opt_eqb bytes_eqb.
Definition ref5_eqb (a b : ref5 bytes) : bool :=
  ob_eqb (r_scheme a) (r_scheme b) && ob_eqb (r_auth a) (r_auth b) && bytes_eqb (r_path a) (r_path b) &&
  ob_eqb (r_query a) (r_query b) && ob_eqb (r_frag a) (r_frag b).

Inductive case :=
| CJoin (tbl : ltab) (base rel out : nuri)
    (* base.join(ref): rel = (PORT, slots) of URI(ref), out = (PORT, slots) of the result *)
| CResolve (B R T : ref5 bytes).
    (* literal RFC 5.2.2 in Coq (authority opaque) = T, from the RFC's own section 5.4 examples or the harness's transcription *)

Definition check (c : case) : bool :=
  match c with
  | CJoin tbl base rel out => uri_eqb (join (tlower tbl) NORM_VARIANT base rel) out
  | CResolve B R T => ref5_eqb (rfc_resolve B R) T
  end.

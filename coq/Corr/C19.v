(* T2 for C19: case type and checker evaluated by vm_compute on generated case files *)
From Coq Require Import ZArith.
From Httoop Require Import Model.ElemLex Model.Accept.
Local Open Scope N_scope.

(* float(text) on the implementation: ValueError | nan | +-inf | a finite value *)
Inductive fobs := OErr | ONan | OInf (neg : bool) | OFin.

(* Headers.elements(name): the elements in the order returned, each as (value, parameters in dict order, bytes(element)) *)
Inductive eobs :=
| EoOk (es : list (bytes * list (bytes * bytes) * bytes))
| EoInvalid        (* InvalidHeader *)
| EoTypeError.     (* TypeError escaping from sorted() *)

Inductive case :=
| CFloat (is_bytes : bool) (text : bytes) (o : fobs)
| CFloatCmp (b1 : bool) (t1 : bytes) (b2 : bool) (t2 : bytes) (c : comparison)   (* float(t1) ? float(t2), both finite *)
| CElems (must : bool) (name fv : bytes) (o : eobs).   (* must: the harness expects the model to cover this input *)

Definition pairs_eqb : list (bytes * bytes) -> list (bytes * bytes) -> bool :=
  list_eqb (fun p q => bytes_eqb (fst p) (fst q) && bytes_eqb (snd p) (snd q)).

Fixpoint list_eqb2 {A B} (eq : A -> B -> bool) (a : list A) (b : list B) : bool :=
  match a, b with
  | [], [] => true
  | x :: a', y :: b' => eq x y && list_eqb2 eq a' b'
  | _, _ => false
  end.

Definition star_of (name : bytes) : option bool :=
  match find (fun kv => bytes_eqb (fst kv) name) ACCEPT_FIELDS with
  | Some kv => Some (snd kv)
  | None => None
  end.

(* the variants the working tree implements (T1 probes in Gen/AcceptT.v) *)
Definition celements := @elements Z concrete_q Z.eqb Z.ltb EMPTY_Q_VARIANT ACCEPT_EXT_VARIANT.

Definition check (c : case) : bool :=
  match c with
  | CFloat b t o =>
      match float_parse b t, o with
      | FErr, OErr => true
      | FSpecial _ w, ONan => bytes_eqb w (X "6e616e")
      | FSpecial neg w, OInf neg' => negb (bytes_eqb w (X "6e616e")) && Bool.eqb neg neg'
      | FVal _ _ _ _, OFin => true
      | FVal neg m _ e, OInf neg' => Bool.eqb neg neg' && negb (m =? 0) && Z.ltb 290 e   (* overflow of a huge exponent *)
      | _, _ => false
      end
  | CFloatCmp b1 t1 b2 t2 c =>
      match concrete_q b1 t1, concrete_q b2 t2 with
      | QVal x, QVal y => match Z.compare x y, c with Lt, Lt | Eq, Eq | Gt, Gt => true | _, _ => false end
      | QBad, _ | _, QBad => false
      | _, _ => true
      end
  | CElems must name fv o =>
      match star_of name with
      | None => false
      | Some star =>
          match celements star fv, o with
          | FUnmodelled, _ => negb must
          | FOk es, EoOk l =>
              list_eqb2 (fun e x => bytes_eqb (e_value e) (fst (fst x)) && pairs_eqb (e_params e) (snd (fst x)) && bytes_eqb (e_text e) (snd x)) es l
          | FInvalid, EoInvalid => true
          | FTypeError, EoTypeError => true
          | _, _ => false
          end
      end
  end.

(* T2 for C09: case type and checker evaluated by vm_compute on generated case files.
   email.header.decode_header (reached only for elements containing "=?") is instantiated by the table the
   harness recorded for the case; charsets outside the regenerated alias table are never sent to Coq. *)
From Coq Require Import ZArith.
From Httoop Require Import Lib.Bytes Lib.Split Lib.Variant Gen.HeadersApiT Gen.PercentT Gen.ElementT
  Model.Headers Model.HeadersApi Model.Percent Model.Element.
Local Open Scope N_scope.

Definition MISS : bytes := [xff].
Definition tab_dechdr (tab : list (bytes * option bytes)) (v : bytes) : option bytes :=
  match assoc v tab with Some r => r | None => Some MISS end.
Definition no_other (cs data : bytes) : option bytes := None.

Definition obytes_eqb := opt_eqb bytes_eqb.
Definition pair_eqb (p q : bytes * bytes) : bool := bytes_eqb (fst p) (fst q) && bytes_eqb (snd p) (snd q).
Definition presult_eqb (a b : presult) : bool :=
  match a, b with
  | PElem v c ps, PElem v' c' ps' => bytes_eqb v v' && opt_eqb pair_eqb c c' && list_eqb pair_eqb ps ps'
  | PInvalid, PInvalid | PUnicode, PUnicode => true
  | _, _ => false
  end.
Definition cresult_eqb (a b : cresult) : bool :=
  match a, b with
  | COk x, COk y => bytes_eqb x y
  | CInvalid, CInvalid | CUnicode, CUnicode => true
  | _, _ => false
  end.
Definition oz_eqb (a b : option Z) : bool :=
  match a, b with Some x, Some y => Z.eqb x y | None, None => true | _, _ => false end.

Inductive case :=
(* cls.formatparam(k, v): cookie = class with the empty tspecials set *)
| CFormat (cookie : bool) (k : bytes) (v : pval) (out : option bytes)
(* cls.parse(s) *)
| CParse (td : list (bytes * option bytes)) (c : eclass) (s : bytes) (out : presult)
(* bytes(cls(value | cookie_name, cookie_value, params)) *)
| CCompose (c : eclass) (value : text) (cn cv : text) (ps : list (bytes * pval)) (out : cresult)
(* cls.split(v) and [cls.parse(e) for e in cls.split(v)] as Headers.elements does *)
| CSplitList (l : lclass) (v : bytes) (out : list bytes)
| CParseList (td : list (bytes * option bytes)) (l : lclass) (v : bytes) (out : list presult)
(* the continuation index test of _rfc2231_and_continuation_params *)
| CContNum (num : bytes) (out : option Z)
(* forced disagreement (an exception the model does not have) *)
| CBad.

Definition check (c : case) : bool :=
  match c with
  | CFormat cookie k v out =>
      obytes_eqb (formatparam (if cookie then COOKIE_TSPECIALS else TSPECIALS) IMPL_VARIANT k v) out
  | CParse td cl s out => presult_eqb (parse_cls EW_GUARD_VARIANT (tab_dechdr td) no_other cl s) out
  | CCompose cl value cn cv ps out => cresult_eqb (compose_cls IMPL_VARIANT cl value (cn, cv) ps) out
  | CSplitList l v out => list_eqb bytes_eqb (split_list l v) out
  | CParseList td l v out => list_eqb presult_eqb (parse_list EW_GUARD_VARIANT (tab_dechdr td) no_other l v) out
  | CContNum num out => oz_eqb (cont_num num) out
  | CBad => false
  end.

(* T2/T3 for the parser model: callee tables recorded from the implementation, per-call observations *)
From Coq Require Import ZArith.
From Httoop Require Import Model.Parser.
Local Open Scope N_scope.

Definition pair_eqb (p q : bytes * bytes) : bool := bytes_eqb (fst p) (fst q) && bytes_eqb (snd p) (snd q).
Definition hdrs_eqb : hdrs -> hdrs -> bool := list_eqb pair_eqb.

Record tables := {
  t_start : list (bytes * slres);
  t_hdrs : list ((bool * hdrs) * hres);
  t_decode : list ((bytes * bytes) * dcres);
  t_2047 : list (bytes * r2047);
  t_trailer : list (bytes * trres);
  t_connect : list (bytes * bool) }.

Fixpoint lookup {K V} (eq : K -> K -> bool) (k : K) (l : list (K * V)) (d : V) : V :=
  match l with
  | [] => d
  | (k', v) :: r => if eq k k' then v else lookup eq k r d
  end.

Definition callees_of (t : tables) : callees := {|
  c_start := fun line => lookup bytes_eqb line (t_start t) SlMiss;
  c_hdrs := fun p h => lookup (fun a b => Bool.eqb (fst a) (fst b) && hdrs_eqb (snd a) (snd b)) (p, h) (t_hdrs t) HMiss;
  c_decode := fun ce b => lookup pair_eqb (ce, b) (t_decode t) DcMiss;
  c_2047 := fun v => lookup bytes_eqb v (t_2047 t) RMiss;
  c_trailer := fun v => lookup bytes_eqb v (t_trailer t) TrMiss;
  c_connect := fun line => lookup bytes_eqb line (t_connect t) false |}.

Inductive callobs := CoMsgs (ms : list msg) | CoErr (e : err).

Definition msg_eqb (a b : msg) : bool :=
  bytes_eqb (m_line a) (m_line b) && hdrs_eqb (m_hdrs a) (m_hdrs b) && bytes_eqb (m_body a) (m_body b).

Definition err_eqb (a b : err) : bool :=
  match a, b with
  | EHttp x, EHttp y => x =? y
  | EEscape, EEscape => true
  | EPeek411, EHttp 411 => true
  | _, _ => false
  end.

(* feed the fragments; compare every call's outcome; stop at the first error *)
Fixpoint run_cmp (C : callees) (k : kind) (s : pstate) (frags : list bytes) (calls : list callobs)
  : option pstate (* Some final state if every call matched and no error occurred; None + flag below *) * bool :=
  match frags, calls with
  | [], [] => (Some s, true)
  | f :: fr, c :: cr =>
      match parse real C k s f with
      | (s', ms, None) =>
          match c with
          | CoMsgs ms' => if list_eqb msg_eqb ms ms' then run_cmp C k s' fr cr else (None, false)
          | CoErr _ => (None, false)
          end
      | (_, _, Some e) =>
          match c with
          | CoErr e' => (None, err_eqb e e' && match cr with [] => true | _ => false end)
          | CoMsgs _ => (None, false)
          end
      end
  | _, _ => (None, false)
  end.

Inductive case :=
| CParse (k : kind) (t : tables) (frags : list bytes) (calls : list callobs) (final : option (bytes * bool))
| CInt16 (d : bytes) (r : option Z)          (* util.integer(bytes, 16) *)
| CInt10 (d : bytes) (r : option Z)          (* util.integer(latin-1 text) *)
| CHparse (d : bytes) (r : option hdrs)      (* Headers().parse(d) ; items in dict order *)
| CQuiet (k : kind) (t : tables) (frags : list bytes) (q : bool).  (* implementation never selected LF mode nor raised the 411 peek *)

Definition optz_eqb (a b : option Z) : bool :=
  match a, b with Some x, Some y => Z.eqb x y | None, None => true | _, _ => false end.

Definition check (c : case) : bool :=
  match c with
  | CParse k t frags calls final =>
      match run_cmp (callees_of t) k init frags calls, final with
      | (Some s, true), Some (b, started) =>
          bytes_eqb (buf s) b && Bool.eqb (match cur s with Some _ => true | None => false end) started
      | (None, true), None => true
      | _, _ => false
      end
  | CInt16 d r => optz_eqb (py_int16_bytes d) r
  | CInt10 d r => optz_eqb (py_int10_text INT_MAX_STR_DIGITS d) r
  | CQuiet k t frags q => Bool.eqb (quiet_run (callees_of t) k init frags) q
  | CHparse d r =>
      match hparse [] d, r with
      | Some h, Some h' => hdrs_eqb h h'
      | None, None => true
      | _, _ => false
      end
  end.

(* the model's own per-call transcript, for debugging a disagreement *)
Fixpoint transcript (C : callees) (k : kind) (s : pstate) (frags : list bytes) : list (list msg * option err) :=
  match frags with
  | [] => []
  | f :: fr => match parse real C k s f with
               | (s', ms, None) => (ms, None) :: transcript C k s' fr
               | (_, ms, Some e) => [(ms, Some e)]
               end
  end.

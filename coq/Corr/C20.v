(* T2 for C20: case type and checker evaluated by vm_compute on generated case files *)
From Httoop Require Import Model.ElemLex Model.Range.
Local Open Scope N_scope.

Definition rspecs_eqb : list rspec -> list rspec -> bool := list_eqb rspec_eqb.
Definition obytes_eqb : option bytes -> option bytes -> bool := opt_eqb bytes_eqb.

Inductive case :=
| CInt (b : bytes) (o : option (bool * N))                 (* int(b): (negative?, magnitude) | ValueError *)
| CParse (v : bytes) (o : option (bytes * list rspec))     (* Headers.element('Range'): (value, ranges) | InvalidHeader *)
| CSlice (d : bytes) (rs : list rspec) (o : list bytes)    (* Range.get_range_content on a BytesIO *)
| CPrep (c : pre) (range : option bytes) (d ctype bd : bytes) (before : N)
        (status : N) (crange : option bytes) (ctype' : option bytes) (clen : option bytes) (body : bytes).
        (* ComposedResponse.prepare(): status, Content-Range, Content-Type, Content-Length, bytes(body) afterwards *)

Definition check (c : case) : bool :=
  match c with
  | CInt b o =>
      match pyint b, o with
      | Some (s, n), Some (s', n') => Bool.eqb s s' && (n =? n')
      | None, None => true
      | _, _ => false
      end
  | CParse v o =>
      match range_parse v, o with
      | Some (u, rs), Some (u', rs') => bytes_eqb u u' && rspecs_eqb rs rs'
      | None, None => true
      | _, _ => false
      end
  | CSlice d rs o => list_eqb bytes_eqb (map (slice d) rs) o
  | CPrep c range d ctype bd before status crange ctype' clen body =>
      let o := prepare_ranges c range d ctype bd in
      (status_of o before =? status) &&
      match o with
      | Unchanged =>
          obytes_eqb crange None &&
          (p_chunked c || (obytes_eqb clen (Some (dec (len d))) && bytes_eqb body d)) &&
          (isnil d || obytes_eqb ctype' (Some ctype))
      | Unsatisfiable cr =>
          obytes_eqb crange (Some cr) && obytes_eqb clen (Some (dec (len d))) && bytes_eqb body d && obytes_eqb ctype' (Some ctype)
      | Partial cr ct n b =>
          obytes_eqb crange cr && obytes_eqb ctype' (Some (match ct with Some t => t | None => ctype end)) &&
          obytes_eqb clen (Some (dec n)) && bytes_eqb body b
      end
  end.

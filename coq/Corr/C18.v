(* T2 for C18: case type and checker evaluated by vm_compute on generated case files *)
From Httoop Require Import Lib.Bytes Lib.Variant Gen.StartLineT Model.StartLine.
Local Open Scope N_scope.

Definition ver_same (a b : version) : bool := (fst a =? fst b) && (snd a =? snd b).

Definition presult_eqb (a b : presult) : bool :=
  match a, b with
  | PInvalid, PInvalid | PEscape, PEscape => true
  | POk x, POk y => ver_same x y
  | _, _ => false
  end.

Definition cres_eqb (a b : cres) : bool :=
  match a, b with
  | CB x, CB y => Bool.eqb x y
  | CInvalid, CInvalid | CEscape, CEscape => true
  | _, _ => false
  end.

Definition rq_eqb (a b : rq_result) : bool :=
  match a, b with
  | RqInvalidLine, RqInvalidLine | RqEscape, RqEscape | RqInvalidURI, RqInvalidURI => true
  | RqTarget m t v, RqTarget m' t' v' => bytes_eqb m m' && bytes_eqb t t' && ver_same v v'
  | _, _ => false
  end.

Definition rs_eqb (a b : rs_result) : bool :=
  match a, b with
  | RsInvalidLine, RsInvalidLine | RsEscape, RsEscape => true
  | RsOk v c r, RsOk v' c' r' => ver_same v v' && (c =? c') && bytes_eqb r r'
  | _, _ => false
  end.

Definition sres_eqb (a b : sres) : bool :=
  match a, b with
  | SHttp c, SHttp c' => c =? c'
  | SEscape, SEscape => true
  | SOk m v r, SOk m' v' r' => bytes_eqb m m' && ver_same v v' && ver_same r r'
  | _, _ => false
  end.

Definition kres_eqb (a b : cres_line) : bool :=
  match a, b with
  | KHttp c, KHttp c' => c =? c'
  | KEscape, KEscape => true
  | KOk v c r, KOk v' c' r' => ver_same v v' && (c =? c') && bytes_eqb r r'
  | _, _ => false
  end.

Definition status_eqb (a b : option (N * bytes)) : bool :=
  opt_eqb (fun x y => (fst x =? fst y) && bytes_eqb (snd x) (snd y)) a b.

(* "for every octet c:  accept (pre ++ c :: post)  iff  bit c of the observed mask" *)
Definition mask_agrees (accept : bytes -> bool) (pre post : bytes) (mask : N) : bool :=
  forallb (fun c => Bool.eqb (accept (pre ++ c :: post)) (N.testbit mask (bN c))) all_bytes.

Definition is_pok (r : presult) : bool := match r with POk _ => true | _ => false end.
Definition is_some {A} (o : option A) : bool := match o with Some _ => true | None => false end.

Inductive case :=
| CSplit (k : N) (line : bytes) (out : list bytes)          (* line.strip().split(None, k) *)
| CMethod (m : bytes) (ok : bool)                           (* Method().parse(m) accepted? (then bytes(method) = m, checked by the harness) *)
| CMethodMask (pre post : bytes) (mask : N)                 (* Method().parse(pre + c + post) accepted, for all 256 c *)
| CProto (s : bytes) (r : presult)                          (* Protocol().parse(s) *)
| CProtoMask (pre post : bytes) (mask : N)
| CProtoCompose (v : version) (out : bytes)                 (* bytes(Protocol(v)) *)
| CStatus (s : bytes) (r : option (N * bytes))              (* Status().parse(s) *)
| CStatusMask (pre post : bytes) (mask : N)
| CStatusCompose (code : N) (reason out : bytes)
| CReq (line : bytes) (r : rq_result)                       (* Request().parse(line), URI.parse argument recorded *)
| CReqCompose (m u : bytes) (v : version) (out : bytes)     (* bytes(Request(m, uri, protocol=v)); u = bytes(uri) or "/" *)
| CResp (line : bytes) (r : rs_result)                      (* Response().parse(line) *)
| CRespCompose (v : version) (code : N) (reason out : bytes)
| CCmp (p : version) (o : operand) (eq ne lt le gt ge : cres)   (* Protocol(p) OP operand *)
| CServer (line : bytes) (r : sres)                         (* ServerStateMachine on  line CRLF Host: x CRLF CRLF *)
| CClient (line : bytes) (r : cres_line)                    (* ClientStateMachine on  line CRLF Content-Length: 0 CRLF CRLF *)
| CForceFail.                                               (* the harness saw an exception class the model has no name for *)

Definition IV := IMPL_INTLIMIT.

Definition check (c : case) : bool :=
  match c with
  | CSplit k line out => list_eqb bytes_eqb (split_ws (N.to_nat k) (strip line)) out
  | CMethod m ok => Bool.eqb (is_some (method_parse m)) ok
  | CMethodMask pre post mask => mask_agrees (fun s => is_some (method_parse s)) pre post mask
  | CProto s r => presult_eqb (proto_parse IV s) r
  | CProtoMask pre post mask => mask_agrees (fun s => is_pok (proto_parse IV s)) pre post mask
  | CProtoCompose v out => bytes_eqb (proto_compose v) out
  | CStatus s r => status_eqb (status_parse s) r
  | CStatusMask pre post mask => mask_agrees (fun s => is_some (status_parse s)) pre post mask
  | CStatusCompose code reason out => bytes_eqb (status_compose code reason) out
  | CReq line r => rq_eqb (req_parse IV line) r
  | CReqCompose m u v out => bytes_eqb (req_compose m u v) out
  | CResp line r => rs_eqb (resp_parse IV line) r
  | CRespCompose v code reason out => bytes_eqb (resp_compose v code reason) out
  | CCmp p o e n l le g ge =>
      cres_eqb (proto_eq IV p o) e && cres_eqb (proto_ne IV p o) n && cres_eqb (proto_lt IV p o) l
      && cres_eqb (proto_le IV p o) le && cres_eqb (proto_gt IV p o) g && cres_eqb (proto_ge IV p o) ge
  | CServer line r => sres_eqb (server_startline IV line) r
  | CClient line r => kres_eqb (client_startline IV line) r
  | CForceFail => false
  end.

(* T2 for C14: case type and checker evaluated by vm_compute on generated case files.
   CPython callees (gzip, zlib, start-line parsers) are instantiated by the finite tables the harness
   recorded for the questions the implementation asked (T3); a question outside the table yields a
   poison value, which makes the comparison fail. *)
From Httoop Require Import Lib.Bytes Lib.Split Lib.Variant Lib.Utf8 Gen.CodecsT Model.Headers Model.Codecs.
Local Open Scope N_scope.

Definition POISON : bytes := X "00ff4d4953532d43616c6c6565ff00".

Fixpoint tlookup {A} (t : list (bytes * A)) (d : bytes) : option A :=
  match t with
  | [] => None
  | (k, v) :: r => if bytes_eqb k d then Some v else tlookup r d
  end.

(* tables:  input |-> None (error) | Some (output, unused) *)
Definition ztable := list (bytes * option (bytes * bytes)).
Definition t_fun (t : list (bytes * bytes)) (d : bytes) : bytes :=
  match tlookup t d with Some r => r | None => POISON end.
Definition t_opt (t : ztable) (d : bytes) : option bytes :=
  match tlookup t d with Some (Some (o, _)) => Some o | Some None => None | None => Some POISON end.
Definition t_st (t : ztable) (d : bytes) : option (bytes * bytes) :=
  match tlookup t d with Some r => r | None => Some (POISON, []) end.

Definition hdrs_eqb : hdrs -> hdrs -> bool :=
  list_eqb (fun p q => bytes_eqb (fst p) (fst q) && bytes_eqb (snd p) (snd q)).
Definition parts_eqb : list (hdrs * bytes) -> list (hdrs * bytes) -> bool :=
  list_eqb (fun p q => hdrs_eqb (fst p) (fst q) && bytes_eqb (snd p) (snd q)).
Definition mperr_eqb (a b : mperr) : bool :=
  match a, b with
  | MpDecodeError, MpDecodeError | MpInvalidHeader, MpInvalidHeader | MpIndexError, MpIndexError => true
  | _, _ => false
  end.
Definition mpres_eqb (a b : mpres (list (hdrs * bytes))) : bool :=
  match a, b with
  | MpOk x, MpOk y => parts_eqb x y
  | MpErr x, MpErr y => mperr_eqb x y
  | _, _ => false
  end.

Definition sl := (bool * bytes)%type.    (* is a request, start line as the parsed message composes it *)
Definition htres_eqb (a b : htres sl) : bool :=
  match a, b with
  | HtOk m h body, HtOk m' h' body' =>
      Bool.eqb (fst m) (fst m') && bytes_eqb (snd m) (snd m') && hdrs_eqb h h' && bytes_eqb body body'
  | HtValueError, HtValueError | HtInvalidLine, HtInvalidLine | HtInvalidHeader, HtInvalidHeader => true
  | _, _ => false
  end.

Definition nat_list_eqb : list nat -> list nat -> bool := list_eqb Nat.eqb.

Inductive case :=
| CPieces (d : bytes) (lens : list nat)                 (* [len(p) for p in Body(d)] *)
| CIter (c : coding) (d : bytes) (raws : list bytes)    (* bytes(Body(d) with content coding c), decoded stream by stream *)
| CCodecDec (c : coding) (d : bytes) (tg tz1 tzs : ztable) (obs : cres)       (* GZip.decode(d) / Deflate.decode(d) *)
| CBodyDec (c : coding) (cs : bcs) (d : bytes) (tg tz1 tzs : ztable) (obs : cres)   (* Body(d) with coding c, charset cs: decompress(), bytes() *)
| CWire (c : coding) (cs : bcs) (d : bytes) (tc : list (bytes * bytes)) (payload : bytes) (tg tz1 tzs : ztable) (obs : cres)
        (* composed by Composed{Request,Response}, parsed by the state machine: delivered body; 400 with DecodeError / UnicodeDecodeError text *)
| CDecodable (cs : charset) (d : bytes) (ok : bool)     (* PlainText.decode / JSON.decode: the charset step *)
| CHCompose (h : hdrs) (obs : option bytes)             (* bytes(Headers) *)
| CMpEnc (bd : bytes) (ps : list (bytes * bytes)) (obs : bytes)
| CMpDec (digest : bool) (bd d : bytes) (obs : mpres (list (hdrs * bytes)))
| CBoundary (bd : bytes) (ok : bool)                    (* ContentType.VALID_BOUNDARY.match *)
| CHttpEnc (s hb body obs : bytes)
| CHttpDec (d : bytes) (tl : list (bytes * option sl)) (obs : htres sl).

Definition slp_of (tl : list (bytes * option sl)) (line : bytes) : option sl :=
  match tlookup tl line with Some r => r | None => Some (true, POISON) end.

Definition check (c : case) : bool :=
  match c with
  | CPieces d lens => nat_list_eqb (map (@length byte) (pieces BODY_MAX_CHUNK d)) lens
  | CIter c d raws => list_eqb bytes_eqb (body_iter (fun x => x) (fun x => x) (Some c) d) raws
  | CCodecDec c d tg tz1 tzs obs =>
      cres_eqb (codec_decode (t_opt tg) (t_opt tz1) (t_st tzs) DEFLATE_VARIANT c d) obs
  | CBodyDec c cs d tg tz1 tzs obs =>
      cres_eqb (body_decompress (t_opt tg) (t_opt tz1) (t_st tzs) (cs_apply cs) BODY_TEXT_VARIANT DEFLATE_VARIANT (Some c) d) obs
  | CWire c cs d tc payload tg tz1 tzs obs =>
      bytes_eqb (wire_payload (t_fun tc) (t_fun tc) (Some c) d) payload &&
      cres_eqb (wire_roundtrip (t_fun tc) (t_opt tg) (t_fun tc) (t_opt tz1) (t_st tzs) (cs_apply cs) BODY_TEXT_VARIANT DEFLATE_VARIANT c d) obs
  | CDecodable cs d ok => Bool.eqb (decodable cs d) ok
  | CHCompose h obs => opt_eqb bytes_eqb (hcompose h) obs
  | CMpEnc bd ps obs => bytes_eqb (mp_encode bd ps) obs
  | CMpDec digest bd d obs =>
      mpres_eqb (mp_decode MP_NOHDR_VARIANT (if digest then MP_DIGEST_DEFAULT_CT else MP_DEFAULT_CT) bd d) obs
  | CBoundary bd ok => Bool.eqb (boundary_valid bd) ok
  | CHttpEnc s hb body obs => bytes_eqb (http_encode s hb body) obs
  | CHttpDec d tl obs => htres_eqb (http_decode (slp_of tl) HTTP_NOHDR_VARIANT d) obs
  end.

(* T2/T3 for C10: case type and checker evaluated by vm_compute on generated case files.
   The callees the model takes as Section parameters are instantiated per case by the finite tables of
   (argument, result) pairs the harness recorded from the implementation's run; a lookup miss yields a
   result no implementation run can produce (it contains a NUL octet), i.e. a disagreement. *)
From Httoop Require Import Lib.Bytes Lib.Utf8 Gen.PercentT Gen.UriT Model.Percent Model.UriSyntax.
Local Open Scope N_scope.

Definition tbl := list (bytes * option bytes).
Definition MISS : bytes := [x00; x4d; x49; x53; x53].
Definition lookup (t : tbl) (k : bytes) : option bytes :=
  match find (fun kv => bytes_eqb (fst kv) k) t with
  | Some kv => snd kv
  | None => Some MISS
  end.

(* observation of URI(...).tuple (text slots as UTF-8) or of the exception *)
Inductive pobs :=
| PTuple (scheme user pass host : bytes) (port : option N) (path query frag : bytes)
| PInvalid      (* InvalidURI *)
| PUnicode.     (* UnicodeDecodeError *)

Inductive case :=
| CParse (data : bytes) (ip4 ip6 idd : tbl) (out : pobs)                       (* URI(data) *)
| CCompose (scheme user pass host : bytes) (port : option N) (path query frag : bytes)
           (ide : tbl) (out : option bytes)                                       (* bytes(URI(tuple)); None = UnicodeError *)
| CSet (scheme user pass host : bytes) (port : option N) (path query frag : bytes) (out : pobs)  (* URI(scheme=.., ...).tuple *)
| CInt (d : bytes) (out : option Z)                                               (* httoop.util.integer(d) *)
| CSegs (segs : list bytes) (path : bytes)                                        (* path_segments setter *)
| CQuery (ps : list (bytes * bytes)) (qs : bytes)                                 (* query setter *)
| CDec (n : N) (out : bytes)                                                      (* b'%d' % n *)
| CAll (cs : list case).                                                          (* several observations of one generated input *)

Definition optN_eqb := opt_eqb N.eqb.

Definition uri_obs_eqb (u : uri) (o : pobs) : bool :=
  match o with
  | PTuple s us pw h p pa q f =>
      bytes_eqb (u_scheme u) s && bytes_eqb (u_user u) us && bytes_eqb (u_pass u) pw && bytes_eqb (u_host u) h
      && optN_eqb (u_port u) p && bytes_eqb (u_path u) pa && bytes_eqb (u_query u) q && bytes_eqb (u_frag u) f
  | _ => false
  end.

Definition res_obs_eqb (r : res uri) (o : pobs) : bool :=
  match r, o with
  | Ok u, _ => uri_obs_eqb u o
  | Err EInvalid, PInvalid => true
  | Err EUnicode, PUnicode => true
  | _, _ => false
  end.

Definition none_tbl : bytes -> option bytes := fun _ => Some MISS.

Fixpoint check (c : case) : bool :=
  match c with
  | CParse data ip4 ip6 idd out =>
      res_obs_eqb (uri_parse utf8_valid (lookup ip4) (lookup ip6) (lookup idd) IMPL_VARIANT URI_UNICODE_VARIANT data) out
  | CCompose s us pw h p pa q f ide out =>
      opt_eqb bytes_eqb (uri_compose (lookup ide) IMPL_VARIANT URI_USER_VARIANT (mkUri s us pw h p pa q f)) out
  | CSet s us pw h p pa q f out => res_obs_eqb (uri_set s us pw h p pa q f) out
  | CInt d out => opt_eqb Z.eqb (py_int d) out
  | CSegs segs path => bytes_eqb (path_of_segments segs) path
  | CQuery ps qs => bytes_eqb (query_of_pairs IMPL_VARIANT ps) qs
  | CDec n out => bytes_eqb (print_dec n) out
  | CAll cs => forallb check cs
  end.

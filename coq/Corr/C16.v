(* T2 for C16: case type and checker evaluated by vm_compute on generated case files *)
From Httoop Require Import Lib.Bytes Lib.Variant Gen.Base64T Gen.AuthT Model.Base64 Model.AuthCommon Model.Basic Model.Digest.
Local Open Scope N_scope.

Definition res_eqb {T} (eq : T -> T -> bool) (a b : res T) : bool :=
  match a, b with
  | Ok x, Ok y => eq x y
  | Err e, Err e' => aerr_eqb e e'
  | _, _ => false
  end.
Definition pair_eqb (p q : bytes * bytes) : bool := bytes_eqb (fst p) (fst q) && bytes_eqb (snd p) (snd q).
Definition alist_eqb : alist -> alist -> bool := list_eqb pair_eqb.
Definition pres_eqb (a b : pres) : bool :=
  match a, b with
  | POk s ps, POk s' ps' => bytes_eqb s s' && alist_eqb ps ps'
  | PErr e, PErr e' => aerr_eqb e e'
  | _, _ => false
  end.

Definition basic_info (u p : option bytes) : authinfo :=
  mkAuth u None p None None None None None None None None None None None None.

Inductive case :=
| CEnc (d out : bytes)                                   (* util.encode_base64(d) = out *)
| CDec (d : bytes) (out : option bytes)                  (* util.decode_base64(d) = out | binascii.Error *)
| CCompose (u p : option bytes) (out : res bytes)        (* BasicAuthRequestScheme.compose *)
| CParse (info : bytes) (out : res (bytes * bytes))      (* BasicAuthRequestScheme.parse *)
| CElemCompose (value : bytes) (u p : option bytes) (out : res bytes)   (* bytes(Authorization(value, params)) *)
| CElemParse (value : bytes) (out : pres).               (* Authorization.parse(value): (value, params) *)

(* the digest branch of the element is exercised by C17; here it only has to be present *)
Definition no_digest_compose (d : authinfo) : res bytes := Err ENotImpl.

Definition check (c : case) : bool :=
  match c with
  | CEnc d out => bytes_eqb (encodebytes d) out
  | CDec d out => opt_eqb bytes_eqb (decodebytes d) out
  | CCompose u p out => res_eqb bytes_eqb (basic_compose BASIC_WRAP_VARIANT (basic_info u p)) out
  | CParse info out => res_eqb pair_eqb (basic_parse BASIC_SPLIT_VARIANT info) out
  | CElemCompose value u p out =>
      res_eqb bytes_eqb (auth_compose no_digest_compose BASIC_WRAP_VARIANT value (basic_info u p)) out
  | CElemParse value out =>
      match auth_parse digest_parse BASIC_SPLIT_VARIANT value with
      | PUnmodelled => true
      | r => pres_eqb r out
      end
  end.

(* T2 for C11: case type and checker evaluated by vm_compute on generated case files *)
From Httoop Require Import Lib.Bytes Lib.Variant Gen.UriNormT Model.UriPath Model.UriNorm.
Local Open Scope N_scope.

Definition ltab := list (bytes * bytes).   (* T3: (s, str.lower(s)) for the non-ASCII strings of the case *)

Inductive case :=
| CAbs (l : list (bytes * (bytes * bytes)))
    (* (p, a, n): a = path of a URI with only the path p after abspath(); n = path of http://h + p after normalize() *)
| CNorm (tbl : ltab) (d0 : option N) (t c n : nuri)
    (* K(tuple t) on a class with PORT d0: (PORT, slots) after construction = c, after normalize() = n *)
| CEq (tbl : ltab) (l : list (option N * nuri * nuri * bool))
    (* (d0, a, b, res): a == b evaluated by __eq__ of a class with PORT d0 gave res; a, b are the slots K(a), K(b) start from *)
| CRds (l : list (bytes * bytes)).             (* literal RFC 5.2.4 in Coq = the harness's transcription *)

Definition check (c : case) : bool :=
  match c with
  | CAbs l => forallb (fun pq => bytes_eqb (abspath (fst pq)) (fst (snd pq)) &&
                               bytes_eqb (normalize_path true true (fst pq)) (snd (snd pq))) l
  | CNorm tbl d0 t c n =>
      uri_eqb (construct d0 t) c && uri_eqb (normalize (tlower tbl) NORM_VARIANT c) n
  | CEq tbl l =>
      forallb (fun q => match q with (d0, a, b, res) => Bool.eqb (uri_eq (tlower tbl) NORM_VARIANT d0 a b) res end) l
  | CRds l => forallb (fun pq => opt_eqb bytes_eqb (rfc_rds (fst pq)) (Some (snd pq))) l
  end.
